"""
C15: the additive (Newton-Girard) kernels and the polynomial kernel at order 0
do not return a kernel matrix.  The order-0 additive kernel is the constant kernel scale[0]; the
classes return the bare scalar scale[0] from __call__ (shape ()), so
diag(X) and k_and_deriv(X, Y) raise and k(X, Y) != k(Y, X).T has no meaning.

Expected (for every additive class, any X (nx, nf), Y (ny, nf)):
  k(X, Y)            == scale[0] * ones((nx, ny))       (like DiffConstantKernel)
  diag(X)            == scale[0] * ones(nx)
  k(X, eval_gradient)-> (k, dk) with dk[..., scale slot] == scale[0]
  k_and_deriv(X, Y)  == (k(X, Y), zeros((nx, ny, nf)))
"""
import sys

import numpy as np

from ciderpress.models import kernels as K

rng = np.random.default_rng(11)
X = rng.uniform(0, 1, (6, 3))
Y = rng.uniform(0, 1, (4, 3))
c = 0.37
nfail = 0


def report(label, ok, detail=""):
    global nfail
    print("%-58s %s %s" % (label, "ok" if ok else "FAIL", detail))
    if not ok:
        nfail += 1


def attempt(label, fn):
    try:
        return fn()
    except Exception as e:
        report(label, False, "raised " + repr(e)[:110])
        return None


classes = {
    "DiffARBF": lambda: K.DiffARBF(order=0, length_scale=np.full(3, 0.6), scale=[c]),
    "DiffARBFV2": lambda: K.DiffARBFV2(order=0, length_scale=np.full(3, 0.6), scale=[c]),
    "DiffAddLLRBF": lambda: K.DiffAddLLRBF(order=0, length_scale=0.6, scale=[c]),
    "DiffAddRQ": lambda: K.DiffAddRQ(order=0, length_scale=0.6, scale=[c]),
    "SubsetARBF": lambda: K.SubsetARBF([0, 2], order=0, length_scale=np.full(2, 0.6), scale=[c]),
    "PartialARBF": lambda: K.PartialARBF(order=0, length_scale=np.full(2, 0.6), scale=[c], start=1),
}
# DiffPolyKernel has the same defect: its order-0 kernel is the constant 1
poly = {
    "DiffPolyKernel": lambda: K.DiffPolyKernel(gamma=0.8, order=0),
    "DiffPolyKernel(aniso, no factorial)": lambda: K.DiffPolyKernel(
        gamma=np.array([0.8, 0.5, 0.3]), order=0, factorial=False
    ),
}
for name, mk in poly.items():
    kern = mk()
    k = attempt(name + " k(X, Y)", lambda: np.asarray(kern(X, Y)))
    if k is not None:
        report(name + " k(X, Y) == ones((6, 4))", k.shape == (6, 4) and np.all(k == 1), "got shape %s" % (k.shape,))
    d = attempt(name + " diag(X)", lambda: np.asarray(kern.diag(X)))
    if d is not None:
        report(name + " diag(X) == ones(6)", d.shape == (6,) and np.all(d == 1), "got shape %s" % (d.shape,))
    r = attempt(name + " k(X, eval_gradient=True)", lambda: kern(X, eval_gradient=True))
    if r is not None:
        ok = np.shape(r[0]) == (6, 6) and r[1].shape == (6, 6, len(kern.theta)) and np.all(r[1] == 0)
        report(name + " value/gradient with eval_gradient", ok, "k %s dk %s" % (np.shape(r[0]), r[1].shape))
    r = attempt(name + " k_and_deriv(X, Y)", lambda: kern.k_and_deriv(X, Y))
    if r is not None:
        ok = np.shape(r[0]) == (6, 4) and np.shape(r[1]) == (6, 4, 3) and np.all(r[1] == 0)
        report(name + " k_and_deriv == (1, 0)", ok, "k %s dk %s" % (np.shape(r[0]), np.shape(r[1])))

ref = K.DiffConstantKernel(c)
for name, mk in classes.items():
    kern = mk()
    k = attempt(name + " k(X, Y)", lambda: np.asarray(kern(X, Y)))
    if k is not None:
        report(
            name + " k(X, Y) == constant kernel matrix",
            k.shape == (6, 4) and np.allclose(k, ref(X, Y)),
            "expected shape (6, 4), got %s" % (k.shape,),
        )
    d = attempt(name + " diag(X)", lambda: np.asarray(kern.diag(X)))
    if d is not None:
        report(name + " diag(X) == c", d.shape == (6,) and np.allclose(d, c), "got shape %s" % (d.shape,))
    r = attempt(name + " k(X, eval_gradient=True)", lambda: kern(X, eval_gradient=True))
    if r is not None:
        kk, dk = r
        n = len(kern.theta)
        ok = np.shape(kk) == (6, 6) and dk.shape == (6, 6, n) and np.allclose(dk[..., -1], c)
        report(name + " value/gradient shapes with eval_gradient", ok, "k %s dk %s" % (np.shape(kk), dk.shape))
    r = attempt(name + " k_and_deriv(X, Y)", lambda: kern.k_and_deriv(X, Y))
    if r is not None:
        kk, dk = r
        ok = np.shape(kk) == (6, 4) and np.allclose(kk, c) and dk.shape == (6, 4, 3) and np.all(dk == 0)
        report(name + " k_and_deriv == (c, 0)", ok, "k %s dk %s" % (np.shape(kk), np.shape(dk)))

# the same after a hyper-parameter update (theta is what a GP optimiser sets)
for name, mk in classes.items():
    kern = mk()

    def theta_cycle():
        theta = kern.theta.copy()
        kk, dk = kern(X, eval_gradient=True)
        fd = np.zeros((6, 6, len(theta)))
        for i in range(len(theta)):
            for sgn in (1, -1):
                t = theta.copy()
                t[i] += sgn * 1e-6
                kern.theta = t
                fd[:, :, i] += sgn * np.asarray(kern(X)) / 2e-6
        kern.theta = theta
        return np.abs(np.asarray(kern(X)) - c).max(), np.abs(dk - fd).max()

    r = attempt(name + " theta update + gradient check", theta_cycle)
    if r is not None:
        report(
            name + " value after theta update, dk == finite difference",
            r[0] < 1e-12 and r[1] < 1e-7,
            "value err %.1e grad err %.1e" % r,
        )

print("failures:", nfail)
sys.exit(1 if nfail else 0)
