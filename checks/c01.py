#!/usr/bin/env python3
"""C01 -- the XC matrix is the derivative of the XC energy (PySCF integrators).
Static rules (DESIGN.md §C01); all are necessary conditions of the identity, none proves it:

 potential-consume  in each integrator / gradient function the triple (vxc, vxc_nldf, vxc_sdmx) returned by
                    eval_xc_cider is consumed: vxc * weight reaches the contraction; vxc_nldf * weight reaches
                    nldfgen.get_potential whose result is added to the same potential buffer before the
                    contraction (or is asserted None / excluded by the NLDF dispatch); vxc_sdmx reaches
                    sdmxgen.get_vxc_ under the SDMX flag (or SDMX raises)
 ladder-mirror      eval_xc_cider: the forward feature ladder and the backward potential ladder list the same
                    families, in the same order, with the same nfeat expressions and slices, both closed by
                    the `start != nfeat -> raise` guard
 scale-pair         every in-place scaling of the ML energy by a non-literal factor is applied to the
                    derivative (and to the direct density potential) as well
 hermi-half         contract_wv halves the density and tau rows exactly once; every integrator calls
                    lib.hermi_sum exactly once after the last contract_wv and adds v1 after it; gradient
                    functions halve exactly once before _gga_grad_sum_ / _tau_grad_dot_
 inplace-product    the in-place product rule (dv *= F; dv_j += v; v *= F): the `+= v` term is added before v is scaled
 level-flag         a level / mode flag handed to a helper that reads the tau row (index 4) of the density only under
                    that flag is derived from the settings level that determines how many rho rows exist; a literal
                    True / False (or the default) in a level-dependent function, or where a sibling call passes the
                    settings-derived value, is reported
 energy-nelec       nelec and excsum are accumulated from the same density, at the same batch slot, which is
                    the induction variable of the enclosing batch loop
"""
import ast
import os
import sys

sys.path.insert(0, os.path.dirname(os.path.dirname(os.path.abspath(__file__))))
from sa import core, pyfacts as pf, cfg as cfgm, batch, ksrules as ks  # noqa: E402
from sa import unroll  # noqa: E402
from sa.selftest import Mutant  # noqa: E402

PROP = "C01"
NUMINT = "ciderpress/pyscf/numint.py"
RKSG = "ciderpress/pyscf/rks_grad.py"
UKSG = "ciderpress/pyscf/uks_grad.py"
FRACLAPL = "ciderpress/pyscf/frac_lapl.py"
INTEGRATORS = ["nr_rks", "nr_uks", "nr_rks_nldf", "nr_uks_nldf"]
GRADS = ["get_vxc", "get_vxc_nldf", "get_vxc_full_response", "get_vxc_nldf_full_response"]
ALL_FUNCS = [(NUMINT, n) for n in INTEGRATORS] + [(RKSG, n) for n in GRADS] + [(UKSG, n) for n in GRADS]


def _is_sink(kind):
    def pred(c):
        cn = pf.call_name(c) or ""
        last = cn.split(".")[-1]
        if kind == "int":
            return last == "contract_wv"
        return last == "_gga_grad_sum_"
    return pred


def _mult_by_weight(sl, names, weights):
    """some statement of the slice multiplies one of `names` by a quadrature weight"""
    for st in sl.flow:
        v = getattr(st, "value", None)
        if v is None:
            continue
        for b in ast.walk(v):
            if isinstance(b, ast.BinOp) and isinstance(b.op, ast.Mult):
                ns = {n.id for n in ast.walk(b) if isinstance(n, ast.Name)}
                if ns & weights and ns & names:
                    return True
    return False


def rule_consume(chk):
    mods = {}
    for rel, name in ALL_FUNCS:
        mod = mods.setdefault(rel, pf.Module(chk.tree, rel))
        fn = ks.locate(chk.tree, rel, name)[1]
        kind = "int" if rel == NUMINT else "grad"
        sites = ks.unpack_of_eval_xc(fn)
        if not sites:
            raise core.AnalysisError("%s:%s no longer calls eval_xc_cider" % (rel, name))
        weights = ks.weight_names(fn)
        if not weights:
            raise core.AnalysisError("%s:%s: quadrature weight variable not found" % (rel, name))
        for st, call, exc_t, (vxc, vnl, vsd) in sites:
            where = "%s:%s" % (rel, name)
            # --- vxc ---------------------------------------------------------
            sl = ks.Slice(fn, {vxc.id}, seed_stmt=None)
            sinks = sl.reaches_call(_is_sink(kind))
            inst = "%s vxc -> weight * vxc -> %s" % (where, "contract_wv" if kind == "int" else "_gga_grad_sum_")
            # the seed itself must not count as flowing through `weight *`: look at statements using it
            if not sinks:
                chk.violation("potential-consume", rel, name, "%s of %s" % (vxc.id, batch.head_text(st)[:70]), st.lineno,
                              "the semilocal potential `%s` returned by eval_xc_cider never reaches %s: the "
                              "(rho, grad, tau) part of dE/dDM is dropped" % (
                                  vxc.id, "contract_wv" if kind == "int" else "_gga_grad_sum_"), instance=inst)
            elif not _mult_by_weight(sl, {vxc.id}, weights):
                chk.violation("potential-consume", rel, name, "%s of %s" % (vxc.id, batch.head_text(st)[:70]), st.lineno,
                              "`%s` reaches the contraction without being multiplied by the quadrature weight (%s)" % (
                                  vxc.id, "/".join(sorted(weights))), instance=inst)
            else:
                chk.ok("potential-consume", inst)
            # --- vxc_nldf ----------------------------------------------------
            inst = "%s vxc_nldf consumed" % where
            how = _nldf_consumed(fn, st, vnl, vxc, weights, kind)
            if how[0]:
                chk.ok("potential-consume", inst, detail=how[1])
            else:
                chk.violation("potential-consume", rel, name, "%s of %s" % (vnl.id, batch.head_text(st)[:70]), st.lineno,
                              how[1], instance=inst)
            # --- vxc_sdmx ----------------------------------------------------
            inst = "%s vxc_sdmx consumed" % where
            how = _sdmx_consumed(fn, st, call, vsd, weights)
            if how[0]:
                chk.ok("potential-consume", inst, detail=how[1])
            else:
                chk.violation("potential-consume", rel, name, "%s of %s" % (vsd.id, batch.head_text(st)[:70]), st.lineno,
                              how[1], instance=inst)


def _follows_in_block(st, pred):
    """a later statement of the same block satisfies pred"""
    par = pf.parent(st)
    for blkname in ("body", "orelse", "finalbody"):
        blk = getattr(par, blkname, None)
        if isinstance(blk, list) and any(x is st for x in blk):
            i = [k for k, x in enumerate(blk) if x is st][0]
            return any(pred(x) for x in blk[i + 1:])
    return False


def _nldf_consumed(fn, st, vnl, vxc, weights, kind):
    name = vnl.id
    # (a) asserted None right after the call
    if _follows_in_block(st, lambda x: isinstance(x, ast.Assert) and pf.src(x.test) == "%s is None" % name):
        return True, "assert %s is None" % name
    # (b) the function is only reached without NLDF features: an early `if <nldf present>: return <nldf variant>`
    for t, pol, k in cfgm.conditions_at(st):
        ft = ks.family_test(t)
        if ft and ft[0] == "nldf" and (ft[1] != pol):
            return True, "NLDF models are dispatched away before this point (%s)" % pf.src(t)
    enc = pf.enclosing_func(st)
    if enc is not fn:
        # inside the local generator: conditions of the iteration sites
        for n in pf.walk_no_nested(fn):
            if isinstance(n, ast.Call) and isinstance(n.func, ast.Name) and n.func.id == enc.name:
                for t, pol, k in cfgm.conditions_at(n):
                    ft = ks.family_test(t)
                    if ft and ft[0] == "nldf" and (ft[1] != pol):
                        return True, "NLDF models are dispatched away before this point (%s)" % pf.src(t)
    # (c) consumed by get_potential whose result is accumulated into the buffer that carries vxc
    sl = ks.Slice(fn, {name})
    pots = sl.reaches_call(lambda c: isinstance(c.func, ast.Attribute) and c.func.attr == "get_potential")
    if not pots:
        return False, ("the NLDF potential `%s` is neither asserted None nor passed (times the weight) to "
                       "nldfgen.get_potential: the nonlocal-density term of dE/dDM is dropped" % name)
    if not _mult_by_weight(sl, {name}, weights):
        return False, "`%s` reaches get_potential without the quadrature weight" % name
    vsl = ks.Slice(fn, {vxc.id})
    sinks = vsl.reaches_call(_is_sink(kind))
    for p in pots:
        pst = batch.stmt_of(p)
        # result accumulated (+=) into a buffer of the vxc slice, directly or through a temporary
        tgt = None
        if isinstance(pst, ast.AugAssign) and isinstance(pst.op, ast.Add):
            tgt = pf.base_name(pst.target)
        elif isinstance(pst, ast.Assign):
            tmp = ks.Slice(fn, ks._store_names(pst.targets[0]))
            for n in ast.walk(fn):
                if isinstance(n, ast.AugAssign) and isinstance(n.op, ast.Add) and ks._names(n.value) & tmp.tainted \
                        and pf.base_name(n.target) in vsl.tainted:
                    tgt = pf.base_name(n.target)
        if tgt is None or tgt not in vsl.tainted:
            return False, ("the result of `%s` is not added (+=) to the potential buffer that is later contracted "
                           "(found: `%s`)" % (pf.src(p.func), batch.head_text(pst)[:80]))
        # ... and before the contraction
        if sinks and not all(pst.lineno < s.lineno for s in sinks if pf.enclosing_func(s) is pf.enclosing_func(p)):
            return False, "the NLDF potential is added after the contraction `%s`" % pf.src(sinks[0].func)
    return True, "%s * weight -> get_potential -> += potential buffer -> contraction" % name


def _sdmx_consumed(fn, st, call, vsd, weights):
    name = vsd.id
    ok, _w = ks.guard_passes(fn, call, "sdmx")
    if ok:
        return True, "SDMX raises NotImplementedError before this point"
    sl = ks.Slice(fn, {name})
    uses = sl.reaches_call(lambda c: isinstance(c.func, ast.Attribute) and c.func.attr == "get_vxc_")
    if not uses:
        return False, ("the SDMX potential `%s` never reaches sdmxgen.get_vxc_ and the function does not raise for "
                       "SDMX models: the exchange-hole term of dE/dDM is dropped" % name)
    for u in uses:
        conds = [(ks.family_test(t), pol) for t, pol, k in cfgm.conditions_at(u)]
        if not any(ft and ft[0] == "sdmx" and ft[1] == pol for ft, pol in conds):
            return False, "`%s` is not under the SDMX flag" % pf.src(u.func)
        arg = u.args[1] if len(u.args) > 1 else None
        if arg is None or not ({n.id for n in ast.walk(arg) if isinstance(n, ast.Name)} & weights):
            return False, "`%s` is passed to get_vxc_ without the quadrature weight" % name
        # executed once per eval call: same block as the unpacking statement
        if not _follows_in_block(st, lambda x: any(n is u for n in ast.walk(x))):
            return False, "get_vxc_ is not executed in the block that evaluates the functional"
    return True, "%s * weight -> sdmxgen.get_vxc_ under the SDMX flag" % name


# ----------------------------------------------------------------------------
def _slice_shape(sl):
    """canonical text of a subscript index (ast.unparse differs between tuple and plain slices)"""
    def one(e):
        if isinstance(e, ast.Slice):
            return "%s:%s%s" % (pf.src(e.lower) if e.lower else "", pf.src(e.upper) if e.upper else "",
                                (":" + pf.src(e.step)) if e.step else "")
        return pf.src(e)
    elts = sl.elts if isinstance(sl, ast.Tuple) else [sl]
    return "[" + ", ".join(one(e) for e in elts) + "]"


def _root_name(e):
    """x.reshape(..)[..].T -> x"""
    while True:
        if isinstance(e, (ast.Attribute, ast.Subscript, ast.Starred)):
            e = e.value
        elif isinstance(e, ast.Call) and isinstance(e.func, ast.Attribute):
            e = e.func.value
        else:
            break
    return e.id if isinstance(e, ast.Name) else None


def _rung_family(test, flagdefs):
    if isinstance(test, ast.Name) and test.id in flagdefs:
        return flagdefs[test.id]
    ft = ks.family_test(test)
    return ft[0] if ft and ft[1] else None


def _ladder(stmts, flagdefs, ctr):
    """top-level `if <family present>:` statements -> list of dicts (names of the counter / width variables are
    taken from the code, not assumed)"""
    import re
    out = []
    for st in stmts:
        if not isinstance(st, ast.If):
            continue
        fam = _rung_family(st.test, flagdefs)
        if fam is None:
            continue
        inc = [n for n in st.body if isinstance(n, ast.AugAssign) and pf.src(n.target) == ctr and isinstance(n.op, ast.Add)]
        inc += [n for n in st.body if isinstance(n, ast.Assign) and pf.src(n.targets[0]) == ctr
                and isinstance(n.value, ast.BinOp) and isinstance(n.value.op, ast.Add) and pf.src(n.value.left) == ctr]
        width_name, width = None, None
        if inc:
            w = inc[0].value if isinstance(inc[0], ast.AugAssign) else inc[0].value.right
            width = pf.src(w)
            if isinstance(w, ast.Name):
                width_name = w.id
                d = [n for n in st.body if isinstance(n, ast.Assign) and pf.src(n.targets[0]) == w.id]
                width = pf.src(d[0].value) if len(d) == 1 else None
        slices = set()
        for b in st.body:
            for n in ast.walk(b):
                if isinstance(n, ast.Subscript) and ctr in ks._names(n.slice):
                    t = _slice_shape(n.slice)
                    t = re.sub(r"\b%s\b" % re.escape(ctr), "START", t)
                    if width_name:
                        t = re.sub(r"\b%s\b" % re.escape(width_name), "WIDTH", t)
                    elif width:
                        t = t.replace(width, "WIDTH")
                    slices.add(t)
        out.append({"flag": pf.src(st.test), "family": fam, "nfeat": width, "n_inc": len(inc),
                    "slices": sorted(slices), "node": st})
    return out


def _eval_xc_cider_inlined(chk):
    """eval_xc_cider with its private helper methods inlined (bounded depth): the feature-assembly and the
    potential-distribution ladders may live in helpers"""
    from sa import hinline
    rel2, fn = ks.locate(chk.tree, NUMINT, "CiderNumIntMixin.eval_xc_cider")
    prog = pf.Program(chk.tree, [rel2])
    mod = prog.module(rel2)
    cls = pf.enclosing_class(fn)
    if cls is None:
        return fn
    return hinline.inline_helpers(fn, hinline.class_resolver(prog, mod, cls), depth=2)


def rule_ladder(chk):
    fn = _eval_xc_cider_inlined(chk)
    fq = "CiderNumIntMixin.eval_xc_cider"
    flagdefs = {}
    for st in fn.body:
        if isinstance(st, ast.Assign) and isinstance(st.targets[0], ast.Name):
            ft = ks.family_test(st.value)
            if ft and ft[1]:
                flagdefs[st.targets[0].id] = ft[0]
    # the running offsets: names set to 0 at the top level and advanced inside the family rungs that follow
    # (one name zeroed twice, or - after the ladders were moved into helpers and inlined here - two names)
    zeros = []
    for i, st in enumerate(fn.body):
        if isinstance(st, ast.Assign) and len(st.targets) == 1 and isinstance(st.targets[0], ast.Name) \
                and isinstance(st.value, ast.Constant) and st.value.value == 0 and st.value.value is not False:
            zeros.append((i, st.targets[0].id))

    def advanced_after(i, k):
        for st in fn.body[i + 1:]:
            if isinstance(st, ast.Assign) and any(isinstance(t, ast.Name) and t.id == k for t in st.targets):
                return False
            if isinstance(st, ast.If) and _rung_family(st.test, flagdefs) is not None:
                for n in st.body:
                    t = n.target if isinstance(n, ast.AugAssign) else (n.targets[0] if isinstance(n, ast.Assign) else None)
                    if t is not None and pf.src(t) == k:
                        return True
        return False
    secs = [(i, k) for i, k in zeros if advanced_after(i, k)]
    if len(secs) != 2:
        raise core.AnalysisError("%s: expected a forward and a backward feature ladder (offset set to 0, then advanced "
                                 "per family), found %d such section(s)" % (fq, len(secs)))
    starts = [i for i, _k in secs]

    def is_close(st, ctr):
        if isinstance(st, ast.If) and isinstance(st.test, ast.Compare) and len(st.test.ops) == 1 \
                and isinstance(st.test.ops[0], ast.NotEq) and ctr in ks._names(st.test) and cfgm._raises(st.body):
            return True
        return isinstance(st, ast.Assert) and isinstance(st.test, ast.Compare) and len(st.test.ops) == 1 \
            and isinstance(st.test.ops[0], ast.Eq) and ctr in ks._names(st.test)
    sections = []
    ctrs = []
    for k, (s_, ctr) in enumerate(secs):
        end = starts[k + 1] if k + 1 < len(starts) else len(fn.body)
        g = [i for i in range(s_ + 1, end) if is_close(fn.body[i], ctr)]
        nm = "forward" if k == 0 else "backward"
        inst = "%s:%s %s ladder closed by the nfeat guard" % (NUMINT, fq, nm)
        ctrs.append(ctr)
        if not g:
            chk.violation("ladder-mirror", NUMINT, fq, "%s ladder: start != nfeat guard" % nm,
                          fn.body[s_].lineno, "the %s ladder is not closed by `if <offset> != nfeat: raise`: a family "
                          "missing from one ladder would go unnoticed at run time" % nm, instance=inst)
            sections.append(_ladder(fn.body[s_:end], flagdefs, ctr))
        else:
            chk.ok("ladder-mirror", inst)
            sections.append(_ladder(fn.body[s_:g[0]], flagdefs, ctr))
    for sec, c_ in zip(sections, ctrs):
        for r in sec:
            r["ctr"] = c_
    fwd, bwd = sections
    if len(fwd) < 4:
        raise core.AnalysisError("%s: forward ladder has %d rungs (<4)" % (fq, len(fwd)))
    ff, bf_ = [r["family"] for r in fwd], [r["family"] for r in bwd]
    inst = "%s:%s families forward %s == backward %s" % (NUMINT, fq, ff, bf_)
    if ff != bf_:
        chk.violation("ladder-mirror", NUMINT, fq, "family order forward/backward", fn.body[starts[1]].lineno,
                      "forward ladder fills the feature array in the order %s but the backward ladder slices the "
                      "derivative array in the order %s: the derivative of one family is back-propagated through "
                      "another family's plan" % (ff, bf_), instance=inst)
    else:
        chk.ok("ladder-mirror", inst)
    for sec, nm in ((fwd, "forward"), (bwd, "backward")):
        for r in sec:
            inst = "%s:%s %s rung %s" % (NUMINT, fq, nm, r["family"])
            want = "self.settings.%s.nfeat" % ks.FAMILIES[r["family"]][1]
            problems = []
            if r["nfeat"] != want:
                problems.append("uses the width `%s`, expected `%s`" % (r["nfeat"], want))
            if r["n_inc"] != 1:
                problems.append("does not advance the offset by its width exactly once (found %d)" % r["n_inc"])
            if r["slices"] != ["[:, START:START + WIDTH]"]:
                problems.append("slices %s instead of [:, offset:offset + width]" % r["slices"])
            if problems:
                chk.violation("ladder-mirror", NUMINT, fq, "%s rung %s" % (nm, r["family"]), r["node"].lineno,
                              "; ".join(problems), instance=inst)
            else:
                chk.ok("ladder-mirror", inst)
    # each family's producer/consumer: feature rows written forward, derivative rows read backward (exactly once)
    for sec, nm, store in ((fwd, "forward", True), (bwd, "backward", False)):
        for r in sec:
            inst = "%s:%s %s rung %s %s its slice once" % (NUMINT, fq, nm, r["family"], "stores" if store else "reads")
            subs = [n for b in r["node"].body for n in ast.walk(b) if isinstance(n, ast.Subscript)
                    and r["ctr"] in ks._names(n.slice)]
            if store:
                subs = [n for n in subs if isinstance(n.ctx, ast.Store)]
            if len(subs) == 1:
                chk.ok("ladder-mirror", inst, nontrivial=False)
            else:
                chk.violation("ladder-mirror", NUMINT, fq, "%s rung %s" % (nm, r["family"]), r["node"].lineno,
                              "the rung %s its [:, offset:offset + width] slice %d times (expected once)" % (
                                  "stores" if store else "reads", len(subs)), instance=inst)
    # the NLDF / SDMX potentials that are handed out are None exactly when the family is absent
    rets = [n for n in pf.walk_no_nested(fn) if isinstance(n, ast.Return) and isinstance(n.value, ast.Tuple)
            and len(n.value.elts) >= 2 and isinstance(n.value.elts[1], ast.Tuple) and len(n.value.elts[1].elts) == 3]
    if not rets:
        raise core.AnalysisError("%s: `return exc, (vxc, vxc_nldf, vxc_sdmx), ...` not found" % fq)
    names = [pf.src(x) for x in rets[0].value.elts[1].elts]

    def aliases(var):
        """names the returned potential is copied from by plain (tuple) assignments at the top level"""
        out, changed = {var}, True
        while changed:
            changed = False
            for st in fn.body:
                if not isinstance(st, ast.Assign) or len(st.targets) != 1:
                    continue
                t, v = st.targets[0], st.value
                pairs = list(zip(t.elts, v.elts)) if isinstance(t, ast.Tuple) and isinstance(v, ast.Tuple) \
                    and len(t.elts) == len(v.elts) else [(t, v)]
                for a, b in pairs:
                    if isinstance(a, ast.Name) and isinstance(b, ast.Name) and a.id in out and b.id not in out:
                        out.add(b.id)
                        changed = True
        return out
    bctr = ctrs[1]
    for fam, var in (("nldf", names[1]), ("sdmx", names[2])):
        r = [x for x in bwd if x["family"] == fam]
        inst = "%s:%s %s handed out / None by family flag" % (NUMINT, fq, var)
        good = False
        al = aliases(var)
        if r:
            nd = r[0]["node"]
            a = [n for n in nd.body if isinstance(n, ast.Assign) and pf.src(n.targets[0]) in al]
            b = [n for n in nd.orelse if isinstance(n, ast.Assign) and pf.src(n.targets[0]) in al
                 and pf.src(n.value) == "None"]
            pre = [n for n in fn.body[starts[1]:] if isinstance(n, ast.Assign) and pf.src(n.targets[0]) in al
                   and pf.src(n.value) == "None"]
            good = len(a) == 1 and (len(b) == 1 or len(pre) == 1) and isinstance(a[0].value, ast.Subscript) \
                and bctr in ks._names(a[0].value.slice)
        if good:
            chk.ok("ladder-mirror", inst)
        else:
            chk.violation("ladder-mirror", NUMINT, fq, var, fn.lineno,
                          "%s is not the [:, offset:offset + width] slice of the derivative array under the %s flag "
                          "and None otherwise" % (var, fam), instance=inst)


# ----------------------------------------------------------------------------
def rule_scale(chk):
    fn = _eval_xc_cider_inlined(chk)
    fq = "CiderNumIntMixin.eval_xc_cider"
    # (value, derivative) pairs: first two targets of `... = self.mlxc(...)`
    pairs = set()
    extra = []  # third output (direct density potential) statements
    for n in pf.walk_no_nested(fn):
        if isinstance(n, ast.Assign) and isinstance(n.value, ast.Call) and pf.src(n.value.func) == "self.mlxc" \
                and isinstance(n.targets[0], ast.Tuple) and len(n.targets[0].elts) >= 2:
            el = n.targets[0].elts
            pairs.add((el[0].id, el[1].id))
            if len(el) > 2:
                extra.append(el[2].id)
    if len(pairs) != 1:
        raise core.AnalysisError("%s: expected one (energy, derivative) pair from self.mlxc(...), found %s" % (fq, pairs))
    e, d = pairs.pop()
    scal = {e: [], d: []}
    for n in pf.walk_no_nested(fn):
        if isinstance(n, ast.AugAssign) and isinstance(n.op, (ast.Mult, ast.Div)) and isinstance(n.target, ast.Name) \
                and n.target.id in scal and not isinstance(n.value, ast.Constant):
            scal[n.target.id].append((type(n.op).__name__, pf.src(n.value), n))
        elif isinstance(n, ast.Assign) and len(n.targets) == 1 and isinstance(n.targets[0], ast.Name) \
                and n.targets[0].id in scal and isinstance(n.value, ast.BinOp) and isinstance(n.value.op, (ast.Mult, ast.Div)):
            t, v = n.targets[0].id, n.value
            other = v.right if pf.src(v.left) == t else (v.left if pf.src(v.right) == t and isinstance(v.op, ast.Mult) else None)
            if other is not None and not isinstance(other, ast.Constant):
                scal[t].append((type(v.op).__name__, pf.src(other), n))
    fe = sorted((o, v) for o, v, _ in scal[e])
    fd = sorted((o, v) for o, v, _ in scal[d])
    inst = "%s:%s scalings of %s %s == scalings of %s %s" % (NUMINT, fq, e, fe, d, fd)
    if fe != fd:
        n = (scal[e] or scal[d])[0][2]
        chk.violation("scale-pair", NUMINT, fq, "scaling of %s / %s" % (e, d), n.lineno,
                      "the ML energy `%s` is scaled in place by %s but its derivative `%s` by %s: the potential is "
                      "no longer the derivative of the energy that is returned" % (e, fe or "nothing", d, fd or "nothing"),
                      instance=inst)
    elif not fe:
        raise core.AnalysisError("%s: no in-place scaling of %s found (xmix)" % (fq, e))
    else:
        chk.ok("scale-pair", inst)
        for (o1, v1, n1), (o2, v2, n2) in zip(sorted(scal[e], key=lambda x: x[:2]), sorted(scal[d], key=lambda x: x[:2])):
            same = pf.parent(n1) is pf.parent(n2)
            inst2 = "%s:%s `%s` and `%s` in the same block" % (NUMINT, fq, pf.src(n1), pf.src(n2))
            if same:
                chk.ok("scale-pair", inst2, nontrivial=False)
            else:
                chk.violation("scale-pair", NUMINT, fq, pf.src(n1), n1.lineno,
                              "value and derivative are scaled under different conditions", instance=inst2)
    # the direct density potential returned by MappedXC2 carries the same factor
    factors = {v for _, v in fe}
    for x in extra:
        uses = [n for n in pf.walk_no_nested(fn) if isinstance(n, ast.AugAssign) and x in ks._names(n.value)]
        inst = "%s:%s direct potential %s scaled by %s" % (NUMINT, fq, x, sorted(factors))
        if not uses:
            chk.violation("scale-pair", NUMINT, fq, x, fn.lineno,
                          "the direct density potential `%s` returned by the model is never added to vxc" % x,
                          instance=inst)
            continue
        for u in uses:
            ok = False
            for b in ast.walk(u.value):
                if isinstance(b, ast.BinOp) and isinstance(b.op, ast.Mult) and x in ks._names(b) and (
                        {pf.src(b.left), pf.src(b.right)} & factors):
                    ok = True
            if ok and isinstance(u.op, ast.Add):
                chk.ok("scale-pair", inst)
            else:
                chk.violation("scale-pair", NUMINT, fq, pf.src(u)[:80], u.lineno,
                              "`%s` is added to vxc without the factor %s that scales the energy" % (x, sorted(factors)),
                              instance=inst)


# ----------------------------------------------------------------------------
PRODUCT_SCAN = ["ciderpress/dft/plans.py", NUMINT, "ciderpress/dft/lcao_nldf_generator.py", "ciderpress/dft/settings.py"]


def _aug_target_base(st):
    """(base name, op) of `x *= f`, `x[:] *= f`, `x[k][:] += y`"""
    if not isinstance(st, ast.AugAssign):
        return None
    b = st.target
    while isinstance(b, ast.Subscript):
        b = b.value
    return (b.id, type(st.op).__name__) if isinstance(b, ast.Name) else None


def rule_inplace_product(chk):
    """The in-place product rule  (v, dv) -> (v*F, dv*F + v*dF)  written as   dv *= F ; dv_j += v ; v *= F :
    the derivative slot must receive the *unscaled* value, i.e. `dv_j += v` comes before `v *= F`."""
    n_inst = 0
    for rel in PRODUCT_SCAN:
        if not chk.tree.exists(rel):
            continue
        mod = chk.tree.py(rel)
        for fn in ast.walk(mod):
            if not isinstance(fn, ast.FunctionDef):
                continue
            for blk_owner in ast.walk(fn):
                for field in ("body", "orelse"):
                    blk = getattr(blk_owner, field, None)
                    if not (isinstance(blk, list) and blk and isinstance(blk[0], ast.stmt)):
                        continue
                    scal = []   # (index, scaled name, factor text)
                    adds = []   # (index, derivative base, added name, stmt)
                    for i, st in enumerate(blk):
                        cands = [(st, None)]
                        if isinstance(st, ast.For) and isinstance(st.target, ast.Name) and isinstance(st.iter, ast.Name):
                            cands = [(x, (st.target.id, st.iter.id)) for x in st.body]
                        for x, loop in cands:
                            tb = _aug_target_base(x)
                            if tb is None:
                                continue
                            name = tb[0]
                            if loop and name == loop[0]:
                                name = loop[1]  # `for d in dtuple: d[:] *= F` scales the members of dtuple
                            if tb[1] == "Mult" and isinstance(x.value, ast.Name):
                                scal.append((i, name, x.value.id))
                            elif tb[1] == "Add":
                                v = x.value
                                while isinstance(v, ast.Subscript):
                                    v = v.value
                                if isinstance(v, ast.Name):
                                    adds.append((i, name, v.id, x))
                    for ia, dname, vname, st in adds:
                        fv = [(i, f) for i, n, f in scal if n == vname]
                        fd = [(i, f) for i, n, f in scal if n == dname]
                        common = {f for _i, f in fv} & {f for _i, f in fd}
                        if not common:
                            continue
                        n_inst += 1
                        F = sorted(common)[0]
                        iv = min(i for i, f in fv if f == F)
                        inst = "%s:%s `%s` before `%s *= %s`" % (rel, pf.qualname(fn), pf.src(st), vname, F)
                        if ia < iv:
                            chk.ok("inplace-product", inst)
                        else:
                            chk.violation("inplace-product", rel, pf.qualname(fn), pf.src(st), st.lineno,
                                          "product rule written in place: `%s` and the derivative arrays `%s` are both scaled "
                                          "by `%s`, and `%s` adds the value into a derivative slot (the d%s/d%s = 1 term); that "
                                          "term needs the unscaled value, but here `%s` has already been multiplied by `%s`, so "
                                          "the derivative is wrong by that factor" % (vname, dname, F, pf.src(st), F, F, vname, F),
                                          instance=inst)
    chk.count("in-place product rules (value and derivatives scaled by the same factor)", n_inst)


# ----------------------------------------------------------------------------
LEVEL_SCAN = [NUMINT, RKSG, UKSG, "ciderpress/dft/plans.py", "ciderpress/dft/lcao_nldf_generator.py",
              "ciderpress/pyscf/sdmx.py", "ciderpress/dft/xc_evaluator2.py"]
LEVEL_WORDS = ("MGGA", "GGA", "LDA")


def _level_flag_params(tree):
    """{function name: {param: (rel, default)}}: boolean / mode parameters of helpers that decide whether the tau row
    (index 4) of a density array parameter is read - the row a GGA-level density does not have"""
    out = {}
    for rel in LEVEL_SCAN:
        if not tree.exists(rel):
            continue
        mod = tree.py(rel)
        for fn in ast.walk(mod):
            if not isinstance(fn, ast.FunctionDef):
                continue
            kind = "method" if isinstance(pf.parent(fn), ast.ClassDef) else "func"
            params = [a.arg for a in fn.args.args + fn.args.kwonlyargs]
            dflt = dict(zip([a.arg for a in fn.args.args][len(fn.args.args) - len(fn.args.defaults):], fn.args.defaults))

            def tau_reads(nodes):
                return any(isinstance(x, ast.Subscript) and pf.base_name(x) in params and any(
                    isinstance(c, ast.Constant) and c.value == 4 for c in ast.walk(x.slice))
                    for b in nodes for x in ast.walk(b))
            for q in params:
                hit = False
                for n in pf.walk_no_nested(fn):
                    if isinstance(n, (ast.If, ast.IfExp)) and isinstance(n.test, ast.Name) and n.test.id == q:
                        body = n.body if isinstance(n, ast.If) else [n.body]
                        other = n.orelse if isinstance(n, ast.If) else [n.orelse]
                        # the row is read under the flag and not without it
                        if tau_reads(body) and not tau_reads(other):
                            hit = True
                if hit:
                    out.setdefault((kind, fn.name), {})[q] = (rel, dflt.get(q), fn)
    return out


def _level_evidence(fn):
    """the function distinguishes semilocal levels itself (xctype == 'MGGA', settings level, nvar rows)"""
    for n in ast.walk(fn):
        if isinstance(n, ast.Compare) and any(isinstance(c, ast.Constant) and c.value in LEVEL_WORDS
                                              for c in [n.left] + list(n.comparators)):
            return pf.src(n)
        if isinstance(n, ast.Attribute) and n.attr in ("level", "sl_level"):
            return pf.src(n)
    return None


def rule_level_flag(chk):
    flags = _level_flag_params(chk.tree)
    if not flags:
        raise core.AnalysisError("no helper with a level flag guarding the tau row (rho[..., 4]) found in %s" % LEVEL_SCAN[3])
    sites = []
    for rel in LEVEL_SCAN:
        if not chk.tree.exists(rel):
            continue
        mod = chk.tree.py(rel)
        for c in ast.walk(mod):
            if not isinstance(c, ast.Call):
                continue
            if isinstance(c.func, ast.Name):
                key = ("func", c.func.id)
            elif isinstance(c.func, ast.Attribute):
                # module.function(...) or obj.method(...)
                key = ("method", c.func.attr) if ("method", c.func.attr) in flags else ("func", c.func.attr)
                if key[0] == "func" and not (isinstance(c.func.value, ast.Name) and c.func.value.id not in ("self", "cls")):
                    continue
            else:
                continue
            if key not in flags:
                continue
            name = key[1]
            fn = pf.enclosing_func(c)
            for q, (drel, dflt, callee) in flags[key].items():
                arg = None
                for k in c.keywords:
                    if k.arg == q:
                        arg = k.value
                if arg is None:
                    ps = [a.arg for a in callee.args.args]
                    off = 1 if key[0] == "method" else 0
                    if q in ps and 0 <= ps.index(q) - off < len(c.args):
                        arg = c.args[ps.index(q) - off]
                sites.append((rel, fn, c, name, q, arg, dflt))
    derived_somewhere = {}
    for rel, fn, c, name, q, arg, dflt in sites:
        if arg is not None and not isinstance(arg, ast.Constant):
            derived_somewhere[(name, q)] = "%s:%s(%s=%s)" % (rel, name, q, pf.src(arg))
            derived_somewhere.setdefault(("*", q), "%s:%s(%s=%s)" % (rel, name, q, pf.src(arg)))
    for rel, fn, c, name, q, arg, dflt in sites:
        fq = pf.qualname(fn) if fn is not None else "<module>"
        eff = arg if arg is not None else dflt
        inst = "%s:%s %s(%s=%s)" % (rel, fq, name, q, pf.src(eff) if eff is not None else "<required>")
        if eff is None or not isinstance(eff, ast.Constant):
            mentions = eff is not None and any(
                (isinstance(x, ast.Attribute) and x.attr in ("level", "sl_level")) or
                (isinstance(x, ast.Name) and x.id in ("xctype", "is_mgga", "level"))
                or (isinstance(x, ast.Constant) and x.value in LEVEL_WORDS) for x in ast.walk(eff))
            chk.ok("level-flag", inst, nontrivial=bool(mentions))
            continue
        ev = _level_evidence(fn) if fn is not None else None
        sib = derived_somewhere.get((name, q)) or derived_somewhere.get(("*", q))
        if ev is None and sib is None:
            chk.ok("level-flag", inst + " (no level dependence in sight: not decided)", nontrivial=False)
            chk.note("level-flag", "%s:%s" % (rel, fq), "%s(%s=%s) uses a fixed level; neither the caller nor a sibling call is "
                     "level dependent" % (name, q, pf.src(eff)))
            continue
        chk.violation("level-flag", rel, fq, "%s(%s=%s)" % (name, q, pf.src(eff)), c.lineno,
                      "`%s` decides whether the tau row (index 4) of the density passed to %s is read, and is fixed to %s "
                      "here%s, while %s: for a model of the other semilocal level the helper reads a row the density does "
                      "not have (IndexError for GGA-level models) or drops tau; pass the settings-derived level" % (
                          q, name, pf.src(eff), "" if arg is not None else " (the default)",
                          ("the enclosing function is level dependent (`%s`)" % ev) if ev else
                          ("the sibling call %s passes the settings-derived value" % sib)), instance=inst)


# ----------------------------------------------------------------------------
def _count_top(fn, pred):
    return [st for st in fn.body if pred(st)]


def rule_hermi_half(chk):
    mod = pf.Module(chk.tree, NUMINT)
    # (a) contract_wv and its NLOF sibling halve rows 0 and 4 exactly once
    sites = [(NUMINT, ks.locate(chk.tree, NUMINT, "CiderNumInt.contract_wv")[1], "CiderNumInt.contract_wv"),
             (FRACLAPL, ks.locate(chk.tree, FRACLAPL, "_odp_dot_sparse_")[1], "_odp_dot_sparse_")]
    for rel, fn, fq in sites:
        wv = "wv"
        if wv not in [a.arg for a in fn.args.args]:
            raise core.AnalysisError("%s: parameter wv vanished" % fq)
        for row in (0, 4):
            hs = [n for n in pf.walk_no_nested(fn) if ks._half_stmt(n, wv, row)]
            inst = "%s:%s wv[%d] halved exactly once" % (rel, fq, row)
            looped = [h for h in hs if any(isinstance(a, (ast.For, ast.While)) for a in ks._anc(h))]
            if len(hs) == 1 and not looped:
                chk.ok("hermi-half", inst)
            else:
                chk.violation("hermi-half", rel, fq, "wv[%d] *= 0.5" % row, (hs[0].lineno if hs else fn.lineno),
                              "row %d of the weighted potential is halved %d time(s)%s in %s; the convention is one "
                              "factor 1/2 here and one hermitian sum in the integrator" % (
                                  row, len(hs), " (inside a loop)" if looped else "", fq), instance=inst)
        # the halved rows are the ones that are contracted
        inst = "%s:%s halving precedes the contraction" % (rel, fq)
        first_use = min([n.lineno for n in pf.walk_no_nested(fn) if isinstance(n, ast.Call)
                         and (pf.call_name(n) or "").split(".")[-1] in ("_scale_ao_sparse", "_tau_dot_sparse")] or [0])
        h0 = [n for n in pf.walk_no_nested(fn) if ks._half_stmt(n, wv, 0)]
        if h0 and first_use and h0[0].lineno < first_use:
            chk.ok("hermi-half", inst, nontrivial=False)
        elif h0:
            chk.violation("hermi-half", rel, fq, "order of wv[0] *= 0.5", h0[0].lineno,
                          "wv[0] is halved after it has been contracted", instance=inst)
    # (b) integrators: hermi_sum exactly once after the last contract_wv loop, then += v1; no halving of their own
    for name in INTEGRATORS:
        fn = ks.locate(chk.tree, NUMINT, name)[1]
        herm = [st for st in fn.body if isinstance(st, ast.Assign) and any(
            (pf.call_name(c) or "").endswith("hermi_sum") for c in ast.walk(st.value) if isinstance(c, ast.Call))]
        all_herm = [c for c in ast.walk(fn) if isinstance(c, ast.Call) and (pf.call_name(c) or "").endswith("hermi_sum")]
        loops = [st for st in fn.body if isinstance(st, ast.For) and ks.calls_named(st, "contract_wv")]
        inst = "%s:%s one hermi_sum after the contract_wv loop" % (NUMINT, name)
        if not loops:
            raise core.AnalysisError("%s: contract_wv loop not found at the top level" % name)
        problems = []
        if len(all_herm) != 1 or len(herm) != 1:
            problems.append("lib.hermi_sum is called %d time(s) (expected exactly one, at the top level)" % len(all_herm))
        else:
            h = herm[0]
            if not (h.lineno > loops[-1].lineno):
                problems.append("hermi_sum runs before the last contract_wv loop")
            tgt = pf.src(h.targets[0])
            args = [_root_name(a) for c in ast.walk(h.value) if isinstance(c, ast.Call)
                    and (pf.call_name(c) or "").endswith("hermi_sum") for a in c.args[:1]]
            # vmats=(vmat[..], v1[..]) : first element is what contract_wv accumulates the half-matrix into
            vm = set()
            for c in ks.calls_named(fn, "contract_wv"):
                for k in c.keywords:
                    if k.arg == "vmats" and isinstance(k.value, ast.Tuple) and k.value.elts:
                        vm.add(pf.base_name(k.value.elts[0]))
            if len(vm) != 1 or args != list(vm) or tgt != list(vm)[0]:
                problems.append("hermi_sum is not applied to (and stored back into) the matrix %s that contract_wv "
                                "fills" % sorted(vm))
            v1s = set()
            for c in ks.calls_named(fn, "contract_wv"):
                for k in c.keywords:
                    if k.arg == "vmats" and isinstance(k.value, ast.Tuple) and len(k.value.elts) > 1:
                        v1s.add(pf.base_name(k.value.elts[1]))
            adds = [st for st in fn.body if isinstance(st, ast.AugAssign) and isinstance(st.op, ast.Add)
                    and pf.src(st.target) == tgt and pf.src(st.value) in v1s]
            adds += [st for st in fn.body if isinstance(st, ast.Assign) and pf.src(st.targets[0]) == tgt
                     and isinstance(st.value, ast.BinOp) and isinstance(st.value.op, ast.Add)
                     and {pf.src(st.value.left), pf.src(st.value.right)} & {tgt} and
                     {pf.src(st.value.left), pf.src(st.value.right)} & v1s and st not in herm]
            if len(adds) != 1:
                problems.append("the tau matrix %s is added to %s %d time(s) (expected once)" % (sorted(v1s), tgt, len(adds)))
            elif adds[0].lineno < h.lineno:
                problems.append("the (already symmetric) tau matrix is added before hermi_sum and would be doubled")
        own = [n for n in ast.walk(fn) if isinstance(n, ast.AugAssign) and isinstance(n.value, ast.Constant)
               and n.value.value == 0.5]
        if own:
            problems.append("the integrator halves `%s` itself although contract_wv already does" % pf.src(own[0].target))
        if problems:
            chk.violation("hermi-half", NUMINT, name, "hermi_sum / v1 convention", (herm[0].lineno if herm else fn.lineno),
                          "; ".join(problems), instance=inst)
        else:
            chk.ok("hermi-half", inst)
    # (c) gradient functions
    ks.half_rule(chk, "hermi-half", chk.tree, [(RKSG, n) for n in GRADS] + [(UKSG, n) for n in GRADS])


# ----------------------------------------------------------------------------
def rule_energy_nelec(chk):
    mod = pf.Module(chk.tree, NUMINT)
    for name in INTEGRATORS:
        fn = ks.locate(chk.tree, NUMINT, name)[1]
        bf = batch.BatchFunction(fn, NUMINT)
        rets = [n for n in pf.walk_no_nested(fn) if isinstance(n, ast.Return)]
        if len(rets) != 1 or not isinstance(rets[0].value, ast.Tuple) or len(rets[0].value.elts) != 3:
            raise core.AnalysisError("%s: expected a single `return nelec, excsum, vmat`" % name)
        nel, exs, _vm = [pf.src(x) for x in rets[0].value.elts]
        sites = ks.unpack_of_eval_xc(fn)
        for st, call, exc_t, _tr in sites:
            blk_owner = pf.parent(st)
            blk = [b for b in (blk_owner.body, getattr(blk_owner, "orelse", [])) if any(x is st for x in b)][0]
            # the density argument of eval_xc_cider and its components
            rho_arg = call.args[1]
            comps = {pf.src(rho_arg)}
            for x in blk:
                if isinstance(x, ast.Assign) and pf.src(x.targets[0]) == pf.src(rho_arg) and isinstance(x.value, ast.Tuple):
                    comps = {pf.src(e) for e in x.value.elts}
            e_adds = [x for x in blk if isinstance(x, ast.AugAssign) and pf.base_name(x.target) == exs]
            n_adds = [x for x in blk if isinstance(x, ast.AugAssign) and pf.base_name(x.target) == nel]
            for x in blk:  # `a[k] = a[k] + v` is the same accumulation
                if isinstance(x, ast.Assign) and len(x.targets) == 1 and isinstance(x.value, ast.BinOp) \
                        and isinstance(x.value.op, ast.Add) and pf.src(x.value.left) == pf.src(x.targets[0]) \
                        and pf.base_name(x.targets[0]) in (exs, nel):
                    aug = ast.AugAssign(target=x.targets[0], op=ast.Add(), value=x.value.right)
                    ast.copy_location(aug, x)
                    (e_adds if pf.base_name(x.targets[0]) == exs else n_adds).append(aug)
            inst0 = "%s:%s energy/electron accumulation present" % (NUMINT, name)
            if not e_adds or not n_adds:
                chk.violation("energy-nelec", NUMINT, name, "accumulation of %s / %s" % (nel, exs), st.lineno,
                              "the block that evaluates the functional does not accumulate both %s and %s" % (nel, exs),
                              instance=inst0)
                continue
            weights = ks.weight_names(fn)
            local = {}
            for y in blk:
                if isinstance(y, ast.Assign) and len(y.targets) == 1 and isinstance(y.targets[0], ast.Name):
                    local[y.targets[0].id] = y.value

            def dens(e, depth=0):
                """(density components, weighted?) that expression e is built from, through block-local names"""
                cs, w = [], False
                for n in ast.walk(e):
                    if isinstance(n, ast.Subscript) and pf.src(n.value) in comps and pf.src(n.slice) in ("0", "0, :", "0, ..."):
                        cs.append(pf.src(n.value))
                    elif isinstance(n, ast.Name) and n.id in weights:
                        w = True
                    elif isinstance(n, ast.Name) and n.id in local and depth < 3 and n.id not in comps:
                        c2, w2 = dens(local[n.id], depth + 1)
                        cs += c2
                        w = w or w2
                return cs, w

            def slot_of(x, arr):
                t = x.target if isinstance(x, ast.AugAssign) else x.targets[0]
                e = bf._axis_index(t, bf.arrays.get(arr, 0)) if isinstance(t, ast.Subscript) else None
                return pf.src(e) if isinstance(e, ast.AST) else None

            e_comps, n_comps, e_slots, n_slots = [], [], set(), set()
            undecided = False
            for x in e_adds:
                inst = "%s:%s %s" % (NUMINT, name, pf.src(x))
                problems = []
                if pf.src(exc_t) not in ks._names(x.value) or not isinstance(x.op, ast.Add):
                    problems.append("the accumulated value does not use the energy density `%s` returned by "
                                    "eval_xc_cider (or is not additive)" % pf.src(exc_t))
                cs, w = dens(x.value)
                if not cs:
                    problems.append("the accumulated value is not built from `<density passed to eval_xc_cider>[0]`")
                elif not w:
                    problems.append("the density is not multiplied by the quadrature weight (%s)" % "/".join(sorted(weights)))
                e_comps += cs
                e_slots.add(slot_of(x, exs))
                if problems:
                    chk.violation("energy-nelec", NUMINT, name, pf.src(x), x.lineno, "; ".join(problems), instance=inst)
                else:
                    chk.ok("energy-nelec", inst)
            for y in n_adds:
                cs, w = dens(y.value)
                inst = "%s:%s %s" % (NUMINT, name, pf.src(y))
                if not cs or not w:
                    chk.violation("energy-nelec", NUMINT, name, pf.src(y), y.lineno,
                                  "the electron count is not accumulated from `<density passed to eval_xc_cider>[0] * "
                                  "weight`", instance=inst)
                else:
                    chk.ok("energy-nelec", inst)
                n_comps += cs
                n_slots.add(slot_of(y, nel))
            inst = "%s:%s every density component contributes once, same batch slot" % (NUMINT, name)
            if sorted(e_comps) == sorted(comps) == sorted(n_comps) and e_slots == n_slots and len(e_slots) == 1:
                chk.ok("energy-nelec", inst)
            else:
                chk.violation("energy-nelec", NUMINT, name, "density components %s" % sorted(comps), st.lineno,
                              "the density passed to eval_xc_cider has the component(s) %s; the energy is accumulated "
                              "from %s into batch slot(s) %s, the electron count from %s into slot(s) %s" % (
                                  sorted(comps), sorted(e_comps), sorted(map(str, e_slots)), sorted(n_comps),
                                  sorted(map(str, n_slots))), instance=inst)
        # the batch slot is the induction variable of the enclosing batch loop (rule shared with C09-1)
        for u in bf.uses:
            if u.kind == "array" and u.array in (nel, exs):
                inst = "%s:%s %s" % (NUMINT, name, u.construct)
                if u.verdict in ("ok", "guarded-literal"):
                    chk.ok("energy-nelec", inst, detail=u.why)
                elif u.verdict == "trivial":
                    chk.ok("energy-nelec", inst, nontrivial=False)
                elif u.verdict in ("stale", "unbound", "literal"):
                    chk.violation("energy-nelec", NUMINT, name, u.construct, u.node.lineno,
                                  "the energy / electron count of a batch is accumulated into the wrong slot: " + u.why,
                                  instance=inst)


def _analyse_own(chk):
    # spin loops (`for s in range(2)`, comprehensions over the two spins) are analysed as their two iterations
    orig_tree = chk.tree
    chk.tree = unroll.view(orig_tree)
    try:
        _analyse_rules(chk)
    finally:
        chk.tree = orig_tree


ACCUM_FILES = ["ciderpress/pyscf/numint.py", "ciderpress/dft/plans.py", "ciderpress/dft/xc_evaluator.py",
               "ciderpress/dft/xc_evaluator2.py", "ciderpress/dft/feat_normalizer.py", "ciderpress/dft/transform_data.py",
               "ciderpress/dft/lcao_nldf_generator.py", "ciderpress/dft/lcao_interpolation.py",
               "ciderpress/dft/lcao_convolutions.py", "ciderpress/pyscf/sdmx.py"]


def _stmt_of(x):
    while not isinstance(x, ast.stmt):
        x = pf.parent(x)
    return x


def rule_accum_consumed(chk):
    """A local array created as zeros, handed as a bare argument to a call statement (the callee accumulates into it) and
    read afterwards in the value of an assignment / return on some path must be read on EVERY path from the filling
    call to a normal return: a path that returns without reading it drops the accumulated (derivative) term that the
    other paths chain into the result."""
    n = 0
    for rel in ACCUM_FILES:
        mod = chk.tree.py(rel)
        for fn in ast.walk(mod):
            if not isinstance(fn, ast.FunctionDef):
                continue
            params = {a.arg for a in fn.args.args + fn.args.kwonlyargs + fn.args.posonlyargs}
            zeros = {}
            for st in pf.walk_no_nested(fn):
                if isinstance(st, ast.Assign) and len(st.targets) == 1 and isinstance(st.targets[0], ast.Name) \
                        and isinstance(st.value, ast.Call) and (pf.call_name(st.value) or "").split(".")[-1] in ("zeros", "zeros_like"):
                    zeros.setdefault(st.targets[0].id, []).append(st)
            zeros = {k: v[0] for k, v in zeros.items() if len(v) == 1 and k not in params}
            if not zeros:
                continue
            occ = {}
            for x in pf.walk_no_nested(fn):
                if isinstance(x, ast.Name) and x.id in zeros:
                    occ.setdefault(x.id, []).append(x)
            g = None
            for nm in sorted(occ):
                if sum(1 for x in occ[nm] if isinstance(x.ctx, ast.Store)) != 1:
                    continue
                fills, reads = set(), set()
                fill_st = {}
                for x in occ[nm]:
                    if not isinstance(x.ctx, ast.Load):
                        continue
                    st, par = _stmt_of(x), pf.parent(x)
                    if isinstance(st, ast.Expr) and isinstance(st.value, ast.Call) and (
                            (isinstance(par, ast.Call) and any(a is x for a in par.args)) or isinstance(par, ast.keyword)):
                        fills.add(id(st))
                        fill_st[id(st)] = st
                    elif isinstance(st, (ast.Assign, ast.AugAssign, ast.Return)) and st.value is not None \
                            and any(y is x for y in ast.walk(st.value)):
                        reads.add(id(st))
                if not fills or not reads:
                    continue
                g = g or cfgm.CFG(fn)
                if any(i not in g.by_ast for i in fills | reads):
                    continue
                read_nodes = {g.by_ast[i].id for i in reads}
                seen, todo, dropped = set(), [g.by_ast[i].id for i in fills], False
                while todo:
                    u = todo.pop()
                    if u in seen:
                        continue
                    seen.add(u)
                    for v in g.succ[u]:
                        if v in read_nodes:
                            continue
                        if v == g.exit.id:
                            dropped = True
                        todo.append(v)
                n += 1
                fq = pf.qualname(fn)
                inst = "%s:%s accumulator %s is consumed on every path to the return" % (rel, fq, nm)
                if not dropped:
                    chk.ok("accum-consumed", inst)
                else:
                    f0 = fill_st[sorted(fills, key=lambda i: fill_st[i].lineno)[0]]
                    chk.violation("accum-consumed", rel, fq, "accumulator %s dropped on a path" % nm, fn.lineno,
                                  "`%s` starts as zeros, is filled by `%s` and is chained into the result on some paths, but a "
                                  "path from that call to the return of %s never reads it: on that path the accumulated "
                                  "derivative term is dropped, so the returned derivative lacks it" % (
                                      nm, batch.head_text(f0)[:70], fq), instance=inst)
    chk.count("zero-initialised accumulators filled by a callee and read afterwards", n)


def _analyse_rules(chk):
    chk.rule("potential-consume", "(vxc, vxc_nldf, vxc_sdmx) of eval_xc_cider are each consumed by def-use")
    chk.rule("ladder-mirror", "forward and backward family ladders of eval_xc_cider mirror each other")
    chk.rule("scale-pair", "in-place scaling of the ML energy is applied to its derivative too")
    chk.rule("hermi-half", "one 1/2 in contract_wv + one hermi_sum (+ v1 after it); gradients halve once")
    chk.rule("inplace-product", "in-place product rule: the derivative slot receives the value before the value is scaled")
    chk.rule("level-flag", "a flag that makes a helper read the tau row of rho is derived from the settings level, not a literal")
    chk.rule("energy-nelec", "nelec / excsum from the same density and batch slot of the enclosing batch loop")
    chk.guard(rule_consume)
    chk.guard(rule_ladder)
    chk.guard(rule_scale)
    chk.guard(rule_hermi_half)
    chk.guard(rule_energy_nelec)
    chk.guard(rule_level_flag)
    chk.guard(rule_inplace_product)
    chk.rule("accum-consumed", "a zero-initialised accumulator filled by a callee and read on some path is read on every path to the return")
    chk.guard(rule_accum_consumed)
    chk.floor("accum-consumed", 3, "callee-filled accumulators of the anchored python files (normalizer back-propagation, interpolator, evaluators)")
    chk.floor("inplace-product", 1, "NLDFAuxiliaryPlan.get_function_to_convolve (rho_mult == 'expnt')")
    chk.floor("level-flag", 2, "calls of the rho-tuple helpers that carry the semilocal level")
    chk.floor("potential-consume", 18, "12 functions x 3 potentials")
    chk.floor("ladder-mirror", 10, "2 guards + order + 8 rungs + 8 stores/reads + 2 hand-outs")
    chk.floor("scale-pair", 1, "xmix pair + direct potential")
    chk.floor("hermi-half", 16, "2x2 halvings + 2 orders + 4 integrators + 24 gradient sites")
    chk.floor("energy-nelec", 12, "4 integrators")
    chk.assumptions += [
        "def-use slicing is flow-insensitive inside one function (a name is tainted everywhere once tainted)",
        "the quadrature weight is the `weight` element yielded by block_loop / extra_block_loop / grids_response_cc",
    ]
    chk.not_decided += [
        "that vmat equals dE/dDM numerically for any density matrix (the assembled pipeline cannot run here)",
        "accuracy of nelec; correctness of the plans' get_vxc / the generators' get_potential themselves (C05, C07)",
    ]


def analyse(chk):
    _analyse_own(chk)
    chk.guard(lambda c_: core.include_findings(c_, 'C12', files=['ciderpress/dft/transform_data.py'], rules=['accumulate', 'list-iter'],
                                               why='eval_xc_cider back-propagates dE/dX through the feature list; a map that overwrites instead of accumulating its derivative drops the other maps contributions to vxc'))
    chk.guard(lambda c_: core.include_findings(c_, 'C04', files=['ciderpress/dft/xc_evaluator'], rules=['accumulate', 'cutoff-pair'],
                                               why='evaluators share the f/df buffers: an overwrite drops earlier terms of the derivative that becomes vmat'))
    chk.guard(lambda c_: core.include_findings(c_, 'C09', files=['ciderpress/dft/plans.py', 'ciderpress/dft/lcao_nldf_generator.py', 'ciderpress/dft/lcao_interpolation.py', 'ciderpress/pyscf/sdmx.py'], rules=['cache-alias'],
                                               why='a per-spin cache entry that aliases a shared scratch buffer makes the potential of one spin channel use the intermediates of the other: vmat is no longer dE/dDM per spin'))
    chk.guard(lambda c_: core.include_findings(c_, 'C05', files=None, rules=None,
                                               why='the potential is assembled from the backward operators; an operator pair that is not an adjoint pair breaks vmat = dE/dDM'))
    chk.guard(lambda c_: core.include_findings(c_, 'C10', files=['ciderpress/lib/mod_cider/convolutions.c', 'ciderpress/lib/mod_cider/conv_interpolation.c', 'ciderpress/lib/mod_cider/fast_sdmx.c'], rules=None,
                                               why='a data race in the anchored C kernels makes vmat/exc depend on the schedule'))


def mutants(tree):
    return [
        Mutant("normalizer back-propagation drops dfdinh in mode np", "ciderpress/dft/feat_normalizer.py",
               '        elif self.slmode == "np":\n            df_dX0T[:, 1] += 5.0 / 3 * dfdinh\n',
               '        elif self.slmode == "np":\n            pass\n', count=1, expect="accum-consumed"),
        Mutant("drop sdmx get_vxc_ call (nr_rks)", NUMINT,
               "                if ni.has_sdmx:\n                    ni.sdmxgen.get_vxc_(vmat[i], vxc_sdmx[0] * weight)\n", "",
               expect="potential-consume"),
        Mutant("drop += get_potential (nr_rks_nldf)", NUMINT,
               "            wv_full[idm, :, :] += ni.nldfgen.get_potential(vxc_nldf_full[idm])\n",
               "            ni.nldfgen.get_potential(vxc_nldf_full[idm])\n", expect="potential-consume"),
        Mutant("nldf potential stored without weight (nr_uks_nldf)", NUMINT,
               "vxc_nldf_full[idm, ..., ip0:ip1] = vxc_nldf * weight", "vxc_nldf_full[idm, ..., ip0:ip1] = vxc_nldf",
               expect="potential-consume"),
        Mutant("vxc not weighted (nr_uks)", NUMINT, "                wv = weight * vxc\n                yield i, ao, mask, wv\n\n    buffers = None\n    pair_mask = mol.get_overlap_cond() < -np.log(ni.cutoff)\n    if any(x in xc_code.upper() for x in (\"CC06\", \"CS\", \"BR89\", \"MK00\")):\n        raise NotImplementedError(\"laplacian in meta-GGA method\")\n    ao_deriv = 1\n    v1 = np.zeros_like(vmat)\n    for i, ao, mask, wv in block_loop(ao_deriv):\n        buffers",
               "                wv = 1.0 * vxc\n                yield i, ao, mask, wv\n\n    buffers = None\n    pair_mask = mol.get_overlap_cond() < -np.log(ni.cutoff)\n    if any(x in xc_code.upper() for x in (\"CC06\", \"CS\", \"BR89\", \"MK00\")):\n        raise NotImplementedError(\"laplacian in meta-GGA method\")\n    ao_deriv = 1\n    v1 = np.zeros_like(vmat)\n    for i, ao, mask, wv in block_loop(ao_deriv):\n        buffers",
               expect="potential-consume"),
        Mutant("nldf potential dropped in gradient (uks)", UKSG,
               "        wvb_full[:, :] += ni.nldfgen.get_potential(vxc_nldf_full[1], spin=1)\n",
               "        ni.nldfgen.get_potential(vxc_nldf_full[1], spin=1)\n", expect="potential-consume"),
        Mutant("swap nlof/sdmx rungs in the backward ladder", NUMINT, "", "", fn=_swap_backward, expect="ladder-mirror"),
        Mutant("backward rung uses another family's width", NUMINT,
               "            nfeat_tmp = self.settings.nlof_settings.nfeat\n            self.fl_plan.get_vxc(",
               "            nfeat_tmp = self.settings.sdmx_settings.nfeat\n            self.fl_plan.get_vxc(",
               expect="ladder-mirror"),
        Mutant("backward ladder loses its nfeat guard", NUMINT,
               "            vxc_sdmx = None\n        if start != nfeat:\n            raise RuntimeError(\"nfeat mismatch, this should not happen!\")\n",
               "            vxc_sdmx = None\n", expect="ladder-mirror"),
        Mutant("energy scaled but not derivative", NUMINT, "        exc_ml *= xmix\n        dexcdX0TN_ml *= xmix\n",
               "        exc_ml *= xmix\n", expect="scale-pair"),
        Mutant("direct potential without xmix", NUMINT, "vxc[:] += xmix * vxc_tuple_to_array(rho, vrho_tuple)",
               "vxc[:] += vxc_tuple_to_array(rho, vrho_tuple)", expect="scale-pair"),
        Mutant("tau halving removed from contract_wv", NUMINT, "            wv[4] *= 0.5\n            v1 = _tau_dot_sparse(",
               "            v1 = _tau_dot_sparse(", expect="hermi-half"),
        Mutant("second hermi_sum (nr_rks)", NUMINT, "    vmat = lib.hermi_sum(vmat, axes=(0, 2, 1))\n    vmat += v1\n\n    if ni.has_sdmx:",
               "    vmat = lib.hermi_sum(vmat, axes=(0, 2, 1))\n    vmat = lib.hermi_sum(vmat, axes=(0, 2, 1))\n    vmat += v1\n\n    if ni.has_sdmx:",
               expect="hermi-half"),
        Mutant("v1 added before hermi_sum (nr_rks_nldf)", NUMINT,
               "    vmat = lib.hermi_sum(vmat, axes=(0, 2, 1))\n    vmat += v1\n\n    if nset == 1:",
               "    vmat += v1\n    vmat = lib.hermi_sum(vmat, axes=(0, 2, 1))\n\n    if nset == 1:", expect="hermi-half"),
        Mutant("gradient halving removed (uks get_vxc)", UKSG, "        wv[:, 0] *= 0.5\n        rks_grad._gga_grad_sum_(vmat[0]",
               "        rks_grad._gga_grad_sum_(vmat[0]", expect="hermi-half"),
        Mutant("energy from the other spin density (nr_uks)", NUMINT,
               "                excsum[i] += np.dot(den_a, exc)\n                excsum[i] += np.dot(den_b, exc)\n                wv = weight * vxc\n                yield i, ao, mask, wv\n\n    buffers = None",
               "                excsum[i] += np.dot(den_a, exc)\n                excsum[i] += np.dot(den_a, exc)\n                wv = weight * vxc\n                yield i, ao, mask, wv\n\n    buffers = None",
               expect="energy-nelec"),
        Mutant("product rule: value scaled before it is added to its rho derivative", "ciderpress/dft/plans.py",
               "            da_tuple[0][:] += a\n            a[:] *= rho\n", "            a[:] *= rho\n            da_tuple[0][:] += a\n",
               expect="inplace-product"),
        Mutant("map overwrites the accumulated feature derivative", "ciderpress/dft/transform_data.py",
               "dfdx[self.i] -=", "dfdx[self.i] =", expect="via-C12"),
        Mutant("libxc density tuple built at a fixed meta-GGA level", NUMINT,
               'rho, is_mgga=self.settings.sl_settings.level == "MGGA"', "rho, is_mgga=True", expect="level-flag"),
        Mutant("plan builds the density tuple without tau regardless of the level", "ciderpress/dft/plans.py",
               'rho_data, with_spin=with_spin, is_mgga=self.nldf_settings.sl_level == "MGGA"',
               "rho_data, with_spin=with_spin", expect="level-flag"),
        Mutant("density without weight (nr_rks)", NUMINT, "                den = rho[0] * weight\n                nelec[i] += den.sum()",
               "                den = rho[0]\n                nelec[i] += den.sum()", expect="energy-nelec"),
        Mutant("energy and count in different slots (nr_rks_nldf)", NUMINT, "                excsum[idm] += np.dot(den, exc)\n                wv_full",
               "                excsum[0] += np.dot(den, exc)\n                wv_full", expect="energy-nelec"),
    ]


def _swap_backward(text):
    a = text.find("        if has_nlof:\n            nfeat_tmp = self.settings.nlof_settings.nfeat\n            self.fl_plan.get_vxc(")
    b = text.find("        if has_sdmx:\n            nfeat_tmp = self.settings.sdmx_settings.nfeat\n            vxc_sdmx = vxc_ml")
    c = text.find("        if start != nfeat:", b)
    if min(a, b, c) < 0 or not (a < b < c):
        return None
    return text[:a] + text[b:c] + text[a:b] + text[c:]


if __name__ == "__main__":
    sys.exit(core.main(PROP, analyse, mutants, __doc__))
