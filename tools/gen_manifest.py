#!/usr/bin/env python3
"""Regenerate /verif/MANIFEST.json from tools/manifest_table.py."""
import json, os, sys
here = os.path.dirname(os.path.abspath(__file__))
sys.path.insert(0, here)
from manifest_table import CHECKS, NOT_APPLICABLE  # noqa
verif = os.path.dirname(here)
baseline = "cd /repo && /venv/bin/python -m pytest -ra -q -p no:cacheprovider --timeout=900 --continue-on-collection-errors"
m = {
    "version": 1,
    "setup_cmd": "python3 tools/setup_check.py",
    "hooks": {
        "guard": "CIDERPRESS_VERIF",
        "enable": "no hooks: the checks read the sources under /repo and never build or import the package; CIDERPRESS_VERIF is reserved and unused",
        "baseline_off_cmd": baseline,
        "source_commits": [],
        "add_only": True,
    },
    "engines": [{
        "name": "sa",
        "path": "/verif/sa",
        "serves_properties": [c["property_id"] for c in CHECKS],
        "kind_free_text": "custom static analysers over Python ast and clang-14 JSON AST (statement CFG, dominators, def-use, effect summaries, table resolution, units/degree inference, OpenMP data-sharing classification, ctypes/C prototype conformance); no execution of repository code",
    }],
    "checks": [],
    "notes": "Static analysis only. Every check decides structural necessary conditions of its property (named in level_claimed.text) and says what it does not decide. Exit 2 = ANALYSIS-ERROR (anchor vanished / parse failure / instance floor), never a silent pass. Genuine defects: known_findings.json.",
    "not_applicable": NOT_APPLICABLE,
}
for c in CHECKS:
    pid = c["property_id"]
    n = pid.lower()
    m["checks"].append({
        "property_id": pid,
        "quick_cmd": "python3 checks/%s.py --tier quick" % n,
        "thorough_cmd": "python3 checks/%s.py --tier thorough" % n,
        "evidence_file": "/verif/evidence/%s.json" % pid,
        "replay_cmd_template": "python3 checks/%s.py --replay {path}" % n,
        "engine": "sa",
        "level_claimed": {"category": "other", "text": c["text"], "design_ref": c["design_ref"]},
        "level_note": c["note"],
        "technique": c["technique"],
    })
with open(os.path.join(verif, "MANIFEST.json"), "w") as f:
    json.dump(m, f, indent=1)
print("wrote MANIFEST.json with", len(m["checks"]), "checks,", len(NOT_APPLICABLE), "not applicable")
