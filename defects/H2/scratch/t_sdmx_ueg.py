import numpy as np
from scipy.special import erf
from ciderpress.dft.settings import *
n = 1.0
kF = (3*np.pi**2*n)**(1/3)
C = (2/np.pi)**1.5 * 4/(4-np.sqrt(2))
def I2(a):
    # int_0^kF k^2 exp(-a k^2) dk
    sa = np.sqrt(a)
    return (np.sqrt(np.pi)*erf(sa*kF)/(4*a*sa) - kF*np.exp(-a*kF**2)/(2*a))
def dI2(a):
    # d/da = -int k^4 exp(-a k^2)
    h = 1e-6*a
    return (I2(a+h)-I2(a-h))/(2*h)
def rho0(R):
    return (1/np.pi**2)*C*np.pi**1.5*(2**-1.5*I2(R*R/8) - 2**-3*I2(R*R/16))
def drho0(R):
    return (1/np.pi**2)*C*np.pi**1.5*(2**-1.5*dI2(R*R/8)*R/4 - 2**-3*dI2(R*R/16)*R/8)
t = np.linspace(np.log(1e-3), np.log(1e5), 40001)
R = np.exp(t)
def integ(f):
    return np.trapezoid(f*R, t)
res = {}
for ratio in [1.0, 1.5, 2.0]:
    sr = np.sqrt(ratio)
    for j in [0,1,2]:
        v0 = -0.25*4*np.pi*integ(R**(2-j)*rho0(R/sr)*rho0(R*sr))
        vd = -0.25*4*np.pi*integ(R**(4-j)*drho0(R/sr)*drho0(R*sr))
        res[(ratio,j,False)] = v0; res[(ratio,j,True)] = vd
kd = SDMXFullSettings({1.0:([0,1,2],[3,3,0,0])})._get_ueg_const()
for k in sorted(res):
    print(k, '%.8f'%res[k], '%.8f'%kd[k], '%.1e'%(res[k]/kd[k]-1))
