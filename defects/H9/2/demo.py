"""
C15 -- PartialARBF: diag() counts ALL input columns instead of the active
ones, and k_and_deriv() returns a gradient of the width of the active subset
instead of the width of X (silently mis-broadcast inside DiffProduct/DiffSum).

Expected: diag(X) == diag(kernel(X, X)); k_and_deriv(X, Y)[1] has shape
(NX, NY, X.shape[1]) and equals d kernel(X, Y) / dX (zero on inactive columns),
also when the kernel is a factor of a product.
"""
import sys

import numpy as np

from ciderpress.models import kernels as K

rng = np.random.default_rng(0)
fails = []


def fd(kern, X, Y, d=1e-6):
    out = np.zeros((X.shape[0], Y.shape[0], X.shape[1]))
    for i in range(X.shape[1]):
        Xp = X.copy()
        Xm = X.copy()
        Xp[:, i] += d
        Xm[:, i] -= d
        out[:, :, i] = (kern(Xp, Y) - kern(Xm, Y)) / (2 * d)
    return out


X = rng.uniform(size=(6, 4))
Y = rng.uniform(size=(5, 4))
scale = [0.5, 0.3, 1.2]
cases = {
    "start=1 (default)": K.PartialARBF(2, np.array([0.5, 0.8, 1.1]), scale=scale),
    "active_dims=[0, 3]": K.PartialARBF(
        2, np.array([0.5, 0.8]), scale=scale, active_dims=[0, 3]
    ),
    "isotropic start=2": K.PartialARBF(2, 0.7, scale=scale, start=2),
}
for name, kern in cases.items():
    kxx = kern(X)
    dg = kern.diag(X)
    err = np.abs(dg - np.diag(kxx)).max()
    print("[%s] diag(X)[0] = %.6f, diag(k(X,X))[0] = %.6f" % (name, dg[0], kxx[0, 0]))
    if err > 1e-12:
        fails.append(name + " diag")
    k, dk = kern.k_and_deriv(X, Y)
    ref = fd(kern, X, Y)
    print("    dk shape %s, expected %s" % (dk.shape, ref.shape))
    if dk.shape != ref.shape:
        fails.append(name + " dk shape")
    elif np.abs(dk - ref).max() > 1e-6:
        print("    max|dk - finite difference| = %.3e" % np.abs(dk - ref).max())
        fails.append(name + " dk value")

# Silent wrong answer: two input columns, one active -> the (N, M, 1) gradient
# broadcasts against the (N, M, 2) gradient of the other factor.
X2 = rng.uniform(size=(6, 2))
Y2 = rng.uniform(size=(5, 2))
kern = K.PartialARBF(1, 0.7, scale=[0.5, 1.0], start=1) * K.DiffRBF(0.9)
k, dk = kern.k_and_deriv(X2, Y2)
ref = fd(kern, X2, Y2)
err = np.abs(dk - ref).max(axis=(0, 1))
print("[PartialARBF(start=1) * DiffRBF on 2 columns] per-column max|dk - FD| =", err)
print("    analytic dk[0,0] =", dk[0, 0], " finite difference =", ref[0, 0])
if err.max() > 1e-6:
    fails.append("product gradient")

if fails:
    print("FAIL:", fails)
    sys.exit(1)
print("OK")
