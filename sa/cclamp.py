"""Bound analysis of a C clamping loop on the clang JSON AST (C08: the spline
index stored by `cider_ind_clip` must lie in [0, size) on every path).

A tiny abstract interpreter over the body of the loop that stores into the
index array.  Abstract value of a scalar:

    Val(id, lo, hi)   lo: proven >= 0      hi: proven < size (or <= size - eps)
    Pred / And / Or / Not over value *identities* (the result of `v > 0`, ...)

Identities belong to values, not to variables: `cond = di > 0` speaks about
the value `di` held at that moment; if `di` is reloaded afterwards, `cond`
says nothing about the new value, and conversely a test on a stale copy does
not bound the value that is finally stored.  `c ? a : b` and `if` refine the
values whose identity the condition mentions and join the arms (a bound holds
after the join only if it holds in both arms).  fmax/fmin are understood.
Anything else that writes the tracked array or a tracked scalar in a way the
interpreter does not model raises AnalysisError (fail closed).
"""
from sa import cfacts
from sa.core import AnalysisError


INCOMING, CONST, ARITH = "incoming", "const", "arith"


class Val:
    """src: where the number can come from -- the INCOMING array element itself (possibly inf/nan),
    a CONST literal/bound, or ARITHmetic on an incoming element (0 * inf = nan).
    guards: bounds (value id, 'lo'|'hi') that are known to hold whenever the value is the incoming
    element rather than a constant (the conditions under which it was *selected*)."""
    _n = 0

    def __init__(self, lo=False, hi=False, vid=None, what="", src=(INCOMING,), guards=()):
        if vid is None:
            Val._n += 1
            vid = Val._n
        self.id, self.lo, self.hi, self.what = vid, lo, hi, what
        self.src, self.guards = frozenset(src), frozenset(guards)

    def refined(self, facts):
        f = facts.get(self.id)
        if not f:
            return self
        return Val(self.lo or "lo" in f, self.hi or "hi" in f, self.id, self.what, self.src, self.guards)

    def __repr__(self):
        return "v%d[%s%s]" % (self.id, ">=0 " if self.lo else "", "<size" if self.hi else "")


class Pred:
    def __init__(self, vid, kind, pol):
        self.vid, self.kind, self.pol = vid, kind, pol  # truth == pol  =>  bound `kind` holds for value vid


class Comb:
    def __init__(self, op, items):
        self.op, self.items = op, items  # 'and' | 'or' | 'not'


def facts(p, truth):
    """value id -> set of bounds known when predicate p has the given truth value"""
    out = {}
    if isinstance(p, Pred):
        if truth == p.pol:
            out.setdefault(p.vid, set()).add(p.kind)
    elif isinstance(p, Comb):
        if p.op == "not":
            return facts(p.items[0], not truth)
        if (p.op == "and" and truth) or (p.op == "or" and not truth):
            for q in p.items:
                for k, v in facts(q, truth).items():
                    out.setdefault(k, set()).update(v)
    return out


def _pairs(fct):
    return frozenset((vid, k) for vid, ks in fct.items() for k in ks)


CLAMP_PREDS = []   # stack of sets collecting (value id, bound) under which a constant replaces a value


def join(a, b, fa=None, fb=None):
    """value after a two-armed selection; fa / fb: the facts that hold in the arm of a / of b"""
    pa, pb = _pairs(fa or {}), _pairs(fb or {})
    if isinstance(a, Val) and isinstance(b, Val):
        if a.id == b.id and a.lo == b.lo and a.hi == b.hi and a.src == b.src and a.guards == b.guards:
            return a
        ga = (a.guards | pa) if INCOMING in a.src else None
        gb = (b.guards | pb) if INCOMING in b.src else None
        if ga is not None and gb is not None:
            guards = ga & gb
        else:
            guards = ga if ga is not None else (gb or frozenset())
        # a pure constant replaces the value in one arm: the other arm's facts are the no-clamp condition
        if CLAMP_PREDS:
            if a.src == {CONST} and INCOMING in b.src:
                CLAMP_PREDS[-1] |= pb
            if b.src == {CONST} and INCOMING in a.src:
                CLAMP_PREDS[-1] |= pa
        return Val(a.lo and b.lo, a.hi and b.hi, what="join", src=a.src | b.src, guards=guards)
    if a is b:
        return a
    return Val(what="join of non-scalars")


class ClampLoop:
    def __init__(self, tu, fname, array_param, size_param):
        self.tu = tu
        self.fname = fname
        params = {p.get("name"): p for p in tu.params(fname)}
        if array_param not in params or size_param not in params:
            raise AnalysisError("%s: parameters %s/%s not found" % (fname, array_param, size_param))
        self.arr = params[array_param]["id"]
        self.size = params[size_param]["id"]
        self.ptr_params = {p["id"] for p in params.values() if "*" in p.get("type", {}).get("qualType", "")}
        self.upper = set()   # locals initialised to size - <positive literal>
        self.env = {}
        self.mem = {}
        self.last_store = {}
        self.ptr_names = {p["id"]: p.get("name") for p in params.values()
                          if "*" in p.get("type", {}).get("qualType", "")}
        body = tu.body(fname)
        for n in cfacts.walk(body):
            if n.get("kind") == "VarDecl":
                ks = cfacts.kids(n)
                if ks and self._is_upper_expr(ks[0]):
                    self.upper.add(n["id"])
        loops = []
        seen = set()
        for n in cfacts.walk(body):
            if n.get("kind") == "ForStmt":
                off = n.get("range", {}).get("begin", {}).get("offset")
                if off in seen:
                    continue
                if self._stores_array(n):
                    seen.add(off)
                    loops.append(n)
        # innermost loops only
        self.loops = [l for l in loops if not any(m is not l and self._contains(l, m) for m in loops)]
        if not self.loops:
            raise AnalysisError("%s: no loop stores into %s" % (fname, array_param))

    @staticmethod
    def _contains(outer, inner):
        return any(x is inner for x in cfacts.walk(outer))

    def _stores_array(self, n):
        for x in cfacts.walk(n):
            if x.get("kind") in ("BinaryOperator", "CompoundAssignOperator") and x.get("opcode", "").endswith("="):
                if x.get("opcode") in ("==", "!=", "<=", ">="):
                    continue
                l = cfacts.strip(cfacts.kids(x)[0])
                if l.get("kind") == "ArraySubscriptExpr" and self._ref(cfacts.kids(l)[0]) == self.arr:
                    return True
        return False

    @staticmethod
    def _ref(n):
        n = cfacts.strip(n)
        if n.get("kind") == "DeclRefExpr":
            return (n.get("referencedDecl") or {}).get("id")
        return None

    @staticmethod
    def _num(n):
        n = cfacts.strip(n)
        if n.get("kind") in ("IntegerLiteral", "FloatingLiteral"):
            try:
                return float(n.get("value"))
            except (TypeError, ValueError):
                return None
        if n.get("kind") == "UnaryOperator" and n.get("opcode") == "-":
            v = ClampLoop._num(cfacts.kids(n)[0])
            return None if v is None else -v
        return None

    def _is_upper_expr(self, n):
        """size - <positive literal>"""
        n = cfacts.strip(n)
        if n.get("kind") == "BinaryOperator" and n.get("opcode") == "-":
            l, r = cfacts.kids(n)
            v = self._num(r)
            return self._ref(l) == self.size and v is not None and v > 0
        return False

    # -- expressions --------------------------------------------------------
    def eval(self, n):
        n = cfacts.strip(n)
        k = n.get("kind")
        v = self._num(n)
        if v is not None:
            # 0 <= size - eps is the stated assumption size >= 1
            return Val(v >= 0, v == 0, what="literal %g" % v, src=(CONST,))
        if k == "DeclRefExpr":
            rid = self._ref(n)
            if rid in self.env:
                return self.env[rid]
            if rid in self.upper:
                return Val(True, True, what="upper bound", src=(CONST,))
            return Val(what=(n.get("referencedDecl") or {}).get("name", "?"), src=(CONST,))
        if k == "ArraySubscriptExpr":
            base, idx = cfacts.kids(n)
            key = (self._ref(base), self.tu.text_of(idx))
            if key not in self.mem:
                self.mem[key] = Val(what=self.tu.text_of(n))
            return self.mem[key]
        if k == "BinaryOperator":
            op = n.get("opcode")
            l, r = cfacts.kids(n)
            if op in ("<", "<=", ">", ">="):
                return self._compare(op, l, r)
            if op in ("&&", "||"):
                return Comb("and" if op == "&&" else "or", [self._as_pred(self.eval(l)), self._as_pred(self.eval(r))])
            if op == ",":
                self.eval(l)
                return self.eval(r)
            lv, rv = self.eval(l), self.eval(r)
            if self._is_upper_expr(n):
                return Val(True, True, what="upper bound", src=(CONST,))
            return Val(what="arithmetic", src=self._arith_src(lv, rv))
        if k == "UnaryOperator" and n.get("opcode") == "!":
            return Comb("not", [self._as_pred(self.eval(cfacts.kids(n)[0]))])
        if k == "ConditionalOperator":
            c, a, b = cfacts.kids(n)
            p = self._as_pred(self.eval(c))
            fa, fb = facts(p, True), facts(p, False)
            av, bv = self._under(fa, a), self._under(fb, b)
            return join(av, bv, fa, fb)
        if k == "CallExpr":
            ks = cfacts.kids(n)
            name = (cfacts.strip(ks[0]).get("referencedDecl") or {}).get("name")
            args = [self.eval(a) for a in ks[1:]]
            if name in ("fmax", "fmaxf", "MAX") and len(args) == 2 and all(isinstance(a, Val) for a in args):
                return Val(args[0].lo or args[1].lo, args[0].hi and args[1].hi, what="fmax",
                           src=args[0].src | args[1].src)
            if name in ("fmin", "fminf", "MIN") and len(args) == 2 and all(isinstance(a, Val) for a in args):
                return Val(args[0].lo and args[1].lo, args[0].hi or args[1].hi, what="fmin",
                           src=args[0].src | args[1].src)
            for a in ks[1:]:
                if self._ref(a) in self.ptr_params:
                    raise AnalysisError("%s: `%s` hands a tracked array to a callee" % (self.fname, self.tu.text_of(n)))
            return Val(what="call %s" % name, src=self._arith_src(*args))
        vs = [self.eval(c) for c in cfacts.kids(n)]
        return Val(what=k, src=self._arith_src(*vs))

    def _under(self, fct, node):
        """evaluate node with the values mentioned by `fct` refined"""
        saved_env, saved_mem = dict(self.env), dict(self.mem)
        self.env = {k: (v.refined(fct) if isinstance(v, Val) else v) for k, v in self.env.items()}
        self.mem = {k: (v.refined(fct) if isinstance(v, Val) else v) for k, v in self.mem.items()}
        try:
            return self.eval(node)
        finally:
            self.env, self.mem = saved_env, saved_mem

    @staticmethod
    def _arith_src(*vals):
        """arithmetic on a possibly non-finite incoming element is itself possibly non-finite (0 * inf)"""
        for v in vals:
            if isinstance(v, Val) and (INCOMING in v.src or ARITH in v.src):
                return (ARITH,)
        return (CONST,)

    @staticmethod
    def _as_pred(v):
        return v if isinstance(v, (Pred, Comb)) else Comb("and", [])  # no information

    def _compare(self, op, l, r):
        lv, rv = self.eval(l), self.eval(r)
        ln, rn = self._num(l), self._num(r)
        lref, rref = self._ref(l), self._ref(r)

        def is_size(ref):
            return ref == self.size

        def is_upper(ref, node):
            return ref in self.upper or self._is_upper_expr(node)
        # normalise to  value OP bound
        if isinstance(lv, Val) and rn is not None and rn == 0:
            # v > 0 / v >= 0 : true => lo ;  v < 0 / v <= 0 : false => lo  (v <= 0 false => v > 0)
            return Pred(lv.id, "lo", op in (">", ">="))
        if isinstance(rv, Val) and ln is not None and ln == 0:
            return Pred(rv.id, "lo", op in ("<", "<="))
        if isinstance(lv, Val) and (is_size(rref) or is_upper(rref, r)):
            if op == "<":
                return Pred(lv.id, "hi", True)
            if op == "<=" and is_upper(rref, r):
                return Pred(lv.id, "hi", True)
            if op == ">=" and (is_size(rref) or is_upper(rref, r)):
                return Pred(lv.id, "hi", False)
            if op == ">" and is_upper(rref, r):
                return Pred(lv.id, "hi", False)
        if isinstance(rv, Val) and (is_size(lref) or is_upper(lref, l)):
            if op == ">":
                return Pred(rv.id, "hi", True)
            if op == ">=" and is_upper(lref, l):
                return Pred(rv.id, "hi", True)
            if op == "<=" and (is_size(lref) or is_upper(lref, l)):
                return Pred(rv.id, "hi", False)
            if op == "<" and is_upper(lref, l):
                return Pred(rv.id, "hi", False)
        return Comb("and", [])

    # -- statements ---------------------------------------------------------
    def stmt(self, n):
        k = n.get("kind")
        if k == "CompoundStmt":
            for c in cfacts.kids(n):
                self.stmt(c)
        elif k == "DeclStmt":
            for d in cfacts.kids(n):
                ks = cfacts.kids(d)
                if d.get("kind") == "VarDecl" and ks:
                    self.env[d["id"]] = self.eval(ks[0])
        elif k == "BinaryOperator" and n.get("opcode") == "=":
            l, r = cfacts.kids(n)
            v = self.eval(r)
            ls = cfacts.strip(l)
            if ls.get("kind") == "DeclRefExpr":
                self.env[self._ref(ls)] = v
            elif ls.get("kind") == "ArraySubscriptExpr":
                base, idx = cfacts.kids(ls)
                self.mem[(self._ref(base), self.tu.text_of(idx))] = v if isinstance(v, Val) else Val(what="predicate")
                self.last_store[(self._ref(base), self.tu.text_of(idx))] = n
            else:
                raise AnalysisError("%s: unsupported store target `%s`" % (self.fname, self.tu.text_of(l)))
        elif k == "CompoundAssignOperator" or (k == "UnaryOperator" and n.get("opcode") in ("++", "--")):
            l = cfacts.strip(cfacts.kids(n)[0])
            old = self.eval(l)
            rhs = self.eval(cfacts.kids(n)[1]) if len(cfacts.kids(n)) > 1 else None
            new = Val(what="updated in place by `%s`" % self.tu.text_of(n), src=self._arith_src(old, rhs))
            if l.get("kind") == "DeclRefExpr":
                self.env[self._ref(l)] = new
            elif l.get("kind") == "ArraySubscriptExpr":
                base, idx = cfacts.kids(l)
                self.mem[(self._ref(base), self.tu.text_of(idx))] = new
                self.last_store[(self._ref(base), self.tu.text_of(idx))] = n
        elif k == "IfStmt":
            ks = cfacts.kids(n)
            p = self._as_pred(self.eval(ks[0]))
            base_env, base_mem = dict(self.env), dict(self.mem)
            outs = []
            for truth, body in ((True, ks[1]), (False, ks[2] if len(ks) > 2 else None)):
                f = facts(p, truth)
                self.env = {k2: (v.refined(f) if isinstance(v, Val) else v) for k2, v in base_env.items()}
                self.mem = {k2: (v.refined(f) if isinstance(v, Val) else v) for k2, v in base_mem.items()}
                if body is not None:
                    self.stmt(body)
                outs.append((self.env, self.mem))
            (e1, m1), (e2, m2) = outs
            f1, f2 = facts(p, True), facts(p, False)
            self.env = {k2: join(e1[k2], e2[k2], f1, f2) for k2 in e1 if k2 in e2}
            self.mem = {k2: join(m1[k2], m2[k2], f1, f2) for k2 in set(m1) | set(m2)
                        if k2 in m1 and k2 in m2}
            for k2 in (set(m1) ^ set(m2)):
                # touched in one arm only: in the other arm the element still holds its incoming value
                if k2 in m1:
                    self.mem[k2] = join(m1[k2], Val(what="untouched element"), f1, f2)
                else:
                    self.mem[k2] = join(Val(what="untouched element"), m2[k2], f1, f2)
        elif k in ("NullStmt",):
            pass
        elif k in ("ForStmt", "WhileStmt", "DoStmt", "SwitchStmt", "GotoStmt", "ReturnStmt", "BreakStmt",
                   "ContinueStmt"):
            if self._stores_array(n) or k in ("BreakStmt", "ContinueStmt", "GotoStmt", "ReturnStmt"):
                raise AnalysisError("%s: control flow `%s` inside the clamping loop is not modelled" % (self.fname, k))
        else:
            self.eval(n)

    def run(self):
        """-> list of (index text, Val, store text, line) for the final value stored per element of the array.
        Afterwards self.companions holds, for every other pointer parameter (the derivative arrays that are
        clamped along with the index): (array name, index text, final Val or None when never stored,
        store text, line) and self.clamp_preds the bounds under which a constant replaced a value."""
        out = []
        self.companions = []
        self.clamp_preds = set()
        for loop in self.loops:
            self.env, self.mem, self.last_store = {}, {}, {}
            CLAMP_PREDS.append(set())
            ks = cfacts.kids(loop)
            body = ks[-1]
            try:
                self.stmt(body)
            finally:
                self.clamp_preds |= CLAMP_PREDS.pop()
            idx_texts = {idx for (arr, idx) in self.last_store if arr == self.arr}
            for pid, pname in sorted(self.ptr_names.items(), key=lambda kv: str(kv[1])):
                if pid == self.arr:
                    continue
                stored = [(a, i) for (a, i) in self.last_store if a == pid]
                if not stored:
                    for i in sorted(idx_texts):
                        self.companions.append((pname, i, None, "", self.tu.line_of(loop)))
                for a, i in stored:
                    st = self.last_store[(a, i)]
                    self.companions.append((pname, i, self.mem.get((a, i)), self.tu.text_of(st), self.tu.line_of(st)))
            last = {}
            for n in cfacts.walk(body):
                if n.get("kind") == "BinaryOperator" and n.get("opcode") == "=":
                    l = cfacts.strip(cfacts.kids(n)[0])
                    if l.get("kind") == "ArraySubscriptExpr" and self._ref(cfacts.kids(l)[0]) == self.arr:
                        last[self.tu.text_of(cfacts.kids(l)[1])] = n
            for (arr, idx), v in self.mem.items():
                if arr == self.arr and idx in last:
                    out.append((idx, v, self.tu.text_of(last[idx]), self.tu.line_of(last[idx])))
        return out
