"""C07 -- ciderpress/dft/baselines.py : nsp_rho_basline ("RHO" baseline)

The baseline energy is e = mean_s X0T[s, 0]  (the density feature, averaged
over the spin channels), so de/dX0T[s, i] = delta_{i0} / nspin for BOTH spin
channels.  The code writes `dedx[0, :] += 1.0 / nspin`, i.e. it puts 1/nspin
on *every feature of spin channel 0* and nothing on spin channel 1.

Checks (all must hold for C07):
  (a) analytic derivative == finite difference of the returned energy
  (b) exchanging the spin channels exchanges the two potentials
  (c) closed shell: both channels get the same potential
  (d) the same through the evaluator layer (MappedDFTKernel, mode NPOL)
"""
import sys
from unittest import mock

import numpy as np

# the C libraries are not needed for this demo
np.ctypeslib.load_library = lambda *a, **k: mock.MagicMock()

from ciderpress.dft import baselines as B  # noqa: E402
from ciderpress.dft.transform_data import FeatureList, LMap  # noqa: E402
from ciderpress.dft.xc_evaluator import FuncEvaluator, MappedDFTKernel  # noqa: E402

rng = np.random.default_rng(7)
nfeat, N = 4, 5
X = rng.uniform(0.2, 1.5, (2, nfeat, N))
fails = []

f = B.BASELINE_CODES["RHO"]
e, d = f(X.copy())
h = 1e-6
fd = np.zeros_like(X)
for s in range(2):
    for i in range(nfeat):
        xp, xm = X.copy(), X.copy()
        xp[s, i] += h
        xm[s, i] -= h
        fd[s, i] = (f(xp)[0] - f(xm)[0]) / (2 * h)
err = np.abs(fd - d).max()
print("(a) analytic dedx[:, :, 0] =\n", d[:, :, 0])
print("    finite diff          =\n", fd[:, :, 0].round(8))
print("    max |analytic - FD|  = %.3e (expected ~1e-10)" % err)
if err > 1e-6:
    fails.append("a")

es, ds = f(X[::-1].copy())
err = np.abs(ds[::-1] - d).max()
print("(b) spin swap: |E - E_swapped| = %.1e, max |v_swapped[::-1] - v| = %.3e (expected 0)"
      % (np.abs(e - es).max(), err))
if err > 1e-12:
    fails.append("b")

Xc = np.concatenate([X[:1], X[:1]], axis=0)
ec, dc = f(Xc.copy())
err = np.abs(dc[0] - dc[1]).max()
print("(c) closed shell: max |v_up - v_dn| = %.3e (expected 0)" % err)
if err > 1e-12:
    fails.append("c")


class Lin(FuncEvaluator):
    def __call__(self, X1, res=None, dres=None):
        c = 0.1 * np.arange(1, X1.shape[-1] + 1)
        res[:] += 1.0 + X1.dot(c)
        dres[:] += c
        return res, dres


fl = FeatureList([LMap(i) for i in range(nfeat)])
k = MappedDFTKernel(Lin(), fl, "NPOL", B.BASELINE_CODES["RHO"], B.zero_xc)
r1, d1 = k(X.copy())
r2, d2 = k(X[::-1].copy())
err = np.abs(d2[::-1] - d1).max()
print("(d) MappedDFTKernel(NPOL, RHO): |E - E_swapped| = %.1e, max |v_swapped[::-1] - v| = %.3e (expected 0)"
      % (np.abs(r1 - r2).max(), err))
if err > 1e-12:
    fails.append("d")

if fails:
    print("FAIL: checks", fails, "violated")
    sys.exit(1)
print("OK")
