"""C04: MappedDFTKernel (xc_evaluator.py) cannot be evaluated when it has no additive
baseline, although `additive_baseline=None` is the constructor default and
apply_baseline contains a test meant to skip it.

    add_base = add_base and self.additive_baseline is not None

`self.additive_baseline` is the bound *method* KernelEvalBase.additive_baseline, which
is never None; the attribute that holds the user's baseline is `self._add_basefunc`
(the twin KernelEvalBase2.apply_libxc_baseline_ tests `self._add_basefunc is not None`).
So the method is called and does `None(X0T)`.

Expected: energy = m * f and derivative = FD gradient, identical to using the explicit
ZERO additive baseline.  Observed: TypeError.
"""
import os
import sys

sys.path.insert(0, os.path.join(os.path.dirname(os.path.abspath(__file__)), "..", "common"))
import hx  # noqa: E402

hx.install()

import numpy as np  # noqa: E402

from ciderpress.dft import baselines as B  # noqa: E402
from ciderpress.dft.transform_data import FeatureList, LMap, UMap  # noqa: E402
from ciderpress.dft.xc_evaluator import GlobalLinearEvaluator, MappedDFTKernel, MappedXC  # noqa: E402

rng = np.random.default_rng(0)
fl = FeatureList([UMap(1, 0.3), UMap(2, 0.5), LMap(3)])
fev = GlobalLinearEvaluator(rng.normal(size=3))
fail = False
for mode in ["SEP", "NPOL"]:
    for nspin in [1, 2]:
        X0T = rng.uniform(0.3, 2.0, size=(nspin, 4, 5))
        ref = MappedXC([MappedDFTKernel(fev, fl, mode, B.lda_x, B.zero_xc)], None)
        model = MappedXC([MappedDFTKernel(fev, fl, mode, B.lda_x)], None)  # additive_baseline=None
        eref, dref = ref(X0T)
        try:
            e, de = model(X0T)
        except Exception as exc:
            print("mode=%s nspin=%d: expected energy/derivative equal to the ZERO-additive model; "
                  "observed %r" % (mode, nspin, exc))
            fail = True
            continue
        err = max(np.abs(e - eref).max(), np.abs(de - dref).max())
        print("mode=%s nspin=%d: max diff to ZERO-additive model = %.2e" % (mode, nspin, err))
        fail |= err > 1e-12
if fail:
    print("FAIL: MappedDFTKernel without additive baseline cannot be evaluated")
    sys.exit(1)
print("OK")
