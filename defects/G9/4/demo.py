"""
C11: spline mapping of kernels with an *isotropic* length scale (a scalar, the
sklearn default, or a one-element array), which DiffRBF / SubsetRBF /
SubsetARBF / SubsetAddRQ / ... all support (`anisotropic` is False, the single
length scale is broadcast over the features).

get_mapped_gp_evaluator_simple indexes length_scale[i] and arbf_args takes
len(length_scale) as the number of additive dimensions, so the mapping of an
isotropic kernel raises instead of reproducing f(x) = sum_a k(x, x_a) alpha_a.
Expected: the same evaluator (same spline error) as for the equivalent
anisotropic kernel with all length scales equal.
"""
import contextlib
import io
import sys

import numpy as np

import cider_stub

cider_stub.install()

from ciderpress.dft.xc_evaluator import KernelEvaluator, SplineSetEvaluator  # noqa: E402
from ciderpress.models.kernel_plans.map_tools import (  # noqa: E402
    get_mapped_gp_evaluator_additive,
    get_mapped_gp_evaluator_simple,
)
from ciderpress.models.kernels import (  # noqa: E402
    DiffConstantKernel,
    SubsetAddRQ,
    SubsetARBF,
    SubsetRBF,
)


class Feat:
    def __init__(self, bounds):
        self.bounds = bounds


rng = np.random.default_rng(1)
nctrl, nfeat = 12, 4
bounds = [(0, 1), (-1, 1), (0, 2), (-0.5, 0.5)]
feature_list = [Feat(b) for b in bounds]
lo = np.array([b[0] for b in bounds])
hi = np.array([b[1] for b in bounds])
Xctrl = lo + (hi - lo) * rng.random((nctrl, nfeat))
alpha = rng.normal(size=nctrl)
X = lo + (hi - lo) * rng.random((50, nfeat))
scale = [0.3, 1.0, 0.7]
S, A = get_mapped_gp_evaluator_simple, get_mapped_gp_evaluator_additive
aniso = np.array([0.5, 0.5, 0.5])

cases = [
    ("C*SubsetRBF aniso [.5,.5,.5] (control)", S,
     DiffConstantKernel(1.7) * SubsetRBF([0, 2, 3], length_scale=aniso)),
    ("C*SubsetRBF length_scale=0.5", S,
     DiffConstantKernel(1.7) * SubsetRBF([0, 2, 3], length_scale=0.5)),
    ("C*SubsetRBF length_scale=[0.5]", S,
     DiffConstantKernel(1.7) * SubsetRBF([0, 2, 3], length_scale=np.array([0.5]))),
    ("SubsetARBF aniso [.5,.5,.5] (control)", A,
     SubsetARBF([0, 2, 3], order=2, length_scale=aniso, scale=scale)),
    ("SubsetARBF length_scale=0.5", A,
     SubsetARBF([0, 2, 3], order=2, length_scale=0.5, scale=scale)),
    ("SubsetARBF length_scale=[0.5]", A,
     SubsetARBF([0, 2, 3], order=2, length_scale=np.array([0.5]), scale=scale)),
    ("SubsetAddRQ length_scale=0.5", A,
     SubsetAddRQ([0, 2, 3], order=2, alpha=1.5, length_scale=0.5, scale=scale)),
    ("SubsetRBF(0.4) x SubsetARBF(0.5)", A,
     SubsetRBF([1], length_scale=0.4)
     * SubsetARBF([0, 2, 3], order=2, length_scale=0.5, scale=scale)),
]
nfail = 0
for name, mapper, kernel in cases:
    fref, dfref = KernelEvaluator(kernel, Xctrl, alpha)(X)
    errs = []
    try:
        for dens in [4, 8, 16]:
            with contextlib.redirect_stdout(io.StringIO()):
                if mapper is S:
                    out = mapper(kernel, Xctrl, alpha, feature_list,
                                 rbf_density=dens, max_ngrid=400)
                else:
                    out = mapper(kernel, Xctrl, alpha, feature_list,
                                 srbf_density=dens, arbf_density=dens, max_ngrid=400)
            f, df = SplineSetEvaluator(*out)(X)
            errs.append(float(np.abs(f - fref).max() / np.abs(fref).max()))
    except Exception as e:
        print("%s\n   expected: mapped evaluator; observed: %s %r" % (name, type(e).__name__, e))
        nfail += 1
        continue
    print("%s\n   relative spline error at density 4, 8, 16: %s" % (name, errs))
    if not (errs[0] > errs[1] > errs[2] and errs[2] < 2e-3):
        nfail += 1
if nfail:
    print("FAIL: %d isotropic kernels could not be mapped" % nfail)
    sys.exit(1)
print("OK")
