"""Supplementary end-to-end check for finding 5 (same defect, observed at
CiderNumInt.nr_rks vs nr_uks): closed-shell Li+ (1s^2, a single doubly occupied
orbital) with the def2-SVP functions of a ghost H atom 1.6 A away, so that basis
functions with O(1) amplitude sit in the 1s density tail.  The XC matrix from
the RKS path must equal each spin block of the UKS path evaluated with
dm_up = dm_dn = dm/2.
"""
import sys
from unittest import mock

import numpy as np

_orig_load = np.ctypeslib.load_library
np.ctypeslib.load_library = lambda name, path: (
    mock.MagicMock() if "ciderpress" in str(path) else _orig_load(name, path)
)

from pyscf import dft, gto, scf  # noqa: E402

from ciderpress.dft import baselines as B  # noqa: E402
from ciderpress.dft.settings import FeatureSettings, SemilocalSettings  # noqa: E402
from ciderpress.dft.transform_data import FeatureList, SLNMap, UMap  # noqa: E402
from ciderpress.dft.xc_evaluator import FuncEvaluator, MappedDFTKernel, MappedXC  # noqa: E402
from ciderpress.pyscf.dft import make_cider_calc  # noqa: E402


class Quad(FuncEvaluator):
    def __call__(self, X1, res=None, dres=None):
        c = 0.1 + 0.03 * np.arange(1, X1.shape[-1] + 1)
        res[:] += 1.0 + (X1**2).dot(c) + X1.dot(c)
        dres[:] += 2 * X1 * c + c
        return res, dres


mol = gto.M(
    atom="Li 0 0 0; X-H 0 0 1.6",
    basis={"Li": "def2-svp", "X-H": gto.basis.load("def2-svp", "H")},
    charge=1,
    verbose=0,
)
dm = scf.RHF(mol).run().make_rdm1()
fl = FeatureList([SLNMap(0, 2.0), UMap(1, 0.5), UMap(2, 1.0)])
bad = False
for slmode in ["nst", "npa"]:
    mlxc = MappedXC(
        [MappedDFTKernel(Quad(), fl, "SEP", B.lda_x, B.zero_xc)],
        FeatureSettings(sl_settings=SemilocalSettings(slmode)),
    )
    rks = dft.RKS(mol)
    rks.grids.level = 1
    rks = make_cider_calc(rks, mlxc, xmix=1.0)
    rks.build()
    rks.grids.build()
    n1, e1, v1 = rks._numint.nr_rks(mol, rks.grids, "PBE", dm)
    uks = dft.UKS(mol)
    uks.grids.level = 1
    uks = make_cider_calc(uks, mlxc, xmix=1.0)
    uks.build()
    uks.grids.build()
    n2, e2, v2 = uks._numint.nr_uks(mol, uks.grids, "PBE", np.stack([dm / 2, dm / 2]))
    dv = np.abs(v1 - v2[0]).max()
    print("sl mode %s: Exc(RKS)=%.12f Exc(UKS)=%.12f  max|Vxc(RKS)-Vxc(UKS)_up| = %.3e  (max|Vxc| = %.3e)"
          % (slmode, e1, e2, dv, np.abs(v1).max()))
    if dv > 1e-5 * np.abs(v1).max():
        bad = True
if bad:
    print("FAIL: XC matrix of a closed-shell system depends on the spin path (expected rel. diff < 1e-5)")
    sys.exit(1)
print("OK")
