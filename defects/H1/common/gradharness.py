import os, sys
sys.path.insert(0, os.path.dirname(os.path.abspath(__file__)))
from harness import *
from pyscf import lib as pyscflib


def make_mol(coords, symbols, spin, charge, basis="6-31g"):
    atom = [(s, tuple(c)) for s, c in zip(symbols, coords)]
    return gto.M(atom=atom, basis=basis, spin=spin, charge=charge, unit="Bohr", verbose=0)


def run_grad_check(builder, symbols, coords, spin, charge, grid_response=True, h=1e-3,
                   seed=3, basis="6-31g", verbose=True, ncoord=None):
    """builder(mol) -> decorated ks (not yet run)."""
    coords = np.asarray(coords, dtype=float)
    mol = make_mol(coords, symbols, spin, charge, basis)
    ks = builder(mol)
    ks.conv_tol = 1e-12
    ks.kernel()
    assert ks.converged
    g = ks.nuc_grad_method().set(grid_response=grid_response).kernel()
    rng = np.random.RandomState(seed)
    D = rng.normal(size=coords.shape)
    D /= np.linalg.norm(D)
    es = []
    for sgn in (1, -1):
        m2 = make_mol(coords + sgn * h * D, symbols, spin, charge, basis)
        k2 = builder(m2)
        k2.conv_tol = 1e-12
        es.append(k2.kernel(dm0=ks.make_rdm1()))
        assert k2.converged
    fd = (es[0] - es[1]) / (2 * h)
    an = np.sum(g * D)
    out = dict(g=g, fd=fd, an=an, err=abs(fd - an), gsum=g.sum(axis=0), e=ks.e_tot)
    if verbose:
        print("fd=%.9f an=%.9f err=%.2e gsum=%s" % (fd, an, out["err"], np.array2string(out["gsum"], precision=2)), flush=True)
    return out
