from sdmx_ref import *
from ciderpress.dft.settings import *
from ciderpress.pyscf import sdmx as sdmx_fast, sdmx_slow
np.random.seed(1)
mol = gto.M(atom="H 0 0 0; F 0 0 0.9", basis="def2-svp", spin=0, verbose=0)
ks = dft.RKS(mol); ks.xc='PBE'; ks.grids.level=1; ks.kernel()
dm = ks.make_rdm1()
coords = np.random.normal(size=(12,3))*0.8 + np.array([0,0,0.85])
t, R, rho0, rho1 = sdmx_reference(mol, dm, coords)
sp0 = CubicSpline(t, rho0, axis=0); sp1 = CubicSpline(t, rho1, axis=0)
def at(sp, Rq, base):
    tq = np.log(Rq)
    v = sp(np.clip(tq, t[0], t[-1]))
    v[tq > t[-1]] = 0
    return v
def dat(sp, Rq):
    tq = np.log(Rq)
    v = sp(np.clip(tq, t[0], t[-1]), 1)
    v[(tq > t[-1])|(tq<t[0])] = 0
    return v / Rq.reshape((-1,)+(1,)*(v.ndim-1))
def integ(f): return np.trapezoid(f*R[:,None], t, axis=0)
def ref_feat(ratio, j, kind):
    sr = np.sqrt(ratio)
    Ra, Rb = R/sr, R*sr
    if kind == '0':
        cross = at(sp0, Ra, rho0)*at(sp0, Rb, rho0); same = rho0**2; p = 2-j
    elif kind == '0d':
        cross = dat(sp0, Ra)*dat(sp0, Rb); same = dat(sp0, R)**2; p = 4-j
    elif kind == '1':
        cross = (at(sp1, Ra, rho1)*at(sp1, Rb, rho1)).sum(axis=1); same=(rho1**2).sum(axis=1); p = 4-j
    elif kind == '1d':
        fa = at(sp1, Ra, rho1) + Ra[:,None,None]*dat(sp1, Ra)
        fb = at(sp1, Rb, rho1) + Rb[:,None,None]*dat(sp1, Rb)
        f0 = rho1 + R[:,None,None]*dat(sp1, R)
        cross = (fa*fb).sum(axis=1); same = (f0**2).sum(axis=1); p = 4-j
    return -0.25*4*np.pi*integ(R[:,None]**p*(0.5*same+0.5*cross))
sd = {1.0: ([0,1,2],[3,2,1,1]), 2.0: ([1,0,2],[2,2,3,2]), 1.5: ([2,1],[1,1,0,1])}
s = SDMXFullSettings(sd)
ref = []
for ratio in s.ratios:
    for n, rdr in s.iterate_l0_terms(ratio):
        ref.append(ref_feat(ratio, n, '0d' if rdr else '0'))
for ratio in s.ratios:
    for n, rdr in s.iterate_l1_terms(ratio):
        ref.append(ref_feat(ratio, n, '1d' if rdr else '1'))
ref = np.array(ref)
for modname, mod in [('fast', sdmx_fast), ('slow', sdmx_slow)]:
    gen = mod.EXXSphGenerator.from_settings_and_mol(s, 1, mol, lambd=1.7)
    f = gen.get_features(dm, mol, coords)
    print(modname, ' '.join('%.0e' % x for x in np.abs(f-ref).max(axis=-1)/np.abs(ref).max(axis=-1)))
print(np.array(s.ueg_vector(1.0)))
