"""C07 -- ciderpress/dft/baselines.py : get_libxc_mgga_baseline

libxc wants spin-polarised arrays with the spin index running fastest.  The
wrapper converts `rho` and `sigma` with np.asfortranarray but passes `tau`
through unchanged (and allocates `vtau` Fortran ordered).  An ordinary
C-contiguous (2, ngrid) tau array -- numpy's default, and what the GPAW kernel
(ciderpress/gpaw/cider_kernel.py, rho_tuple = (n_sg, sigma_xg, tau_sg)) hands
in -- is therefore read as [tau_up(0), tau_up(1)] for grid point 0,
[tau_up(2), tau_up(3)] for grid point 1, ... .

Consequences shown here (nspin = 2, MGGA_C_R2SCAN / MGGA_X_R2SCAN baseline):
  (a) result depends on the memory order of tau,
  (b) a closed-shell density through the spin-polarised path does not give the
      unpolarised energy,
  (c) exchanging the spin channels changes the energy,
  (d) same through the evaluator layer (MappedDFTKernel2 / MappedXC2, NPOL).
libxc itself (real library, compiled from ciderpress/lib/xc_utils against the
libxc shipped with pyscf) is used.
"""
import os
import sys

import numpy as np

sys.path.insert(0, os.path.dirname(os.path.abspath(__file__)))
import ciderlibs  # noqa: E402

ciderlibs.install()

from ciderpress.dft import baselines as B  # noqa: E402
from ciderpress.dft.transform_data import FeatureList, LMap, UMap  # noqa: E402
from ciderpress.dft.xc_evaluator import FuncEvaluator  # noqa: E402
from ciderpress.dft.xc_evaluator2 import MappedDFTKernel2, MappedXC2  # noqa: E402

rng = np.random.default_rng(3)
N = 6
fails = []

# ---- closed shell density, per-spin quantities = half of the total ----
n = rng.uniform(0.2, 1.5, N)
g = rng.uniform(-0.3, 0.3, (3, N))
sig = (g * g).sum(0)
t = sig / (8 * n) + rng.uniform(0.3, 1.0, N)

rho1, sigma1, tau1 = n[None], sig[None], t[None]
rho2 = np.stack([n / 2, n / 2])
sigma2 = np.stack([sig / 4, sig / 4, sig / 4])
tau2 = np.stack([t / 2, t / 2])  # C-contiguous (2, N), numpy default
assert tau2.flags.c_contiguous

for xc in ["MGGA_C_R2SCAN", "MGGA_X_R2SCAN"]:
    e1 = B.get_libxc_baseline(xc, (rho1, sigma1, tau1))[0]
    e2C = B.get_libxc_baseline(xc, (rho2, sigma2, tau2))[0]
    e2F = B.get_libxc_baseline(xc, (rho2, sigma2, np.asfortranarray(tau2)))[0]
    print(xc)
    print("  unpolarised          e =", e1)
    print("  polarised, tau C-ord e =", e2C)
    print("  polarised, tau F-ord e =", e2F)
    dCF = np.abs(e2C - e2F).max()
    d12 = np.abs(e2C - e1).max()
    print("  (a) |e(C) - e(F)| = %.3e (expected 0)   (b) |e_pol(C) - e_unpol| = %.3e (expected ~1e-15)"
          % (dCF, d12))
    if dCF > 1e-10:
        fails.append(xc + ":a")
    if d12 > 1e-10:
        fails.append(xc + ":b")

# ---- open shell: exchange the two spin channels ----
ra = rng.uniform(0.2, 1.5, (2, N))
ga = rng.uniform(-0.3, 0.3, (2, 3, N))
sa = np.stack([(ga[0] * ga[0]).sum(0), (ga[0] * ga[1]).sum(0), (ga[1] * ga[1]).sum(0)])
ta = np.stack([sa[0] / (8 * ra[0]), sa[2] / (8 * ra[1])]) + rng.uniform(0.3, 1.0, (2, N))
ea = B.get_libxc_baseline("MGGA_C_R2SCAN", (ra, sa, ta))[0]
eb = B.get_libxc_baseline("MGGA_C_R2SCAN", (ra[::-1].copy(), sa[::-1].copy(), ta[::-1].copy()))[0]
d = np.abs(ea - eb).max()
print("(c) spin swap, MGGA_C_R2SCAN: max |e - e_swapped| = %.3e (expected ~1e-16)" % d)
if d > 1e-10:
    fails.append("c")


# ---- evaluator layer ----
class Lin(FuncEvaluator):
    def __call__(self, X1, res=None, dres=None):
        c = 0.1 * np.arange(1, X1.shape[-1] + 1)
        res[:] += 1.0 + X1.dot(c)
        dres[:] += c
        return res, dres


fl = FeatureList([LMap(0), UMap(1, 0.3), UMap(2, 0.2)])
xcm = MappedXC2([MappedDFTKernel2(Lin(), fl, "NPOL", "MGGA_C_R2SCAN")], None)
X1 = np.stack([n, sig / n ** (8.0 / 3), t / n ** (5.0 / 3)])[None]
X2 = np.concatenate([X1, X1])
E1 = xcm(X1, (rho1, sigma1, tau1))[0]
E2 = xcm(X2, (rho2, sigma2, tau2))[0]
d = np.abs(E1 - E2).max()
print("(d) MappedXC2 NPOL closed shell: E_unpol =", E1)
print("                                 E_pol   =", E2)
print("    max diff = %.3e (expected ~1e-15)" % d)
if d > 1e-10:
    fails.append("d")

if fails:
    print("FAIL:", fails)
    sys.exit(1)
print("OK")
