/* Minimal reference stand-in for the FFTW3 API used by cider_fft.c.
 * NOT FFTW: a slow, straightforward DFT that follows the documented
 * semantics of FFTW's "advanced interface" (fftw_plan_many_dft*,
 * nembed == NULL, stride/dist addressing, padded in-place r2c layout). */
#ifndef FFTW3_SHIM_H
#define FFTW3_SHIM_H
#include <complex.h>
#include <stddef.h>
typedef double complex fftw_complex;
typedef struct fftw_shim_plan_s *fftw_plan;
#define FFTW_FORWARD (-1)
#define FFTW_BACKWARD (+1)
#define FFTW_ESTIMATE (1U << 6)
int fftw_init_threads(void);
void fftw_plan_with_nthreads(int n);
void *fftw_malloc(size_t n);
void fftw_free(void *p);
fftw_plan fftw_plan_many_dft(int rank, const int *n, int howmany,
                             fftw_complex *in, const int *inembed, int istride,
                             int idist, fftw_complex *out, const int *onembed,
                             int ostride, int odist, int sign, unsigned flags);
fftw_plan fftw_plan_many_dft_r2c(int rank, const int *n, int howmany,
                                 double *in, const int *inembed, int istride,
                                 int idist, fftw_complex *out,
                                 const int *onembed, int ostride, int odist,
                                 unsigned flags);
fftw_plan fftw_plan_many_dft_c2r(int rank, const int *n, int howmany,
                                 fftw_complex *in, const int *inembed,
                                 int istride, int idist, double *out,
                                 const int *onembed, int ostride, int odist,
                                 unsigned flags);
void fftw_execute(const fftw_plan p);
void fftw_destroy_plan(fftw_plan p);
#endif
