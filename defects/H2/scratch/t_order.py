from ref import *
import ref, sys
np.random.seed(0)
mol = gto.M(atom="H 0 0 0; F 0 0 0.9", basis="def2-svp", spin=0, verbose=0)
ks = dft.RKS(mol); ks.xc='PBE'; ks.grids.level=1; ks.kernel()
dm = ks.make_rdm1()
coords = np.random.normal(size=(40,3))*0.8 + np.array([0,0,0.85])
ana = RHFAnalyzer(mol, dm)
ana.grids = ref._Grids(mol, coords)
def run(settings, **kw):
    pred = get_descriptors(ana, settings, **kw)[0]
    refv = reference(mol, dm, settings, coords)
    err = np.abs(pred - refv).max(axis=1)
    scale = np.abs(refv).max(axis=1)
    return err/scale
th=[1.0,0.0,0.03125]
for l0,l1,dots in [
  (["se_ap","se"],["se_rvec","se_grad"],[(-1,0),(0,1),(1,1),(0,0)]),
  (["se_lapl","se_r2","se_ap"],["se_rvec"],[(0,0),(-1,0)]),
  (["se_ap","se_ap"],["se_grad","se_grad"],[(0,1)]),
  ([],["se_rvec","se_grad"],[(0,1),(-1,-1)]),
  (["se_apr2"],[],[]),
]:
    for plan in ['gaussian','spline']:
        vi = NLDFSettingsVI("MGGA", th, "one", l0, l1, dots)
        print(l0,l1,dots,plan, ' '.join('%.1e'%x for x in run(vi, plan_type=plan)))
        vij = NLDFSettingsVIJ("MGGA", th, "one", l0, l1, dots, ["se_ar2"], [[2.0,0.0,0.04]])
        print('   ij', ' '.join('%.1e'%x for x in run(vij, plan_type=plan)))
