"""
Demo: an NLDFSettingsVI with only vector (l=1) features -- l0_feat_specs = [] is
accepted by the settings class -- cannot be evaluated: LCAOInterpolator only
tabulates the radial splines of the l0 basis (w0_rsp) when n0 > 0, but
conv2spline / spline2conv also need them for the "l+1" part of every l=1
feature.  With n0 == 0 and n1 > 0 the forward (project_orb2grid) and backward
(project_grid2orb) interpolation both die with "assert w_rsp is not None".

Expected behaviour: the l=1 dot-product features of the l1-only settings equal
the corresponding features of a settings object that has one additional scalar
feature, and the forward / backward convolution pair is an adjoint pair.

Run:  PYTHONPATH=/tmp/hunt/H5 /venv/bin/python demo.py
"""
import sys

import cider_build  # noqa: F401
import numpy as np
from pyscf import dft, gto

from ciderpress.dft.settings import NLDFSettingsVI
from ciderpress.pyscf.gen_cider_grid import CiderGrids
from ciderpress.pyscf.nldf_convolutions import PyscfNLDFGenerator

theta = [1.0, 0.0, 0.03125]
l1specs = ["se_grad", "se_rvec"]
dots = [(0, 0), (0, 1), (-1, 1)]
st_ref = NLDFSettingsVI("MGGA", theta, "one", ["se"], l1specs, dots)
st_l1 = NLDFSettingsVI("MGGA", theta, "one", [], l1specs, dots)  # accepted

mol = gto.M(atom="H 0 0 0; F 0 0.1 0.9", basis="def2-svp", verbose=0)
grids = CiderGrids(mol, lmax=6)
grids.level = 0
grids.build(with_non0tab=True)
dm = dft.RKS(mol).get_init_guess(key="minao")
ni = dft.numint.NumInt()
ao = ni.eval_ao(mol, grids.coords, deriv=1)
rho = ni.eval_rho(mol, ao, dm, xctype="MGGA", with_lapl=False)
rng = np.random.default_rng(0)

failed = False
for itype in ["onsite_spline", "onsite_direct", "train_gen"]:
    kw = dict(plan_type="spline", interpolator_type=itype)
    gref = PyscfNLDFGenerator.from_mol_and_settings(mol, grids.grids_indexer, 1, st_ref, **kw)
    gref.interpolator.set_coords(grids.coords)
    fref = gref.get_features(rho)[1:]
    try:
        g = PyscfNLDFGenerator.from_mol_and_settings(mol, grids.grids_indexer, 1, st_l1, **kw)
        g.interpolator.set_coords(grids.coords)
        f = g.get_features(rho)
        err = np.abs(f - fref).max() / np.abs(fref).max()
        x = rng.normal(size=(grids.grids_indexer.ngrids, g.plan.nalpha))
        Ax = g._perform_fwd_convolution(x).copy()
        y = rng.normal(size=Ax.shape)
        By = g._perform_bwd_convolution(y.copy())
        lhs, rhs = np.sum(Ax * y), np.sum(x * By)
        ok = err < 1e-10 and abs(lhs - rhs) < 1e-9 * abs(lhs)
        print("%-14s l1-only features vs reference: rel.err %.1e (expected < 1e-10); <Ax,y>=% .10e <x,By>=% .10e %s"
              % (itype, err, lhs, rhs, "" if ok else "--> MISMATCH"))
        failed = failed or not ok
    except AssertionError:
        import traceback
        tb = traceback.extract_tb(sys.exc_info()[2])[-1]
        print("%-14s AssertionError at %s:%d (%s)   expected: features equal to reference (max |f| = %.3e)"
              % (itype, tb.filename.split("/")[-1], tb.lineno, tb.line, np.abs(fref).max()))
        failed = True
if failed:
    print("FAIL")
    sys.exit(1)
print("OK")
