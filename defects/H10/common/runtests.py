import sys, os
sys.path.insert(0, os.path.dirname(__file__))
import cider_env; cider_env.install()
import pytest
sys.exit(pytest.main(sys.argv[1:]))
