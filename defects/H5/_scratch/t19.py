import cider_build
import numpy as np, itertools
from ciderpress.dft.plans import FracLaplPlan, SemilocalPlan
from ciderpress.dft.settings import FracLaplSettings, SemilocalSettings
rng = np.random.default_rng(0)
ng = 11
def check_fl(settings, nspin):
    plan = FracLaplPlan(settings, nspin)
    nrho = 5 + settings.nrho
    rho = rng.normal(size=(nspin, nrho, ng))
    d = rng.normal(size=rho.shape)
    f0 = plan.get_feat(rho).copy()
    c = rng.normal(size=f0.shape)
    v = plan.get_vxc(c)
    an = np.sum(v * d)
    h = 1e-6
    fd = np.sum(c * (plan.get_feat(rho + h * d) - plan.get_feat(rho - h * d))) / (2 * h)
    msg = "vjp-vs-fd %.2e" % (abs(fd - an) / abs(fd))
    if nspin == 1:
        occd = plan.get_occd(rho[0], d)
        jv = np.sum(c * occd)
        msg += " jvp-vs-fd %.2e" % (abs(fd - jv) / abs(fd))
    return msg
for nk0, nk1, nd1, ndd in [(2, 2, 2, 1), (2, 1, 2, 2), (1, 2, 1, 1), (2, 0, 2, 0), (0, 2, 0, 0)]:
    l1 = [(j, k) for j in range(-1, nk1) for k in range(j, nk1)]
    ld = [(j, k) for j in range(-1, nd1) for k in range(j, nd1)]
    st = FracLaplSettings([-1.0, -0.5, 0.5], nk0, nk1, l1, nd1=nd1, ld_dots=ld, ndd=ndd)
    for nspin in [1, 2]:
        try:
            print("FL nk0,nk1,nd1,ndd", (nk0, nk1, nd1, ndd), "nspin", nspin, check_fl(st, nspin))
        except Exception as e:
            print("FL", (nk0, nk1, nd1, ndd), nspin, "EXC", type(e).__name__, e)
for mode in ["nst", "npa", "ns", "np"]:
    for nspin in [1, 2]:
        plan = SemilocalPlan(SemilocalSettings(mode), nspin)
        rho = rng.normal(size=(nspin, 5, ng)); rho[:, 0] = np.abs(rho[:, 0]) + 0.1
        sig = np.einsum("sxg,sxg->sg", rho[:, 1:4], rho[:, 1:4])
        rho[:, 4] = np.abs(rho[:, 4]) + sig / (8 * rho[:, 0]) + 0.05
        d = rng.normal(size=rho.shape)
        f0 = plan.get_feat(rho)
        c = rng.normal(size=f0.shape)
        v = plan.get_vxc(rho, c)
        h = 1e-6
        fd = np.sum(c * (plan.get_feat(rho + h * d) - plan.get_feat(rho - h * d))) / (2 * h)
        an = np.sum(v * d)
        jv = np.sum(c * plan.get_occd(rho, d)[1])
        print("SL", mode, nspin, "vjp-vs-fd %.2e jvp-vs-fd %.2e" % (abs(fd - an) / abs(fd), abs(fd - jv) / abs(fd)))
