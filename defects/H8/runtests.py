import sys, os
sys.path.insert(0, os.path.dirname(os.path.abspath(__file__)))
import patch_load
import pytest
sys.exit(pytest.main(sys.argv[1:]))
