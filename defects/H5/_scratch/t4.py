import cider_build
import numpy as np, sys, ctypes
from pyscf import gto, dft, lib
from pyscf.dft.numint import _dot_ao_ao, _dot_ao_dm
from ciderpress.pyscf.sdmx import EXXSphGenerator, libcider
from ciderpress.dft.settings import *

mol = gto.M(atom="O 0 0 0; H 0.15 0.85 0.45; F -0.75 -0.35 0.95", basis="def2-tzvp", verbose=0)
rng = np.random.default_rng(1)
ngrids = 777
coords = rng.normal(size=(ngrids, 3)) * 1.5
nao = mol.nao_nr()
for st in [SDMXSettings([0,1]), SDMXG1Settings([0,1,2], 2, 2), SDMXFullSettings({1.0: ([0,1,2],[3,2,2,1]), 2.0: ([1,2],[2,1,1,1])})]:
    gen = EXXSphGenerator.from_settings_and_mol(st, 1, mol)
    dm = rng.normal(size=(nao, nao))
    coordsF = np.asfortranarray(coords)
    ao = gen.get_ao(mol, coordsF)
    cao = gen.get_cao(mol, coordsF)
    shls_slice = (0, mol.nbas); ao_loc = mol.ao_loc_nr()
    ylm = gen._get_ylm(mol, coordsF)
    nalpha = gen.plan.nalpha
    ncpa = 4 if gen.has_l1 else 1
    def A(dm):
        c0 = _dot_ao_dm(mol, ao, dm, None, shls_slice, ao_loc)
        b0 = gen._contract_ao_to_bas(mol, c0, shls_slice, ao_loc, coordsF, ylm=ylm)
        tmp = np.empty((ncpa, nalpha, ngrids))
        if gen.has_l1:
            libcider.contract_shl_to_alpha_l1(ctypes.c_int(ngrids), ctypes.c_int(nalpha), ctypes.c_int(cao.shape[-1]),
                tmp.ctypes.data_as(ctypes.c_void_p), b0.ctypes.data_as(ctypes.c_void_p), cao.ctypes.data_as(ctypes.c_void_p))
        else:
            for ia in range(nalpha):
                tmp[0, ia] = lib.einsum("bg,bg->g", b0[0], cao[ia].T)
        return tmp
    def B(y):
        tmp3 = gen._eval_crho_potential(mol, coordsF, cao, y, shls_slice, ao_loc, ylm=ylm)
        return _dot_ao_ao(mol, ao, tmp3, None, shls_slice, ao_loc, hermi=0)
    Ax = A(dm)
    y = rng.normal(size=Ax.shape)
    By = B(y.copy())
    l = np.sum(Ax*y); r = np.sum(dm*By)
    print(type(st).__name__, lib.num_threads(), l, r, abs(l-r)/abs(l))
