import cider_build
import numpy as np, sys
from pyscf import gto, dft
from ciderpress.pyscf.gen_cider_grid import CiderGrids
from ciderpress.dft.settings import *
from toy import make_ni
vj_specs = ["se", "se_ar2", "se_a2r4", "se_erf_rinv"]
sl = SemilocalSettings("npa")
sd = SDMXG1Settings([0,1,2], 2, 2)
molu = gto.M(atom="O 0 0 0; H 0.15 0.85 0.45; F -0.75 -0.35 0.95", basis="def2-svp", verbose=0, spin=2)
ks = dft.UKS(molu); ks.xc = "PBE"; ks.kernel(); dm = np.asarray(ks.make_rdm1()); mo = ks.mo_coeff
P = np.zeros_like(dm)
P[0] = np.outer(mo[0][:, 5], mo[0][:, 12]); P[0] += P[0].T
P[1] = 0.5 * (np.outer(mo[1][:, 3], mo[1][:, 11]) + np.outer(mo[1][:, 11], mo[1][:, 3]))
grids = CiderGrids(molu, lmax=6); grids.level = 0; grids.build(with_non0tab=True)
def fdtest(ni, label):
    n, e, v = ni.nr_uks(molu, grids, "", dm)
    d = 1e-3
    ep = ni.nr_uks(molu, grids, "", dm + d * P)[1]; em = ni.nr_uks(molu, grids, "", dm - d * P)[1]
    fd = (ep - em) / (2 * d); an = np.sum(v * P)
    print(label, "E=%.8f fd=%.8e an=%.8e rel=%.1e" % (e, fd, an, abs(fd - an) / abs(fd)), flush=True)
for lvl in ["GGA", "MGGA"]:
    n = 2 if lvl == "GGA" else 3
    theta = [1.0, 0.3, 0.03125][:n]
    fp = [[2.0, 0.2, 0.04][:n] for i in range(4)]
    fp[-1].append(2.0)
    for rm in ["one", "expnt"]:
        vij = NLDFSettingsVIJ(lvl, theta, rm, ["se_ap", "se_r2", "se_lapl"], ["se_grad", "se_rvec"], [(0, 0), (1, -1), (0, 1)], vj_specs, fp)
        vk = NLDFSettingsVK(lvl, theta, rm, [[1.0, 0.1, 0.02][:n], [2.0, 0.0, 0.04][:n]], "exponential")
        for nm, st in [("vij", vij), ("vk", vk)]:
            ni = make_ni(sl=sl, nldf=st, sdmx=sd, plan_type="spline")
            fdtest(ni, " ".join(["UKS npa", lvl, rm, nm]))
