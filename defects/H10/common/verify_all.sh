#!/bin/bash
# For each finding: run demo on HEAD (expect exit!=0), apply fix.diff, run demo (expect 0),
# run pinned suite (expect 143 passed), revert.
cd /tmp/hunt/H10
export PYTHONPATH=/tmp/hunt/H10
export OMP_NUM_THREADS=${OMP_NUM_THREADS:-4}
for n in "$@"; do
  d=hunt_out/$n
  echo "=== finding $n"
  git status --short | grep -v '^??' && { echo "tree dirty, abort"; exit 1; }
  (cd $d && /venv/bin/python demo.py > out_before.txt 2>&1; echo "demo on HEAD exit=$?" | tee -a out_before.txt)
  if [ -f $d/fix.diff ]; then
    git apply $d/fix.diff || { echo "apply failed"; exit 1; }
    (cd $d && /venv/bin/python demo.py > out_after.txt 2>&1; echo "demo with fix exit=$?" | tee -a out_after.txt)
    /venv/bin/python -m pytest -q -p no:cacheprovider --timeout=900 --continue-on-collection-errors 2>&1 | tail -1 | tee $d/pytest_after.txt
    git checkout -- ciderpress
  fi
done
git status --short
