"""E-len: symbolic list lengths as linear forms (part 1: algebra).

A length / count is a linear form over *atoms* with rational coefficients.
Atoms are names (`len(pows)`, `n1`, `nfeat(self.sl_settings)`) or
`min(...)` of linear forms (slices, zip).  All atoms are assumed >= 0
(lengths and counts).  `simplify` removes dominated arguments of `min`
using the facts (`f >= 0`) a constructor establishes with its asserts.
"""
from fractions import Fraction


class Lin:
    __slots__ = ("terms", "const", "_h")

    def __init__(self, terms=(), const=0):
        d = {}
        for a, c in (terms.items() if isinstance(terms, dict) else terms):
            c = Fraction(c)
            if c != 0:
                d[a] = d.get(a, 0) + c
        self.terms = tuple(sorted(((a, c) for a, c in d.items() if c != 0), key=lambda x: repr(x[0])))
        self.const = Fraction(const)
        self._h = hash((self.terms, self.const))

    @staticmethod
    def atom(a):
        return Lin(((a, 1),), 0)

    @staticmethod
    def c(v):
        return Lin((), v)

    def __hash__(self):
        return self._h

    def __eq__(self, o):
        return isinstance(o, Lin) and self.terms == o.terms and self.const == o.const

    def __add__(self, o):
        o = o if isinstance(o, Lin) else Lin.c(o)
        return Lin(list(self.terms) + list(o.terms), self.const + o.const)

    def __neg__(self):
        return Lin([(a, -c) for a, c in self.terms], -self.const)

    def __sub__(self, o):
        o = o if isinstance(o, Lin) else Lin.c(o)
        return self + (-o)

    def scale(self, k):
        k = Fraction(k)
        return Lin([(a, c * k) for a, c in self.terms], self.const * k)

    def is_const(self):
        return not self.terms

    def atoms(self):
        out = set()
        for a, _ in self.terms:
            out.add(a)
            if isinstance(a, tuple) and a[0] == "min":
                for x in a[1]:
                    out |= x.atoms()
        return out

    def uncertain(self):
        return any(isinstance(a, str) and "?" in a for a in self.atoms())

    def __repr__(self):
        parts = []
        for a, c in self.terms:
            nm = atom_str(a)
            if c == 1:
                parts.append(nm)
            elif c == -1:
                parts.append("-" + nm)
            else:
                parts.append("%s*%s" % (c, nm))
        if self.const != 0 or not parts:
            parts.append(str(self.const))
        return " + ".join(parts).replace("+ -", "- ")


def atom_str(a):
    if isinstance(a, tuple) and a[0] == "min":
        return "min(%s)" % ", ".join(sorted(repr(x) for x in a[1]))
    return str(a)


def lmin(*args):
    flat = []
    for a in args:
        if len(a.terms) == 1 and a.const == 0 and a.terms[0][1] == 1 and isinstance(a.terms[0][0], tuple) \
                and a.terms[0][0][0] == "min":
            flat.extend(a.terms[0][0][1])
        else:
            flat.append(a)
    uniq = []
    for a in flat:
        if a not in uniq:
            uniq.append(a)
    # constant differences
    keep = []
    for a in uniq:
        dominated = False
        for b in uniq:
            if b is not a:
                d = a - b
                if d.is_const() and (d.const > 0 or (d.const == 0 and uniq.index(b) < uniq.index(a))):
                    dominated = True
        if not dominated:
            keep.append(a)
    if len(keep) == 1:
        return keep[0]
    return Lin.atom(("min", frozenset(keep)))


class Facts:
    def __init__(self):
        self.ge0 = []  # Lin f, meaning f >= 0
        self.subst = {}  # atom -> Lin
        self.text = []

    def copy(self):
        f = Facts()
        f.ge0 = list(self.ge0)
        f.subst = dict(self.subst)
        f.text = list(self.text)
        return f

    def add_le(self, a, b, text=""):
        self.ge0.append(b - a)
        if text:
            self.text.append(text)

    def add_eq(self, a, b, text=""):
        # single atoms: substitute one by the other; otherwise two inequalities
        if len(b.terms) == 1 and b.const == 0 and b.terms[0][1] == 1 and not a.atoms() & {b.terms[0][0]}:
            self.subst[b.terms[0][0]] = a
        elif len(a.terms) == 1 and a.const == 0 and a.terms[0][1] == 1 and not b.atoms() & {a.terms[0][0]}:
            self.subst[a.terms[0][0]] = b
        else:
            self.ge0.append(b - a)
            self.ge0.append(a - b)
        if text:
            self.text.append(text)

    def apply(self, lin, _d=0):
        out = Lin.c(lin.const)
        for a, c in lin.terms:
            if a in self.subst and _d < 10:
                out = out + self.apply(self.subst[a], _d + 1).scale(c)
            elif isinstance(a, tuple) and a[0] == "min":
                out = out + lmin(*[self.apply(x, _d + 1) for x in a[1]]).scale(c)
            else:
                out = out + Lin.atom(a).scale(c)
        return out


def inherently_nonneg(a):
    """lengths, minima of such, and sums of lengths cannot be negative; a bare integer symbol (a constructor
    parameter used as a count) can, unless a fact says otherwise"""
    if isinstance(a, tuple) and a and a[0] == "min":
        return all(_nonneg_form(x) for x in a[1])
    if isinstance(a, str):
        return a.startswith("len(") or a.startswith("nfeat(")
    return False


def _nonneg_form(d):
    return d.const >= 0 and all(c >= 0 and inherently_nonneg(a) for a, c in d.terms)


def _generalise(lin):
    """V<d>[1][0] -> V<d>[1][*] : facts asserted for every element of a container apply to each index"""
    import re
    out = Lin.c(lin.const)
    for a, c in lin.terms:
        if isinstance(a, str):
            a = re.sub(r"\[\d+\]$", "[*]", a)
        out = out + Lin.atom(a).scale(c)
    return out


def _provable_nonneg(d, fs, depth=3):
    if _nonneg_form(d):
        return True
    if depth == 0:
        return False
    for f in fs:
        # only subtract a fact that removes a negative / non-inherent term
        # only subtract a fact that cancels (part of) a term that keeps d from being visibly non-negative
        if any(a2 == a and c2 * c > 0 and (c < 0 or not inherently_nonneg(a)) for a, c in d.terms for a2, c2 in f.terms) \
                or (d.const < 0 and f.const < 0):
            if _provable_nonneg(d - f, fs, depth - 1):
                return True
    return False


def prove_le(a, b, facts):
    d = simplify(b - a, facts, _inner=True)
    fs = [simplify(f, facts, _inner=True) for f in facts.ge0]
    return _provable_nonneg(d, fs) or _provable_nonneg(_generalise(d), fs)


def simplify(lin, facts, _inner=False, _depth=0):
    lin = facts.apply(lin)
    if _depth > 6:
        return lin
    out = Lin.c(lin.const)
    changed = False
    for a, c in lin.terms:
        if isinstance(a, tuple) and a[0] == "min":
            args = [simplify(x, facts, True, _depth + 1) for x in a[1]]
            args = list(dict.fromkeys(args))
            keep = []
            for i, x in enumerate(args):
                dom = False
                for j, y in enumerate(args):
                    if i == j:
                        continue
                    if _le_nomin(y, x, facts):
                        # y <= x: x is redundant, unless they are provably equal and x comes first
                        if _le_nomin(x, y, facts) and i < j:
                            continue
                        dom = True
                        break
                if not dom:
                    keep.append(x)
            if not keep:
                keep = args[:1]
            new = lmin(*keep)
            if new != Lin.atom(a):
                changed = True
            out = out + new.scale(c)
        else:
            out = out + Lin.atom(a).scale(c)
    if changed and _depth < 6:
        return simplify(out, facts, _inner, _depth + 1)
    return out


def _le_nomin(a, b, facts):
    """a <= b provable, without recursing into simplify (arguments are already simplified)"""
    d = b - a
    fs = [facts.apply(f) for f in facts.ge0]
    return _provable_nonneg(d, fs) or _provable_nonneg(_generalise(d), fs)


# ----------------------------------------------------------------------------
# part 2: abstract values and the interpreter
# ----------------------------------------------------------------------------
import ast  # noqa: E402
import itertools  # noqa: E402

from sa import pyfacts as pf  # noqa: E402


_NEG = {"Lt": "GtE", "LtE": "Gt", "Gt": "LtE", "GtE": "Lt", "Eq": "NotEq", "NotEq": "Eq"}


def negate_cond(c):
    if c[0] == "cmp":
        return ("cmp", _NEG[c[1]], c[2], c[3])
    return ("or" if c[0] == "and" else "and", [negate_cond(x) for x in c[1]])


class NotComparable(Exception):
    """the code has a shape the length interpreter does not model"""


class Raised(Exception):
    """the interpreted path raises (input rejected / not implemented)"""


class Poly:
    """a symbol of unknown type (constructor parameter): usable as an integer
    (atom `name`) or as a sequence (atom `len(name)`); sums stay polymorphic"""

    def __init__(self, as_int, as_len, name=None):
        self.as_int, self.as_len, self.name = as_int, as_len, name

    @staticmethod
    def sym(name):
        return Poly(Lin.atom(name), Lin.atom("len(%s)" % name), name)

    def __eq__(self, o):
        return isinstance(o, Poly) and (self.as_int, self.as_len) == (o.as_int, o.as_len)

    def __hash__(self):
        return hash((self.as_int, self.as_len))

    def __repr__(self):
        return "Poly(%s)" % (self.name or self.as_int)


class IntV:
    def __init__(self, lin):
        self.lin = lin if isinstance(lin, Lin) else Lin.c(lin)

    def __eq__(self, o):
        return isinstance(o, IntV) and self.lin == o.lin

    def __hash__(self):
        return hash(("i", self.lin))

    def __repr__(self):
        return "Int(%r)" % self.lin


class SeqV:
    def __init__(self, n, kind="list"):
        self.len = n if isinstance(n, Lin) else Lin.c(n)
        self.kind = kind

    def __eq__(self, o):
        return isinstance(o, SeqV) and (self.len, self.kind) == (o.len, o.kind)

    def __hash__(self):
        return hash(("s", self.len, self.kind))

    def __repr__(self):
        return "Seq[%s](%r)" % (self.kind, self.len)


class StrV:
    def __init__(self, s):
        self.s = s

    def __eq__(self, o):
        return isinstance(o, StrV) and self.s == o.s

    def __hash__(self):
        return hash(("str", self.s))

    def __repr__(self):
        return "Str(%r)" % self.s


class ConstV:
    def __init__(self, v):
        self.v = v

    def __eq__(self, o):
        return isinstance(o, ConstV) and type(self.v) is type(o.v) and self.v == o.v

    def __hash__(self):
        return hash(("c", repr(self.v)))

    def __repr__(self):
        return "Const(%r)" % (self.v,)


class LitList:
    """a concrete list of literals (module-level tables such as ALLOWED_RHO_MULTS)"""

    def __init__(self, items):
        self.items = list(items)

    def __eq__(self, o):
        return isinstance(o, LitList) and self.items == o.items

    def __hash__(self):
        return hash(("ll", tuple(map(repr, self.items))))


class Opaque:
    def __init__(self, why="", src=None):
        self.why = why
        self.src = src

    def __eq__(self, o):
        return isinstance(o, Opaque) and self.src is not None and self.src == o.src

    def __hash__(self):
        return hash(("o", self.src))

    def __repr__(self):
        return "Opaque(%s)" % (self.src or self.why)


class ConflictV:
    """a list whose length depends on the path taken: `lens` are the alternatives, `notes` say which test decides"""

    def __init__(self, lens, notes):
        self.lens = frozenset(lens)
        self.notes = tuple(notes)

    def __eq__(self, o):
        return isinstance(o, ConflictV) and (self.lens, self.notes) == (o.lens, o.notes)

    def __hash__(self):
        return hash(("cf", self.lens, self.notes))

    def __repr__(self):
        return "Conflict(%s)" % sorted(map(repr, self.lens))

    def shifted(self, d):
        return ConflictV([l + d for l in self.lens], self.notes)


class ElemV:
    """an element of a symbolic container, identified by a stable key: the key / value of `the current item`
    of a dict that a loop runs over (K<d>, V<d>), and subscripts of those (V<d>[1][0])"""

    def __init__(self, key):
        self.key = key

    def __eq__(self, o):
        return isinstance(o, ElemV) and self.key == o.key

    def __hash__(self):
        return hash(("e", self.key))

    def __repr__(self):
        return "Elem(%s)" % self.key


class DictView:
    """keys / values / items of a symbolic dict named `dkey` (iteration order is irrelevant for counting)"""

    def __init__(self, dkey, what):
        self.dkey, self.what = dkey, what

    def __eq__(self, o):
        return isinstance(o, DictView) and (self.dkey, self.what) == (o.dkey, o.what)

    def __hash__(self):
        return hash(("dv", self.dkey, self.what))

    def __repr__(self):
        return "%s(%s)" % (self.what, self.dkey)


def loop_dependent(atom, dkey):
    return isinstance(atom, str) and ("K<%s>" % dkey in atom or "V<%s>" % dkey in atom)


SETTINGS_LEN_METHODS = ("get_feat_usps", "ueg_vector", "get_reasonable_normalizer")
ARRAY_PRESERVING = {"np.array", "np.asarray", "np.ascontiguousarray", "np.asfortranarray", "np.cumsum",
                    "numpy.array", "numpy.asarray", "np.copy", "np.float64", "np.abs", "np.sqrt", "np.exp"}
SEQ_PRESERVING = {"list", "tuple", "sorted", "reversed", "enumerate"}
OTHER = "<other>"


class Interp:
    """Interprets constructor + accessor methods of one class for one
    assignment of the string-domain constructor parameters."""

    def __init__(self, prog, mod, cls, fixed=None):
        self.prog, self.mod, self.cls = prog, mod, cls
        self.mro = prog.mro(mod, cls)
        self.attrs = {}
        self.facts = Facts()
        self.fixed = dict(fixed or {})  # ctor parameter name -> concrete string
        self.domains = {}  # symbol name -> set of literals it was compared with
        self.in_ctor = False
        self.depth = 0
        self.fresh = itertools.count(1)
        self.memo = {}
        self._loop_exits = []  # per enclosing modelled loop: [(break|continue, env, line)]
        self._join_ctx = None  # (line, test text) of the `if` whose branches are being joined
        self.conflicts = {}  # fresh-symbol atom -> description of a path-dependent list length
        self.requirements = []  # (Lin that must be >= 0, text): counts used by range() / slices / list repetition

    # -- helpers -------------------------------------------------------------
    def fresh_sym(self, hint):
        return Poly.sym("?%s#%d" % (hint, next(self.fresh)))

    def as_int(self, v):
        if isinstance(v, IntV):
            return v.lin
        if isinstance(v, Poly):
            return v.as_int
        if isinstance(v, ConstV) and isinstance(v.v, bool):
            return Lin.c(int(v.v))
        if isinstance(v, ElemV):
            return Lin.atom(v.key)
        return None

    def as_len(self, v):
        if isinstance(v, DictView):
            return Lin.atom("len(%s)" % v.dkey)
        if isinstance(v, ElemV):
            return Lin.atom("len(%s)" % v.key)
        if isinstance(v, SeqV):
            return v.len
        if isinstance(v, Poly):
            return v.as_len
        if isinstance(v, LitList):
            return Lin.c(len(v.items))
        if isinstance(v, StrV):
            return Lin.c(len(v.s))
        return None

    def find_member(self, name, after=None):
        """-> (mod, cls, node) for a method/property `name` in the MRO (after class `after`)"""
        started = after is None
        for m, c in self.mro:
            if not started:
                if c is after:
                    started = True
                continue
            ms = pf.methods(c)
            if name in ms:
                return m, c, ms[name]
        return None

    def find_class_attr(self, name, after=None):
        started = after is None
        for m, c in self.mro:
            if not started:
                if c is after:
                    started = True
                continue
            at = pf.class_attrs(c)
            if name in at:
                return m, c, at[name]
        return None

    @staticmethod
    def is_property(fn):
        return any(pf.src(d) == "property" for d in fn.decorator_list)

    # -- attribute access on self -------------------------------------------
    def self_attr(self, name, after=None, owner=None):
        r = self.find_member(name, after)
        if r is not None and self.is_property(r[2]):
            return self.call(r[2], r[1], r[0], {}, [])
        if after is None and name in self.attrs:
            return self.attrs[name]
        if r is not None:
            return ("boundmethod", r)
        ca = self.find_class_attr(name, after)
        if ca is not None:
            return self.eval(ca[2], {}, ca[1], ca[0])
        if self.in_ctor:
            raise Raised("attribute %s read before assignment" % name)
        return Opaque("attr", "self." + name)

    # -- calls ---------------------------------------------------------------
    def call(self, fn, owner, mod, kwargs, args, bind_self=True):
        key = None
        if not self.in_ctor:
            try:
                key = (id(fn), tuple(args), tuple(sorted(kwargs.items())))
                if key in self.memo:
                    return self.memo[key]
            except TypeError:
                key = None
        self.depth += 1
        if self.depth > 40:
            self.depth -= 1
            raise NotComparable("recursion too deep at %s" % fn.name)
        try:
            env = {}
            params = [a.arg for a in fn.args.args]
            is_static = any(pf.src(d) == "staticmethod" for d in fn.decorator_list)
            if not is_static and params:
                params = params[1:]
            defaults = fn.args.defaults
            dstart = len(params) - len(defaults)
            for i, p in enumerate(params):
                if i < len(args):
                    env[p] = args[i]
                elif p in kwargs:
                    env[p] = kwargs[p]
                elif i >= dstart and i - dstart < len(defaults):
                    env[p] = self.eval(defaults[i - dstart], {}, owner, mod)
                else:
                    env[p] = Opaque("unbound parameter", p)
            for a, d in zip(fn.args.kwonlyargs, fn.args.kw_defaults):
                env[a.arg] = kwargs.get(a.arg, self.eval(d, {}, owner, mod) if d is not None else Opaque("kw", a.arg))
            if any(isinstance(n, ast.YieldFrom) for n in pf.walk_no_nested(fn)):
                res = Opaque("generator", fn.name)
            elif any(isinstance(n, ast.Yield) for n in pf.walk_no_nested(fn)):
                # a generator: the number of items it yields, counted like appends to a hidden list
                env["__yield__"] = IntV(0)
                rets = []
                out = self.block(fn.body, env, rets, owner, mod)
                if out is None or any(not (isinstance(r, ConstV) and r.v is None) for r in rets):
                    raise NotComparable("generator %s with early return" % fn.name)
                n_y = out.get("__yield__")
                res = SeqV(n_y.lin, "gen") if isinstance(n_y, IntV) else Opaque("generator", fn.name)
            else:
                rets = []
                out = self.block(fn.body, env, rets, owner, mod)
                if out is not None:
                    rets.append(ConstV(None))
                if not rets:
                    raise Raised("%s always raises" % fn.name)
                res = rets[0]
                for r in rets[1:]:
                    res = self.join_val(res, r, "return of %s" % fn.name)
            if key is not None:
                self.memo[key] = res
            return res
        finally:
            self.depth -= 1

    def join_val(self, a, b, hint):
        if a == b:
            return a
        la, lb = self.as_len(a), self.as_len(b)
        if isinstance(a, SeqV) and isinstance(b, SeqV):
            sa, sb = simplify(a.len, self.facts), simplify(b.len, self.facts)
            if sa == sb:
                return SeqV(sa, a.kind if a.kind == b.kind else "list")
        if isinstance(a, IntV) and isinstance(b, IntV) and simplify(a.lin, self.facts) == simplify(b.lin, self.facts):
            return a
        if isinstance(a, (SeqV, ConflictV)) and isinstance(b, (SeqV, ConflictV)) and self._join_ctx is not None:
            la_ = a.lens if isinstance(a, ConflictV) else {simplify(a.len, self.facts)}
            lb_ = b.lens if isinstance(b, ConflictV) else {simplify(b.len, self.facts)}
            notes = (a.notes if isinstance(a, ConflictV) else ()) + (b.notes if isinstance(b, ConflictV) else ())
            if len(la_ | lb_) <= 6 and not any(l.uncertain() for l in la_ | lb_):
                note = "line %s: `%s`" % self._join_ctx
                return ConflictV(la_ | lb_, notes if note in notes else notes + (note,))
        return self.fresh_sym(hint.split(" ")[-1])

    # -- expressions ---------------------------------------------------------
    def eval(self, e, env, owner, mod):
        if e is None:
            return ConstV(None)
        if isinstance(e, ast.Constant):
            if isinstance(e.value, str):
                return StrV(e.value)
            if isinstance(e.value, bool) or e.value is None:
                return ConstV(e.value)
            if isinstance(e.value, int):
                return IntV(Lin.c(e.value))
            return ConstV(e.value)
        if isinstance(e, ast.Name):
            if e.id in env:
                return env[e.id]
            if e.id in mod.assigns:
                try:
                    v = pf.literal(mod.assigns[e.id], mod.assigns)
                    if isinstance(v, (list, tuple)):
                        return LitList(v)
                    if isinstance(v, str):
                        return StrV(v)
                    if isinstance(v, bool):
                        return ConstV(v)
                    if isinstance(v, int):
                        return IntV(Lin.c(v))
                except pf.NotLiteral:
                    pass
            return Opaque("global", e.id)
        if isinstance(e, ast.Set) and e.elts and all(isinstance(el, ast.Constant) for el in e.elts):
            return LitList([el.value for el in e.elts])
        if isinstance(e, (ast.List, ast.Tuple)):
            n = Lin.c(0)
            for el in e.elts:
                if isinstance(el, ast.Starred):
                    ln = self.as_len(self.eval(el.value, env, owner, mod))
                    if ln is None:
                        return Opaque("starred", pf.src(e))
                    n = n + ln
                else:
                    self.eval(el, env, owner, mod)
                    n = n + 1
            if all(isinstance(el, ast.Constant) for el in e.elts) and e.elts:
                return LitList([el.value for el in e.elts])
            return SeqV(n, "list")
        if isinstance(e, ast.ListComp) or isinstance(e, ast.GeneratorExp):
            if len(e.generators) == 1 and not e.generators[0].ifs:
                ln = self.iter_count(self.eval(e.generators[0].iter, env, owner, mod))
                if ln is not None:
                    return SeqV(ln, "list")
            return self.comprehension(e, env, owner, mod, "list")
        if isinstance(e, ast.Attribute):
            return self.eval_attr(e, env, owner, mod)
        if isinstance(e, ast.Call):
            return self.eval_call(e, env, owner, mod)
        if isinstance(e, ast.Subscript):
            base = self.eval(e.value, env, owner, mod)
            if isinstance(e.slice, ast.Slice):
                ln = self.as_len(base)
                if ln is None or e.slice.step is not None:
                    return Opaque("slice", pf.src(e))
                lo = self.as_int(self.eval(e.slice.lower, env, owner, mod)) if e.slice.lower else None
                hi = self.as_int(self.eval(e.slice.upper, env, owner, mod)) if e.slice.upper else None
                if (e.slice.lower and lo is None) or (e.slice.upper and hi is None):
                    return Opaque("slice", pf.src(e))
                kind = base.kind if isinstance(base, SeqV) else "list"
                if lo is None and hi is None:
                    return SeqV(ln, kind)
                if hi is not None:
                    self.need_nonneg(hi, pf.src(e))
                if lo is None:
                    return SeqV(lmin(ln, hi), kind)
                if hi is None:
                    return SeqV(ln - lmin(ln, lo), kind)
                return SeqV(lmin(ln, hi) - lmin(ln, hi, lo), kind)
            idxv = self.eval(e.slice, env, owner, mod)
            if isinstance(idxv, ElemV) and idxv.key.startswith("K<") and idxv.key.endswith(">"):
                dk = self.dict_key(base, e.value)
                if dk is not None and idxv.key == "K<%s>" % dk:
                    return ElemV("V<%s>" % dk)
            if isinstance(base, ElemV):
                ii = self.as_int(idxv)
                if ii is not None and ii.is_const() and not isinstance(idxv, ElemV):
                    return ElemV("%s[%d]" % (base.key, int(ii.const)))
            if isinstance(base, LitList):
                idx = self.as_int(self.eval(e.slice, env, owner, mod))
                if idx is not None and idx.is_const() and -len(base.items) <= idx.const < len(base.items):
                    v = base.items[int(idx.const)]
                    return StrV(v) if isinstance(v, str) else (IntV(Lin.c(v)) if isinstance(v, int) else ConstV(v))
            return Opaque("element", pf.src(e))
        if isinstance(e, ast.BinOp):
            a = self.eval(e.left, env, owner, mod)
            b = self.eval(e.right, env, owner, mod)
            return self.binop(e.op, a, b, pf.src(e))
        if isinstance(e, ast.UnaryOp):
            v = self.eval(e.operand, env, owner, mod)
            if isinstance(e.op, ast.Not):
                if isinstance(v, tuple) and v and v[0] in ("cmp", "and", "or"):
                    return negate_cond(v)
                t = self.truth(v)
                return ConstV(not t) if t is not None else Opaque("not")
            if isinstance(e.op, ast.USub):
                i = self.as_int(v)
                if isinstance(v, IntV):
                    return IntV(-i)
            return Opaque("unary")
        if isinstance(e, ast.IfExp):
            t = self.truth(self.eval(e.test, env, owner, mod))
            if t is True:
                return self.eval(e.body, env, owner, mod)
            if t is False:
                return self.eval(e.orelse, env, owner, mod)
            a = self.eval(e.body, env, owner, mod)
            b = self.eval(e.orelse, env, owner, mod)
            return self.join_val(a, b, "ifexp")
        if isinstance(e, ast.Compare):
            return self.compare(e, env, owner, mod)
        if isinstance(e, ast.BoolOp):
            raw = [self.eval(v, env, owner, mod) for v in e.values]
            vals = [self.truth(v) if not isinstance(v, tuple) else None for v in raw]
            conds = [v for v in raw if isinstance(v, tuple) and v and v[0] in ("cmp", "and", "or")]
            if conds:
                if isinstance(e.op, ast.And) and not any(v is False for v in vals):
                    # the symbolic comparisons are facts of the conjunction (the decided members are true or
                    # opaque: an opaque member only makes the conjunction stronger)
                    return ("and", conds)
                if isinstance(e.op, ast.Or) and not any(v is True for v in vals) \
                        and all(v is False or isinstance(r, tuple) for v, r in zip(vals, raw)):
                    return ("or", conds)
            if isinstance(e.op, ast.And):
                if any(v is False for v in vals):
                    return ConstV(False)
                if all(v is True for v in vals):
                    return ConstV(True)
            else:
                if any(v is True for v in vals):
                    return ConstV(True)
                if all(v is False for v in vals):
                    return ConstV(False)
            return Opaque("boolop")
        return Opaque(type(e).__name__, pf.src(e)[:60])

    def comprehension(self, e, env, owner, mod, mode):
        """[elt for a in A for b in B(a) if c]  ==  acc = []; for a in A: for b in B(a): if c: acc.append(elt)
        (mode 'sum': acc = 0 ... acc += elt); evaluated by the loop machinery"""
        acc = "__acc%d__" % next(self.fresh)
        if mode == "list":
            inner = ast.Expr(ast.Call(ast.Attribute(ast.Name(acc, ast.Load()), "append", ast.Load()), [e.elt], []))
        else:
            inner = ast.AugAssign(ast.Name(acc, ast.Store()), ast.Add(), e.elt)
        body = [inner]
        for g in reversed(e.generators):
            for cond in reversed(g.ifs):
                body = [ast.If(cond, body, [])]
            body = [ast.For(g.target, g.iter, body, [], None)]
        env2 = dict(env)
        env2[acc] = SeqV(0, "list") if mode == "list" else IntV(0)
        try:
            out = self.block(body, env2, [], owner, mod)
        except (NotComparable, Raised):
            return Opaque("comprehension", pf.src(e)[:60])
        v = out.get(acc) if out is not None else None
        if isinstance(v, (SeqV, IntV)):
            return v
        if isinstance(v, Poly):
            return v
        return Opaque("comprehension", pf.src(e)[:60])

    def dict_key(self, v, node=None):
        """stable name of a symbolic dict value"""
        if isinstance(v, Poly) and v.name:
            return v.name
        if isinstance(v, Opaque) and v.src:
            return str(v.src)
        if isinstance(v, Opaque) and node is not None:
            return pf.src(node)
        return None

    def need_nonneg(self, lin, text):
        """range(n), x[:n] and [v] * n treat a negative n as 0 while `a + n` does not: n >= 0 must be established"""
        if lin is None or lin.is_const() or lin.uncertain():
            return
        if not any(r == lin for r, _ in self.requirements):
            self.requirements.append((lin, text))

    def truth(self, v):
        if isinstance(v, ConstV):
            return bool(v.v)
        if isinstance(v, StrV):
            return bool(v.s)
        if isinstance(v, IntV) and v.lin.is_const():
            return v.lin.const != 0
        if isinstance(v, LitList):
            return bool(v.items)
        return None

    def iter_count(self, v):
        return self.as_len(v)

    def binop(self, op, a, b, text):
        if isinstance(op, ast.Add):
            if isinstance(a, Poly) and isinstance(b, Poly):
                return Poly(a.as_int + b.as_int, a.as_len + b.as_len)
            if isinstance(a, (SeqV, LitList)) or isinstance(b, (SeqV, LitList)):
                if (isinstance(a, SeqV) and a.kind == "array") or (isinstance(b, SeqV) and b.kind == "array"):
                    arr = a if isinstance(a, SeqV) and a.kind == "array" else b
                    return SeqV(arr.len, "array")
                la, lb = self.as_len(a), self.as_len(b)
                if la is not None and lb is not None:
                    return SeqV(la + lb, "list")
                return Opaque("concat", text)
            ia, ib = self.as_int(a), self.as_int(b)
            if ia is not None and ib is not None:
                return IntV(ia + ib)
            return Opaque("add", text)
        if isinstance(op, ast.Sub):
            ia, ib = self.as_int(a), self.as_int(b)
            if ia is not None and ib is not None and not isinstance(a, SeqV) and not isinstance(b, SeqV):
                return IntV(ia - ib)
            if isinstance(a, SeqV) and a.kind == "array":
                return a
            return Opaque("sub", text)
        if isinstance(op, ast.Mult):
            for x, y in ((a, b), (b, a)):
                if isinstance(x, (SeqV, LitList)) and not (isinstance(x, SeqV) and x.kind == "array"):
                    n = self.as_int(y)
                    ln = self.as_len(x)
                    if n is not None and not isinstance(y, SeqV):
                        self.need_nonneg(n, text)
                        if ln.is_const():
                            return SeqV(n.scale(ln.const), "list")
                        if n.is_const():
                            return SeqV(ln.scale(n.const), "list")
                    return Opaque("list repeat", text)
            if isinstance(a, SeqV) and a.kind == "array":
                return a
            if isinstance(b, SeqV) and b.kind == "array":
                return b
            ia, ib = self.as_int(a), self.as_int(b)
            if ia is not None and ib is not None:
                if ia.is_const():
                    return IntV(ib.scale(ia.const))
                if ib.is_const():
                    return IntV(ia.scale(ib.const))
            return Opaque("mul", text)
        if isinstance(a, SeqV) and a.kind == "array":
            return a
        if isinstance(b, SeqV) and b.kind == "array":
            return b
        return Opaque("binop", text)

    def compare(self, e, env, owner, mod):
        if len(e.ops) != 1:
            # a < b <= c  ==  (a < b) and (b <= c): every link is a fact
            terms = [e.left] + list(e.comparators)
            links = []
            for op_, l_, r_ in zip(e.ops, terms[:-1], terms[1:]):
                links.append(self.compare(ast.Compare(l_, [op_], [r_]), env, owner, mod))
            if any(isinstance(v, ConstV) and v.v is False for v in links):
                return ConstV(False)
            if all(isinstance(v, ConstV) and v.v is True for v in links):
                return ConstV(True)
            conds = [v for v in links if isinstance(v, tuple) and v and v[0] in ("cmp", "and", "or")]
            return ("and", conds) if conds else Opaque("chained compare")
        a = self.eval(e.left, env, owner, mod)
        b = self.eval(e.comparators[0], env, owner, mod)
        op = e.ops[0]
        if isinstance(op, (ast.Is, ast.IsNot)):
            if isinstance(b, ConstV) and b.v is None:
                if isinstance(a, ConstV):
                    r = a.v is None
                elif isinstance(a, (SeqV, IntV, StrV, LitList)):
                    r = False
                else:
                    return Opaque("is None")
                return ConstV(r if isinstance(op, ast.Is) else not r)
            return Opaque("is")
        if isinstance(op, (ast.Eq, ast.NotEq)):
            r = None
            if isinstance(a, StrV) and isinstance(b, StrV):
                r = a.s == b.s
            elif isinstance(a, IntV) and isinstance(b, IntV) and (a.lin - b.lin).is_const():
                r = (a.lin - b.lin).const == 0
            elif isinstance(a, ConstV) and isinstance(b, ConstV):
                r = a.v == b.v
            elif isinstance(a, Poly) and isinstance(b, StrV) and a.name:
                self.domains.setdefault(a.name, set()).add(b.s)
            if r is None:
                ia, ib = self.as_int(a), self.as_int(b)
                if ia is not None and ib is not None and not isinstance(a, ConstV) and not isinstance(b, ConstV):
                    return ("cmp", type(op).__name__, ia, ib)
                return Opaque("eq")
            return ConstV(r if isinstance(op, ast.Eq) else not r)
        if isinstance(op, (ast.In, ast.NotIn)):
            r = None
            if isinstance(b, LitList):
                if isinstance(a, StrV):
                    r = a.s in b.items
                elif isinstance(a, Poly) and a.name:
                    self.domains.setdefault(a.name, set()).update(x for x in b.items if isinstance(x, str))
                elif isinstance(a, IntV) and a.lin.is_const():
                    r = int(a.lin.const) in b.items
            if r is None:
                return Opaque("in")
            return ConstV(r if isinstance(op, ast.In) else not r)
        ia, ib = self.as_int(a), self.as_int(b)
        if ia is not None and ib is not None and not isinstance(a, SeqV) and not isinstance(b, SeqV):
            d = simplify(ib - ia, self.facts)
            if d.is_const():
                c = d.const
                r = {ast.Lt: c > 0, ast.LtE: c >= 0, ast.Gt: c < 0, ast.GtE: c <= 0}.get(type(op))
                if r is not None:
                    return ConstV(r)
            return ("cmp", type(op).__name__, ia, ib)
        return Opaque("compare")

    def _super_start(self, call, owner):
        """super(C, self) / super() -> class after which the MRO search starts"""
        if isinstance(call, ast.Call) and isinstance(call.func, ast.Name) and call.func.id == "super":
            if call.args:
                nm = pf.src(call.args[0])
                for m, c in self.mro:
                    if c.name == nm:
                        return c
                raise NotComparable("super(%s, ...) outside the MRO" % nm)
            return owner
        return None

    def eval_attr(self, e, env, owner, mod):
        if isinstance(e.value, ast.Name) and e.value.id == "self":
            return self.self_attr(e.attr)
        start = self._super_start(e.value, owner)
        if start is not None:
            return self.self_attr(e.attr, after=start)
        base = self.eval(e.value, env, owner, mod)
        if e.attr == "nfeat" and isinstance(base, (Opaque, Poly)):
            return IntV(Lin.atom("nfeat(%s)" % pf.src(e.value)))
        if e.attr in ("size",) and self.as_len(base) is not None:
            return IntV(self.as_len(base))
        if e.attr == "T" and isinstance(base, SeqV):
            return Opaque("transpose")
        return Opaque("attr", pf.src(e))

    def eval_call(self, e, env, owner, mod):
        f = e.func
        name = pf.call_name(e)
        args = []
        star = False
        for a in e.args:
            if isinstance(a, ast.Starred):
                star = True
            else:
                args.append(self.eval(a, env, owner, mod))
        kwargs = {k.arg: self.eval(k.value, env, owner, mod) for k in e.keywords if k.arg}
        # builtins / numpy
        if name == "len" and len(args) == 1:
            ln = self.as_len(args[0])
            return IntV(ln) if ln is not None else Opaque("len", pf.src(e))
        if name == "range" and not star:
            if len(args) == 1:
                n = self.as_int(args[0])
                if n is not None:
                    self.need_nonneg(n, pf.src(e))
                return SeqV(n, "range") if n is not None else Opaque("range", pf.src(e))
            if len(args) == 2:
                a, b = self.as_int(args[0]), self.as_int(args[1])
                if a is not None and b is not None and a.is_const() and a.const == 0:
                    return SeqV(b, "range")
            return Opaque("range", pf.src(e))
        if name == "zip" and not star and args:
            ls = [self.as_len(a) for a in args]
            if all(l is not None for l in ls):
                return SeqV(lmin(*ls), "list")
            return Opaque("zip", pf.src(e))
        if name in SEQ_PRESERVING and len(args) >= 1 and isinstance(args[0], DictView):
            return args[0] if name != "enumerate" else Opaque("enumerate(dict view)")
        if name in SEQ_PRESERVING and len(args) >= 1:
            ln = self.as_len(args[0])
            return SeqV(ln, "list") if ln is not None else Opaque(name, pf.src(e))
        if name == "sum" and len(e.args) == 1 and isinstance(e.args[0], (ast.GeneratorExp, ast.ListComp)):
            return self.comprehension(e.args[0], env, owner, mod, "sum")
        if name == "min" and len(args) >= 2:
            ls = [self.as_int(a) for a in args]
            if all(l is not None for l in ls):
                return IntV(lmin(*ls))
            return Opaque("min")
        if name == "hasattr" and len(args) == 2 and isinstance(e.args[0], ast.Name) and e.args[0].id == "self" \
                and isinstance(args[1], StrV):
            return ConstV(args[1].s in self.attrs or self.find_member(args[1].s) is not None)
        if name == "isinstance":
            return Opaque("isinstance")
        if name in ARRAY_PRESERVING and args:
            ln = self.as_len(args[0])
            return SeqV(ln, "array") if ln is not None else Opaque(name, pf.src(e))
        if name in ("np.append", "numpy.append") and len(args) == 2 and "axis" not in kwargs:
            la, lb = self.as_len(args[0]), self.as_len(args[1])
            if la is not None and lb is not None:
                return SeqV(la + lb, "array")
            return Opaque("np.append", pf.src(e))
        if name in ("np.concatenate", "np.hstack") and e.args and isinstance(e.args[0], (ast.List, ast.Tuple)) \
                and "axis" not in kwargs:
            tot = Lin.c(0)
            for el in e.args[0].elts:
                ln = self.as_len(self.eval(el, env, owner, mod))
                if ln is None:
                    return Opaque("concatenate", pf.src(el))
                tot = tot + ln
            return SeqV(tot, "array")
        if name in ("np.zeros", "np.ones", "np.empty") and args:
            n = self.as_int(args[0])
            if n is not None and not isinstance(args[0], SeqV):
                return SeqV(n, "array")
            return Opaque(name)
        # methods on values
        if isinstance(f, ast.Attribute):
            # explicit base-class call  ClassName.method(self, ...)
            if isinstance(f.value, ast.Name) and f.value.id != "self" and e.args \
                    and isinstance(e.args[0], ast.Name) and e.args[0].id == "self":
                r = self.prog.resolve_class(mod, f.value.id)
                if r is not None:
                    ms = pf.methods(r[1])
                    if f.attr in ms:
                        return self.call(ms[f.attr], r[1], r[0], kwargs, args[1:])
            if isinstance(f.value, ast.Name) and f.value.id == "self":
                r = self.find_member(f.attr)
                if r is not None and not self.is_property(r[2]):
                    if star:
                        raise NotComparable("starred call of self.%s" % f.attr)
                    return self.call(r[2], r[1], r[0], kwargs, args)
                return Opaque("call", pf.src(e)[:60])
            start = self._super_start(f.value, owner)
            if start is not None:
                r = self.find_member(f.attr, after=start)
                if r is None:
                    return ConstV(None)  # object.__init__ etc.
                return self.call(r[2], r[1], r[0], kwargs, args)
            base = self.eval(f.value, env, owner, mod)
            if f.attr in ("astype", "copy", "tolist", "flatten", "ravel") and self.as_len(base) is not None \
                    and isinstance(base, SeqV):
                return SeqV(base.len, "array" if f.attr != "tolist" else "list")
            if f.attr in SETTINGS_LEN_METHODS and isinstance(base, (Opaque, Poly)):
                # inductive hypothesis for a component settings object (checked per class)
                return SeqV(Lin.atom("nfeat(%s)" % pf.src(f.value)), "list")
            if f.attr in ("items", "keys", "values") and not args:
                dk = self.dict_key(base, f.value)
                if dk is not None:
                    return DictView(dk, f.attr)
                return Opaque("dict view", pf.src(e))
        if isinstance(f, ast.Name):
            if f.id in mod.functions and not star:
                return Opaque("module function", f.id)
            r = self.prog.resolve_class(mod, f.id)
            if r is not None:
                return Opaque("instance", f.id)
        return Opaque("call", pf.src(e)[:60])

    # -- statements ----------------------------------------------------------
    def block(self, stmts, env, rets, owner, mod):
        """execute; -> env after the block or None when no path falls through"""
        for st in stmts:
            env = self.stmt(st, env, rets, owner, mod)
            if env is None:
                return None
        return env

    def record_fact(self, cond, positive, text):
        if isinstance(cond, tuple) and cond and cond[0] in ("and", "or"):
            # a true conjunction / a false disjunction gives each member
            if (cond[0] == "and") == positive:
                for c in cond[1]:
                    self.record_fact(c, positive, text)
            return
        if not isinstance(cond, tuple) or cond[0] != "cmp":
            return
        _, op, a, b = cond
        if not positive:
            op = {"Lt": "GtE", "LtE": "Gt", "Gt": "LtE", "GtE": "Lt", "Eq": "NotEq", "NotEq": "Eq"}[op]
        if op == "LtE":
            self.facts.add_le(a, b, text)
        elif op == "Lt":
            self.facts.add_le(a + 1, b, text)
        elif op == "GtE":
            self.facts.add_le(b, a, text)
        elif op == "Gt":
            self.facts.add_le(b + 1, a, text)
        elif op == "Eq":
            self.facts.add_eq(a, b, text)

    def join_env(self, a, b):
        if a is None:
            return b
        if b is None:
            return a
        out = {}
        for k in set(a) | set(b):
            if k in a and k in b:
                out[k] = self.join_val(a[k], b[k], k)
            else:
                out[k] = a.get(k, b.get(k))
        return out

    def assign(self, target, val, env, owner, mod):
        if isinstance(target, ast.Name):
            env[target.id] = val
        elif pf.is_self_attr(target):
            self.attrs[target.attr] = val
        elif isinstance(target, (ast.Tuple, ast.List)):
            for i, el in enumerate(target.elts):
                if isinstance(val, ElemV) and not any(isinstance(x, ast.Starred) for x in target.elts):
                    sub = ElemV("%s[%d]" % (val.key, i))
                else:
                    sub = Opaque("unpacked")
                self.assign(el.value if isinstance(el, ast.Starred) else el, sub, env, owner, mod)
        elif isinstance(target, ast.Subscript):
            pass  # element store: length unchanged

    def stmt(self, st, env, rets, owner, mod):
        if isinstance(st, ast.Expr) and isinstance(st.value, ast.Yield):
            if st.value.value is not None:
                self.eval(st.value.value, env, owner, mod)
            cur = env.get("__yield__")
            env["__yield__"] = IntV(cur.lin + 1) if isinstance(cur, IntV) else Opaque("yield count")
            return env
        if isinstance(st, ast.Expr):
            v = st.value
            if isinstance(v, ast.Call) and isinstance(v.func, ast.Attribute) and v.func.attr in ("append", "extend"):
                tgt = v.func.value
                cur = None
                if isinstance(tgt, ast.Name) and tgt.id in env:
                    cur = env[tgt.id]
                elif pf.is_self_attr(tgt) and tgt.attr in self.attrs:
                    cur = self.attrs[tgt.attr]
                if isinstance(cur, ConflictV) and len(v.args) == 1 and v.func.attr == "append":
                    self.eval(v.args[0], env, owner, mod)
                    new = cur.shifted(1)
                    if isinstance(tgt, ast.Name):
                        env[tgt.id] = new
                    else:
                        self.attrs[tgt.attr] = new
                    return env
                if isinstance(cur, (SeqV, LitList)) and len(v.args) == 1:
                    ln = self.as_len(cur)
                    if v.func.attr == "append":
                        self.eval(v.args[0], env, owner, mod)
                        new = SeqV(ln + 1, "list")
                    else:
                        add = self.as_len(self.eval(v.args[0], env, owner, mod))
                        new = SeqV(ln + add, "list") if add is not None else Opaque("extend")
                    if isinstance(tgt, ast.Name):
                        env[tgt.id] = new
                    else:
                        self.attrs[tgt.attr] = new
                    return env
            self.eval(v, env, owner, mod)
            return env
        if isinstance(st, ast.Assign):
            val = self.eval(st.value, env, owner, mod)
            for t in st.targets:
                self.assign(t, val, env, owner, mod)
            return env
        if isinstance(st, ast.AnnAssign):
            if st.value is not None:
                self.assign(st.target, self.eval(st.value, env, owner, mod), env, owner, mod)
            return env
        if isinstance(st, ast.AugAssign):
            cur = self.eval(st.target, env, owner, mod) if isinstance(st.target, (ast.Name, ast.Attribute)) \
                else Opaque("aug")
            val = self.eval(st.value, env, owner, mod)
            new = self.binop(st.op, cur, val, pf.src(st))
            self.assign(st.target, new, env, owner, mod)
            return env
        if isinstance(st, ast.Return):
            rets.append(self.eval(st.value, env, owner, mod))
            return None
        if isinstance(st, ast.Raise):
            raise Raised(pf.src(st)[:80])
        if isinstance(st, ast.Assert):
            c = self.eval(st.test, env, owner, mod)
            t = self.truth(c) if not isinstance(c, tuple) else None
            if t is False:
                raise Raised("assert " + pf.src(st.test))
            if self.in_ctor:
                self.record_fact(c, True, "assert " + pf.src(st.test))
            return env
        if isinstance(st, ast.If):
            c = self.eval(st.test, env, owner, mod)
            t = self.truth(c) if not isinstance(c, tuple) else None
            if t is True:
                return self.block(st.body, env, rets, owner, mod)
            if t is False:
                return self.block(st.orelse, env, rets, owner, mod)
            outs = []
            died = []
            saved_attrs = dict(self.attrs)
            attr_outs = []
            for blk in (st.body, st.orelse):
                self.attrs = dict(saved_attrs)
                try:
                    outs.append(self.block(blk, dict(env), rets, owner, mod))
                    died.append(False)
                    attr_outs.append(self.attrs)
                except Raised:
                    outs.append(None)
                    died.append(True)
                    attr_outs.append(None)
            # a branch that always raises establishes the negation of its condition
            if self.in_ctor:
                if died[0] and not died[1]:
                    self.record_fact(c, False, "if %s: raise" % pf.src(st.test))
                elif died[1] and not died[0]:
                    self.record_fact(c, True, "if not (%s): raise" % pf.src(st.test))
            if all(died):
                raise Raised("both branches raise")
            live = [a for a in attr_outs if a is not None]
            saved_ctx = self._join_ctx
            self._join_ctx = (getattr(st, "lineno", "?"), pf.src(st.test)[:60])
            try:
                self.attrs = live[0]
                for other in live[1:]:
                    self.attrs = self.join_env(self.attrs, other)
                return self.join_env(outs[0], outs[1])
            finally:
                self._join_ctx = saved_ctx
        if isinstance(st, (ast.For, ast.AsyncFor)):
            return self.loop(st, env, rets, owner, mod)
        if isinstance(st, ast.While):
            for n in ast.walk(st):
                if isinstance(n, ast.Name) and isinstance(n.ctx, ast.Store):
                    env[n.id] = Opaque("assigned in while")
                if isinstance(n, ast.Return):
                    raise NotComparable("return inside while")
            return env
        if isinstance(st, ast.Try):
            before = dict(env)
            try:
                out = self.block(st.body, env, rets, owner, mod)
                if out is not None and st.orelse:
                    out = self.block(st.orelse, out, rets, owner, mod)
            except Raised:
                out = None
            for h in st.handlers:
                try:
                    ho = self.block(h.body, dict(before), rets, owner, mod)
                except Raised:
                    ho = None
                if ho is not None:
                    out = self.join_env(out, ho)
            if out is None:
                raise Raised("try block")
            if st.finalbody:
                out = self.block(st.finalbody, out, rets, owner, mod)
            return out
        if isinstance(st, ast.With):
            return self.block(st.body, env, rets, owner, mod)
        if isinstance(st, (ast.Pass, ast.Import, ast.ImportFrom, ast.Global, ast.Nonlocal, ast.Delete,
                           ast.FunctionDef, ast.ClassDef)):
            return env
        if isinstance(st, (ast.Break, ast.Continue)):
            if not self._loop_exits:
                raise NotComparable("break/continue outside a modelled loop")
            # this path leaves the iteration here: its accumulators are joined with the others at the loop end
            self._loop_exits[-1].append(("break" if isinstance(st, ast.Break) else "continue", dict(env),
                                         getattr(st, "lineno", "?")))
            return None
        raise NotComparable("statement %s" % type(st).__name__)

    def loop(self, st, env, rets, owner, mod):
        it = self.eval(st.iter, env, owner, mod)
        count = self.iter_count(it)
        # names and self attributes stored in the body
        stored = set()
        grown = set()
        for n in ast.walk(st):
            if isinstance(n, ast.Name) and isinstance(n.ctx, ast.Store):
                stored.add(n.id)
            if isinstance(n, ast.Call) and isinstance(n.func, ast.Attribute) and n.func.attr in ("append", "extend") \
                    and isinstance(n.func.value, ast.Name):
                grown.add(n.func.value.id)
            if isinstance(n, ast.Return):
                raise NotComparable("return inside a for loop")
        targets = set()
        for n in ast.walk(st.target):
            if isinstance(n, ast.Name):
                targets.add(n.id)
        # one symbolic iteration from a zeroed accumulator state
        body_env = dict(env)
        tracked = {}
        for name in (stored | grown) - targets:
            cur = env.get(name)
            if isinstance(cur, (SeqV, LitList)) and name in grown:
                tracked[name] = ("seq", self.as_len(cur))
                body_env[name] = SeqV(0, "list")
            elif isinstance(cur, IntV):
                tracked[name] = ("int", cur.lin)
                body_env[name] = IntV(0)
        if any(isinstance(n, ast.Yield) for n in ast.walk(st)) and isinstance(env.get("__yield__"), IntV):
            tracked["__yield__"] = ("int", env["__yield__"].lin)
            body_env["__yield__"] = IntV(0)
            stored = stored | {"__yield__"}
        for t in targets:
            body_env[t] = Opaque("loop variable", t)
        if isinstance(it, ElemV) and isinstance(st.target, ast.Name):
            body_env[st.target.id] = ElemV(it.key + "[*]")  # any element of that container
        dkey = None
        if isinstance(it, DictView):
            dkey = it.dkey
            tg = st.target
            if it.what == "keys" and isinstance(tg, ast.Name):
                body_env[tg.id] = ElemV("K<%s>" % dkey)
            elif it.what == "values" and isinstance(tg, ast.Name):
                body_env[tg.id] = ElemV("V<%s>" % dkey)
            elif it.what == "items" and isinstance(tg, ast.Tuple) and len(tg.elts) == 2:
                for el, kk in zip(tg.elts, ("K", "V")):
                    if isinstance(el, ast.Name):
                        body_env[el.id] = ElemV("%s<%s>" % (kk, dkey))
        saved_attrs = dict(self.attrs)
        self._loop_exits.append([])
        try:
            out = self.block(st.body, body_env, rets, owner, mod)
        except Raised:
            # the body raises on every path: only an empty iterable survives
            out = None
        exits = self._loop_exits.pop()
        broke = any(k == "break" for k, _, _ in exits)
        for kind_, env_x, line_x in exits:
            saved_ctx = self._join_ctx
            self._join_ctx = (line_x, kind_)
            try:
                out = self.join_env(out, env_x)
            finally:
                self._join_ctx = saved_ctx
        self.attrs = {k: (v if saved_attrs.get(k) == v else Opaque("attr changed in loop", k))
                      for k, v in self.attrs.items()}
        new_env = dict(env)
        for name in (stored | grown):
            if name in targets:
                new_env[name] = Opaque("loop variable", name)
                continue
            if out is None:
                continue
            if name in tracked and broke:
                new_env[name] = self.fresh_sym(name)  # the loop may stop early: the number of iterations is unknown
                continue
            if name in tracked:
                kind, base = tracked[name]
                after = out.get(name)
                delta = None
                if kind == "seq" and isinstance(after, ConflictV):
                    sym = self.fresh_sym(name)
                    self.conflicts[next(iter(sym.as_len.atoms()))] = {
                        "variable": name, "loop_line": getattr(st, "lineno", "?"),
                        "per_iteration": sorted(repr(l) for l in after.lens), "decided_by": list(after.notes)}
                    new_env[name] = sym
                    continue
                if kind == "seq" and isinstance(after, SeqV):
                    delta = simplify(after.len, self.facts)
                elif kind == "int" and isinstance(after, IntV):
                    delta = simplify(after.lin, self.facts)
                if delta is not None and not delta.uncertain() and count is not None and dkey is not None \
                        and any(loop_dependent(a, dkey) for a in delta.atoms()):
                    # sum over the items of the dict: linear, so each item-dependent atom becomes its own sum
                    tot = count.scale(delta.const)
                    okk = True
                    for a, c in delta.terms:
                        if isinstance(a, str) and loop_dependent(a, dkey):
                            tot = tot + Lin.atom("sum<%s>(%s)" % (dkey, a)).scale(c)
                        else:
                            okk = False  # item-independent symbol times a symbolic count: not linear
                    if okk:
                        new_env[name] = SeqV(base + tot, "list") if kind == "seq" else IntV(base + tot)
                        continue
                    new_env[name] = self.fresh_sym(name)
                    continue
                if delta is not None and not delta.uncertain() and count is not None:
                    if delta.is_const():
                        tot = count.scale(delta.const)
                    elif count.is_const():
                        tot = delta.scale(count.const)
                    else:
                        tot = None
                    if tot is not None:
                        new_env[name] = SeqV(base + tot, "list") if kind == "seq" else IntV(base + tot)
                        continue
                new_env[name] = self.fresh_sym(name)
            else:
                new_env[name] = Opaque("assigned in loop", name)
        if st.orelse:
            return self.block(st.orelse, new_env, rets, owner, mod)
        return new_env


# ----------------------------------------------------------------------------
# part 3: per-class driver
# ----------------------------------------------------------------------------
class Config:
    def __init__(self, fixed):
        self.fixed = fixed  # {ctor param: concrete string}
        self.rejected = None  # text when the constructor raises
        self.nfeat = None  # Lin
        self.lengths = {}  # method -> Lin | ('raises', text) | ('notcomparable', text)
        self.facts = None
        self.interp = None

    def label(self):
        if not self.fixed:
            return "any"
        return ",".join("%s=%r" % kv for kv in sorted(self.fixed.items()))


def construct(prog, mod, cls, fixed):
    """interpret the constructor chain symbolically -> (Interp, rejected_text|None)"""
    it = Interp(prog, mod, cls, fixed)
    r = it.find_member("__init__")
    it.in_ctor = True
    try:
        if r is not None:
            fn = r[2]
            args = []
            for a in fn.args.args[1:]:
                if a.arg in it.fixed:
                    fv = it.fixed[a.arg]
                    args.append(ConstV(fv) if isinstance(fv, bool) else StrV(fv))
                else:
                    args.append(Poly.sym(a.arg))
            try:
                it.call(fn, r[1], r[0], {}, args)
            except Raised as e:
                return it, str(e) or "raises"
    finally:
        it.in_ctor = False
    return it, None


def analyse_class(prog, mod, cls, methods=SETTINGS_LEN_METHODS, count_attr="nfeat", max_configs=24):
    """-> list of Config (one per assignment of the string-valued constructor parameters the
    constructor compares with literals, plus '<other>' for each)"""
    it0, rej0 = construct(prog, mod, cls, {})
    r = it0.find_member("__init__")
    params = [a.arg for a in r[2].args.args[1:]] if r is not None else []
    doms = {p: sorted(v) for p, v in it0.domains.items() if p in params and v}
    combos = [{}]
    for p, lits in sorted(doms.items()):
        combos = [dict(c, **{p: v}) for c in combos for v in lits + [OTHER]]
    if len(combos) > max_configs:
        raise NotComparable("%s: %d configurations" % (cls.name, len(combos)))
    out = []
    for fixed in combos:
        cfg = Config(fixed)
        if fixed:
            it, rej = construct(prog, mod, cls, fixed)
        else:
            it, rej = it0, rej0
        cfg.interp = it
        cfg.facts = it.facts
        if rej is not None:
            cfg.rejected = rej
            out.append(cfg)
            continue
        try:
            v = it.self_attr(count_attr)
            n = it.as_int(v)
            if n is None:
                raise NotComparable("%s is not an integer form: %r" % (count_attr, v))
            cfg.nfeat = simplify(n, it.facts)
        except Raised as e:
            cfg.nfeat = ("raises", str(e))
        except NotComparable as e:
            cfg.nfeat = ("notcomparable", str(e))
        for m in methods:
            rr = it.find_member(m)
            if rr is None:
                cfg.lengths[m] = ("notcomparable", "method not defined")
                continue
            try:
                if it.is_property(rr[2]):
                    v = it.self_attr(m)
                else:
                    v = it.call(rr[2], rr[1], rr[0], {}, [])
                ln = it.as_len(v)
                if isinstance(v, ConflictV):
                    cfg.lengths[m] = ("conflict", {"variable": "<returned list>", "loop_line": None,
                                                   "per_iteration": sorted(repr(l) for l in v.lens),
                                                   "decided_by": list(v.notes)})
                elif ln is None:
                    cfg.lengths[m] = ("notcomparable", "result has no length form: %r" % (v,))
                else:
                    cfg.lengths[m] = simplify(ln, it.facts)
            except Raised as e:
                cfg.lengths[m] = ("raises", str(e))
            except NotComparable as e:
                cfg.lengths[m] = ("notcomparable", str(e))
        out.append(cfg)
    return out
