#!/usr/bin/env python3
"""C09 -- results are independent of batching, blocking, call history and input aliasing.
Static rules (DESIGN.md §C09):

 batch-index      every subscript at the batch axis of an array allocated with the batch size (and the first
                  argument of make_rho) is the induction variable of an *enclosing* batch loop, a full slice,
                  or a literal protected by one of the un-batching idioms; stale loop variables and a batch
                  loop nested in a batch loop that ignores the outer element are reported
 cache-typestate  feature generators: a consume (get_potential / get_vxc_) is preceded, in the same batch
                  iteration and for the same spin slot, by its produce (get_features); the spin slot is
                  forwarded unchanged to the plan-level caches
 hidden-write     no API entry point writes a caller-provided array that is not an output buffer by the
                  repository's conventions (flow-sensitive alias analysis + interprocedural summaries)
 reinit           initialize_feature_generators compares every input of the generator constructor before
                  reusing the generator, records what it compared, and siblings prepare the new generator alike
 ctor-roundtrip   NLDFAuxiliaryPlan.new() feeds back attributes that still hold the raw constructor argument
 chunk-loop       KernelEvaluator.__call__ covers [0, N) chunk by chunk and accumulates with +=
 reinit-reset     reset()/build() of the numint mixin clear every generator kept across calls, and the Kohn-Sham
                  wrapper reaches those hooks on every path (the reuse tests are identity tests on objects that
                  PySCF modifies in place)
 cache-clobber    a method of a generator that is neither the producer nor the consumer of a produce/consume pair does not
                  refill (directly or through callees: slot-store summaries) the keyed caches the producer fills for the
                  consumer, unless it restores the slot or invalidates the consumer
 stale-identity   a kept generator built from mol / grids (objects PySCF rebuilds in place) is keyed on data derived
                  from them (derived objects' identity or a content snapshot), not on the identity of the container
 cache-mutate     an intermediate that one method saves on the object for a later one (self._cache[spin],
                  self._cached_ao_data, ...) is not updated in place by a reader, through any alias or view
 cache-alias      a value stored into keyed per-object state that outlives the call (self._cache[spin] = ...,
                  self._cached_p_i_qg[s].append(p), also through helper methods and returned values) does not
                  may-alias an instance-attribute buffer that later calls rewrite in place (one array per object,
                  passed as buffer=/vbuf=/out= or written through a view)
 kernel-input-write  hidden-write for ciderpress/models: kernels and DFTKernel do not mutate X, Y, alpha ...
 memo-invalidate  a memoised attribute (early `return self.M` + fill) is reset by every method that assigns an
                  attribute it was computed from
"""
import ast
import os
import sys

sys.path.insert(0, os.path.dirname(os.path.dirname(os.path.abspath(__file__))))
from sa import core, pyfacts as pf, cfg as cfgm, batch, effects, ksrules as ks  # noqa: E402
from sa import unroll  # noqa: E402
from sa.selftest import Mutant  # noqa: E402

PROP = "C09"
NUMINT = "ciderpress/pyscf/numint.py"
RKSG = "ciderpress/pyscf/rks_grad.py"
UKSG = "ciderpress/pyscf/uks_grad.py"
PLANS = "ciderpress/dft/plans.py"
SETTINGS = "ciderpress/dft/settings.py"
TD = "ciderpress/dft/transform_data.py"
FN = "ciderpress/dft/feat_normalizer.py"
XE = "ciderpress/dft/xc_evaluator.py"
XE2 = "ciderpress/dft/xc_evaluator2.py"
GEN = "ciderpress/dft/lcao_nldf_generator.py"
SDMX = "ciderpress/pyscf/sdmx.py"
KERNELS = "ciderpress/models/kernels.py"
DFTKERNEL = "ciderpress/models/dft_kernel.py"

INTEGRATORS = ["nr_rks", "nr_uks", "nr_rks_nldf", "nr_uks_nldf"]
GRADS = ["get_vxc", "get_vxc_nldf", "get_vxc_full_response", "get_vxc_nldf_full_response"]
BATCH_FUNCS = [(NUMINT, n) for n in INTEGRATORS] + [(RKSG, n) for n in GRADS] + [(UKSG, n) for n in GRADS]

# modules whose functions are summarised by the effect analysis
EFF_MODULES = [
    SETTINGS, PLANS, TD, FN, XE, XE2, GEN,
    "ciderpress/dft/lcao_interpolation.py", "ciderpress/dft/lcao_convolutions.py", "ciderpress/dft/baselines.py",
    "ciderpress/dft/grids_indexer.py", NUMINT, RKSG, UKSG, SDMX, "ciderpress/pyscf/nldf_convolutions.py",
    "ciderpress/pyscf/frac_lapl.py", "ciderpress/pyscf/dft.py", KERNELS, DFTKERNEL,
]
# every public function / public method of these modules is an API entry point
PUBLIC_API_MODULES = [SETTINGS, PLANS, TD, FN, XE, XE2, KERNELS, DFTKERNEL]
# private methods that are nevertheless evaluation entry points (called by sklearn / by the public methods
# with the caller's sample matrices)
EXTRA_ENTRY_PREFIXES = {KERNELS: ("_transform", "_get_k0", "_subset", "_index")}
# plus the observation points of the properties
EXPLICIT_API = [(NUMINT, n) for n in INTEGRATORS] + [(NUMINT, "CiderNumIntMixin.eval_xc_cider")] + \
    [(RKSG, n) for n in GRADS + ["get_veff"]] + [(UKSG, n) for n in GRADS + ["get_veff"]] + \
    [(GEN, "LCAONLDFGenerator." + n) for n in ("get_features", "get_potential", "get_features_and_occ_derivs")] + \
    [(SDMX, "EXXSphGenerator." + n) for n in ("get_features", "get_vxc_", "__call__")]

# The repository's output-buffer conventions: an optional `=None` buffer, or one of these names
# (frozen from the signatures on the pinned tree), or the first data argument of a function that
# has an explicit `inplace` switch.
OUT_NAMES = set("""out buf res dres feat dfeat vxc vmat vf f_gq f_uq dfdx dfdrho dfdinh xn y tdesc vbuf dbuf output
vrho vsigma vtau vrho_data vdrho vf_qg occd f_arlpq f1_uq theta_rlmq vxc_mat vmats buffers aow aow1 aow2 v1 excsum
e dedx vX0T p_uq vrho_tuple dfdX1 f_rlmq vf_gq""".split())
# names that are buffers only in functions named `..._` (the repo's in-place naming convention)
OUT_NAMES_INPLACE_FN = {"f"}


def _allocated_if_none(f, p):
    """`if p is None: p = <new array>` (also as an elif): the repo's optional-output-buffer idiom"""
    cache = f.__dict__.setdefault("_alloc_if_none", {})
    if p not in cache:
        ok = False
        for n in pf.walk_no_nested(f.node):
            if isinstance(n, ast.If) and isinstance(n.test, ast.Compare) and pf.src(n.test) == "%s is None" % p:
                ok = ok or any(isinstance(b, ast.Assign) and any(isinstance(t, ast.Name) and t.id == p for t in b.targets)
                               for b in n.body)
        cache[p] = ok
    return cache[p]


def is_buffer(f, p):
    if p in OUT_NAMES:
        return True
    # an optional `=None` parameter is an output buffer when the function allocates it itself if missing
    # (an optional *input*, e.g. l1tmp of SDMXBasePlan.get_vxc, is not)
    if p in f.default_none and _allocated_if_none(f, p):
        return True
    if f.node.name.endswith("_") and p in OUT_NAMES_INPLACE_FN:
        return True
    if "inplace" in f.all_params and p == f.first_data_param:
        return True
    return False


# ----------------------------------------------------------------------------
# rule 1: batch-index discipline
# ----------------------------------------------------------------------------
def batch_functions(tree):
    out = []
    for rel, name in BATCH_FUNCS:
        rel2, fn = ks.locate(tree, rel, name)
        out.append(batch.BatchFunction(fn, rel2))
    return out


def rule_batch_index(chk):
    bfs = batch_functions(chk.tree)
    chk.count("integrator / gradient functions analysed for batch discipline", len(bfs))
    for bf in bfs:
        chk.count("batch-indexed arrays", len(bf.arrays))
        chk.count("batch loops", len(bf.loops))
        batch.report(chk, "batch-index", bf)
    return bfs


# ----------------------------------------------------------------------------
# rule 2: per-density cache typestate
# ----------------------------------------------------------------------------
PRODUCE_CONSUME = [("nldfgen", "get_features", "get_potential"), ("sdmxgen", "get_features", "get_vxc_")]


def _spin_of(call):
    for k in call.keywords:
        if k.arg == "spin":
            return pf.src(k.value)
    return "0"


def _scope_of(node):
    return pf.enclosing_func(node)


def _batch_loops_around(bf, node, scope):
    out = []
    n = pf.parent(node)
    while n is not None and n is not scope:
        if isinstance(n, ast.For) and bf.induction_vars(n):
            out.append(n)
        if isinstance(n, (ast.ListComp, ast.GeneratorExp)):
            for g in n.generators:
                if bf._is_range_sym(g.iter):
                    out.append(g)
        n = pf.parent(n)
    return out


def rule_cache_typestate(chk, bfs):
    n_sites = 0
    for bf in bfs:
        fn, rel = bf.fn, bf.rel
        calls = {}
        for n in ast.walk(fn):
            if isinstance(n, ast.Call) and isinstance(n.func, ast.Attribute) and isinstance(n.func.value, ast.Attribute):
                for attr, prod, cons in PRODUCE_CONSUME:
                    if n.func.value.attr == attr and n.func.attr in (prod, cons):
                        key = (pf.src(n.func.value), _spin_of(n))
                        calls.setdefault(key, {"P": [], "C": []})["P" if n.func.attr == prod else "C"].append(n)
        for (recv, spin), pc in sorted(calls.items()):
            for c in pc["C"]:
                n_sites += 1
                scope = _scope_of(c)
                lc = _batch_loops_around(bf, c, scope)
                inst = "%s:%s %s.%s(spin=%s)" % (rel, fn.name, recv, c.func.attr, spin)
                # key by receiver / method / spin slot (+ ordinal), not by the names of local variables
                ordinal = sorted(pc["C"], key=lambda x: (x.lineno, x.col_offset)).index(c)
                construct = "%s(spin=%s)%s" % (pf.src(c.func), spin, "" if ordinal == 0 else " #%d" % (ordinal + 1))
                same_scope = [p for p in pc["P"] if _scope_of(p) is scope]
                if not same_scope:
                    chk.violation("cache-typestate", rel, fn.name, construct, c.lineno,
                                  "%s consumes the cache slot spin=%s of %s but no %s(..., spin=%s) call produces "
                                  "that slot in this function" % (c.func.attr, spin, recv,
                                                                  [x for x in PRODUCE_CONSUME if x[2] == c.func.attr][0][1],
                                                                  spin), instance=inst)
                    continue
                good, why = False, ""
                for p in same_scope:
                    lp = _batch_loops_around(bf, p, scope)
                    dom = _executes_before(p, c, scope)
                    same_iter = (lc[:1] == lp[:1]) if (lc or lp) else True
                    if lc and lp and lc[0] is not lp[0]:
                        same_iter = False
                    if dom and same_iter:
                        # same batch element?
                        pv = _batch_vars(bf, p)
                        cv = _batch_vars(bf, c)
                        if pv == cv:
                            good = True
                            break
                        why = "produce is called for batch element %s, consume for %s" % (sorted(pv), sorted(cv))
                    elif not dom:
                        why = why or "no %s call for this slot dominates it (consume may run first)" % p.func.attr
                    else:
                        unb = bf.unbatched_guard(c) if not lc else None
                        if not lc and lp and unb:
                            good = True
                            break
                        why = ("the produce `%s(...)` runs in the loop `%s` for *every* batch element before this "
                               "consume runs in %s: the generator keeps one cache per spin, so for %s > 1 every "
                               "element but the last is back-propagated through the cache of the last element" % (
                                   pf.src(p.func), batch.head_text(lp[0]) if lp else "<no loop>",
                                   ("the separate loop `%s`" % batch.head_text(lc[0])) if lc else "no batch loop",
                                   bf.sym))
                if good:
                    chk.ok("cache-typestate", inst)
                else:
                    chk.violation("cache-typestate", rel, fn.name, construct, c.lineno, why, instance=inst)
    chk.count("generator consume sites", n_sites)
    # spin slot forwarded unchanged to the plan-level caches
    gprog = pf.Program(chk.tree, [GEN])
    gmod = gprog.module(GEN)
    gcls = gmod.cls("LCAONLDFGenerator")
    for meth, callee in (("get_features", "eval_rho_full"), ("get_potential", "eval_vxc_full")):
        r = gprog.find_method(gmod, gcls, meth)
        if r is None:
            raise core.AnalysisError("LCAONLDFGenerator.%s not found (also not through the MRO)" % meth)
        fn = r[2]
        if "spin" not in [a.arg for a in fn.args.args]:
            raise core.AnalysisError("LCAONLDFGenerator.%s lost its spin parameter" % meth)
        # the method itself and the self-helpers it hands its spin slot to (one level of extraction)
        scopes = [(fn, "spin")]
        for n in pf.walk_no_nested(fn):
            if isinstance(n, ast.Call) and pf.is_self_attr(n.func):
                rr = gprog.find_method(gmod, gcls, n.func.attr)
                if rr is None:
                    continue
                hp = [a.arg for a in rr[2].args.args[1:]]
                name = None
                for i, a in enumerate(n.args):
                    if isinstance(a, ast.Name) and a.id == "spin" and i < len(hp):
                        name = hp[i]
                for k in n.keywords:
                    if isinstance(k.value, ast.Name) and k.value.id == "spin" and k.arg in hp:
                        name = k.arg
                scopes.append((rr[2], name))
        calls = [(n, nm) for f_, nm in scopes for n in pf.walk_no_nested(f_)
                 if isinstance(n, ast.Call) and isinstance(n.func, ast.Attribute) and n.func.attr == callee]
        if not calls:
            raise core.AnalysisError("LCAONLDFGenerator.%s no longer calls plan.%s" % (meth, callee))
        for c, nm in calls:
            kw = [k for k in c.keywords if k.arg == "spin"]
            inst = "%s:LCAONLDFGenerator.%s -> plan.%s(spin=spin)" % (GEN, meth, callee)
            if kw and nm is not None and pf.src(kw[0].value) == nm:
                chk.ok("cache-typestate", inst)
            else:
                chk.violation("cache-typestate", GEN, "LCAONLDFGenerator." + meth, "%s(...)" % pf.src(c.func), c.lineno,
                              "the generator's spin slot is not forwarded to plan.%s (found spin=%s): the plan-level "
                              "caches _cached_p_i_qg/_cached_l1_data of the two spin channels are mixed up" % (
                                  callee, pf.src(kw[0].value) if kw else "<default 0>"), instance=inst)
        # the generator's own per-spin cache is indexed by that same parameter
        subs = [(n, nm) for f_, nm in scopes for n in pf.walk_no_nested(f_)
                if isinstance(n, ast.Subscript) and pf.is_self_attr(n.value) and n.value.attr.startswith("_cache")]
        for s_, nm in subs:
            inst = "%s:LCAONLDFGenerator.%s %s" % (GEN, meth, pf.src(s_))
            if nm is not None and pf.src(s_.slice) == nm:
                chk.ok("cache-typestate", inst, nontrivial=False)
            else:
                chk.violation("cache-typestate", GEN, "LCAONLDFGenerator." + meth, pf.src(s_), s_.lineno,
                              "cache slot %s is not the slot of the `spin` argument" % pf.src(s_.slice), instance=inst)


def _chain(node, scope):
    out = [node]
    n = pf.parent(node)
    while n is not None and n is not scope:
        out.append(n)
        n = pf.parent(n)
    out.append(scope)
    return out


def _executes_before(p, c, scope):
    """Whenever control reaches `c`, `p` has been executed before it in the same activation: the statement
    holding p precedes the statement holding c in a common block, and every `if` between that block and p is
    an `if` whose (test, branch) also holds at c (same source text; the repo's guards test settings flags).
    Loops around p are assumed to run at least once."""
    cp, cc = _chain(p, scope), _chain(c, scope)
    ids_c = {id(x): k for k, x in enumerate(cc)}
    k = next((i for i, x in enumerate(cp) if id(x) in ids_c), None)
    if k is None or k == 0 or ids_c[id(cp[k])] == 0:
        return False
    anc = cp[k]
    sp, sc = cp[k - 1], cc[ids_c[id(anc)] - 1]
    if sp is sc:
        return (p.lineno, p.col_offset) < (c.lineno, c.col_offset)
    blocks = [getattr(anc, f) for f in ("body", "orelse", "finalbody") if isinstance(getattr(anc, f, None), list)]
    blk = next((b for b in blocks if any(x is sp for x in b) and any(x is sc for x in b)), None)
    if blk is None:
        return False
    if [i for i, x in enumerate(blk) if x is sp][0] >= [i for i, x in enumerate(blk) if x is sc][0]:
        return False
    have = set()
    for t, pol, _k in cfgm.conditions_at(c, stop=None):
        have.add((pf.src(t), pol))
    child = p
    for anc2 in cp[1:k]:
        if isinstance(anc2, ast.If):
            pol = any(child is x for x in anc2.body)
            if (pf.src(anc2.test), pol) not in have:
                return False
        elif isinstance(anc2, (ast.While, ast.Try)):
            return False
        child = anc2
    return True


def _batch_vars(bf, call):
    """induction variables used to select the batch element in the arguments of a generator call"""
    out = set()
    allv = set()
    for _, iv, _k in bf.loops:
        allv |= iv
    for a in list(call.args) + [k.value for k in call.keywords]:
        for n in ast.walk(a):
            if isinstance(n, ast.Subscript) and isinstance(n.value, ast.Name) and n.value.id in bf.arrays:
                e = bf._axis_index(n, bf.arrays[n.value.id])
                if isinstance(e, ast.Name):
                    out.add(e.id)
                elif isinstance(e, ast.Constant):
                    out.add(repr(e.value))
    return out


# ----------------------------------------------------------------------------
# rule 3: hidden writes to caller arrays
# ----------------------------------------------------------------------------
def api_entries(P):
    entries = {}
    for rel in PUBLIC_API_MODULES:
        for f in P.funcs.values():
            if f.rel != rel or f.outer is not None:
                continue
            nm = f.node.name
            if nm.startswith("_") and nm not in ("__call__", "__init__") and not nm.startswith(
                    EXTRA_ENTRY_PREFIXES.get(rel, ("\0",))):
                continue
            entries[f.key] = f
    for rel, q in EXPLICIT_API:
        rel2, node = ks.locate(P.tree, rel, q)
        f = P.funcs.get((rel2, pf.qualname(node)))
        if f is None:
            raise core.AnalysisError("API entry %s:%s is defined in %s, outside the analysed modules" % (rel, q, rel2))
        entries[f.key] = f
    return entries


def rule_hidden_write(chk):
    P = effects.EffProgram(chk.tree, [r for r in EFF_MODULES], is_buffer)
    for rel in EFF_MODULES:
        if rel not in P.prog.modules:
            raise core.AnalysisError("module %s of the effect analysis is absent" % rel)
    P.analyse_all()
    entries = api_entries(P)
    chk.count("functions summarised by the effect analysis", len(P.funcs))
    chk.count("API entry points", len(entries))
    chk.count("calls through untyped callables (assumed effect-free)", len(P.unresolved_calls))
    chk.extra["effect_fixpoint_rounds"] = P.rounds
    reach = {}
    for f in P.funcs.values():
        for r, ent in f.writes.items():
            if r not in f.all_params:
                continue
            for oid, weak in ent["origins"].items():
                reach.setdefault(oid, []).append((f, r, weak))
    reported = set()
    for oid, lst in sorted(reach.items()):
        o = P.origins[oid]
        api = [(f, r, weak) for f, r, weak in lst if f.key in entries]
        strong = [(f, r) for f, r, weak in api if not weak]
        construct = "%s: %s" % (o.param, o.text)
        where = "%s:%s:%s" % (o.func.rel, o.func.qual, o.line)
        what = ("parameter %r of %s is not an output buffer by the repository's conventions (no `=None` default, "
                "not one of the buffer names) but its storage is written by `%s`%s" % (
                    o.param, o.func.qual, o.text[:100], (" (" + o.detail + ")") if o.detail else ""))
        tname = o.stmt.target.id if (isinstance(o.stmt, ast.AugAssign) and isinstance(o.stmt.target, ast.Name)) else None
        if o.augname and o.param not in o.func.array_evidence and tname not in o.func.array_evidence:
            chk.note("hidden-write", where, "augmented assignment to the bare parameter %r (in place only if it is an "
                     "array; no evidence that it is): %s" % (o.param, o.text[:80]))
            continue
        if not strong:
            chk.note("hidden-write", where, what + "; not reached from an API entry point along resolved calls%s" % (
                " (only through by-name call edges: %s)" % ", ".join(sorted({f.qual for f, _, _ in api})[:3]) if api else ""))
            continue
        reported.add(oid)
        others = sorted({"%s(%s)" % (f.qual, r) for f, r in strong if f is not o.func})
        msg = what + ". Caller-visible at: " + ", ".join(
            (["%s(%s)" % (o.func.qual, o.param)] if o.func.key in entries else []) + others[:6])
        if others:
            f0, r0 = [(f, r) for f, r in strong if f is not o.func][0]
            pth = P.path(f0, r0, oid)
            if pth:
                msg += ". Example path: " + " -> ".join(pth)
        rid = "kernel-input-write" if o.func.rel.startswith("ciderpress/models/") else "hidden-write"
        chk.violation(rid, o.func.rel, o.func.qual, construct, o.line, msg,
                      instance="%s:%s %s" % (o.func.rel, o.func.qual, construct))
    # discharged obligations: every non-buffer parameter of every entry point that no origin reaches
    for key, f in sorted(entries.items()):
        for p in f.all_params:
            if p == f.self_name or (f.is_classmethod and f.params and p == f.params[0]):
                continue
            if is_buffer(f, p):
                continue
            ent = f.writes.get(p)
            bad = ent and any(oid in reported for oid in ent["origins"])
            if not bad:
                rid = "kernel-input-write" if f.rel.startswith("ciderpress/models/") else "hidden-write"
                chk.ok(rid, "%s:%s(%s) not written" % (f.rel, f.qual, p), nontrivial=p in f.array_evidence)
    rule_cache_alias(chk, P)
    rule_cache_mutate(chk, P)
    rule_cache_clobber(chk, P)
    return P


# ----------------------------------------------------------------------------
# rule cache-alias: values stored in keyed per-object state must not alias a reusable scratch buffer
# ----------------------------------------------------------------------------
def _related_classes(P, cls):
    mod = P._mod_of_class(cls)
    rel = [c for _, c in P.prog.mro(mod, cls)] if mod is not None else [cls]
    rel += [c for _, c in P.subclasses(cls)]
    return rel


def _scratch_writes(P, classes, attr):
    """(method, statement) pairs that rewrite, in place, the storage of instance attribute `attr` (not selected
    by a run-time key) in one of `classes`"""
    ids = {id(c) for c in classes}
    out = []
    for g in P.funcs.values():
        if g.cls is None or id(g.cls) not in ids:
            continue
        for r, texts in g.state.items():
            parts, key = effects.state_parts(r)
            strong = sorted(t for t in texts if not t.startswith("weak: "))
            if parts == (attr,) and (key is None or key.startswith("const:")) and strong:
                out.append((g, strong[0]))
    return out


def rule_cache_alias(chk, P):
    n_keyed = 0
    for f in sorted(P.funcs.values(), key=lambda x: x.key):
        if f.cls is None:
            continue
        flagged = set()
        for target, key, root, text, line, via in sorted(f.cache_events):
            parts, rkey = effects.state_parts(root)
            inst = "%s:%s %s[%s] <- %s" % (f.rel, f.qual, target, key, root)
            if rkey is not None and not rkey.startswith("const:"):
                chk.ok("cache-alias", inst + " (buffer selected by a run-time key)")
                continue
            weak = False
            if len(parts) == 1:
                classes = _related_classes(P, f.cls)
            elif len(parts) == 2:
                classes = []
                for c in P.attr_types(f.cls, parts[0]):
                    classes += _related_classes(P, c)
                if not classes:
                    weak = True
                    classes = [c for _, c in P.prog.all_classes()]
            else:
                chk.ok("cache-alias", inst + " (not decided)", nontrivial=False)
                continue
            sw = _scratch_writes(P, classes, parts[-1])
            if not sw:
                chk.ok("cache-alias", inst + " (attribute storage is never rewritten in place)")
                continue
            g, wtext = sw[0]
            own = [x for x in sw if "->" not in x[1]] or sw
            g, wtext = own[0]
            msg = ("`%s`%s stores, in the per-%s slot %s[%s] that outlives the call, a value that may alias the "
                   "instance buffer %s; that buffer is one array per object and is rewritten in place by later calls "
                   "(e.g. %s: `%s`), so the entries kept for different %s values share storage and the one stored "
                   "first is silently overwritten before it is consumed; store a copy" % (
                       text, (" (through %s)" % via) if via else "", key, target, key, root, g.qual, wtext[:80], key))
            if weak:
                chk.note("cache-alias", "%s:%s:%s" % (f.rel, f.qual, line), msg + " [buffer owner resolved by name only]")
                continue
            flagged.add((target, key))
            chk.violation("cache-alias", f.rel, f.qual, "%s[%s] <- %s" % (target, key, root), line, msg, instance=inst)
        for target, key, text in sorted(f.keyed_stores):  # noqa: B007
            n_keyed += 1
            if (target, key) not in flagged:
                chk.ok("cache-alias", "%s:%s keyed store %s[%s] @ %s" % (f.rel, f.qual, target, key, text[:60]))
    chk.count("stores into keyed per-object state", n_keyed)
    # the reusable scratch buffers the engine recognises today (the rule is vacuous without them)
    scratch = {}
    for g in P.funcs.values():
        if g.cls is None:
            continue
        for r, texts in g.state.items():
            parts, key = effects.state_parts(r)
            if len(parts) == 1 and (key is None or key.startswith("const:")) and any(
                    "->" not in t and not t.startswith("weak: ") for t in texts):
                scratch.setdefault((g.rel, g.cls.name, parts[0]), g)
    for (rel, cname, attr), g in sorted(scratch.items()):
        chk.ok("cache-alias", "%s:%s.%s is a per-object buffer rewritten in place (%s); no keyed state aliases it" % (
            rel, cname, attr, g.node.name))
    if len(scratch) < 3:
        raise core.AnalysisError("only %d per-object buffers rewritten in place are recognised (the generator's "
                                 "convolution buffers used to be): the cache-alias rule would pass vacuously" % len(scratch))
    chk.count("per-object buffers rewritten in place", len(scratch))


# ----------------------------------------------------------------------------
# rule 4: generator re-initialisation
# ----------------------------------------------------------------------------
REINIT_CLASSES = ["CiderNumIntMixin", "NLDFNumInt", "NLDFNLOFNumInt"]
REINIT_METHOD = "initialize_feature_generators"


def _cond_terms(fn, name="cond"):
    """`cond = A; cond = cond or B; cond = cond and C` -> (disjuncts, conjuncts) of the final value"""
    ors, ands = [], []
    for st in fn.body:
        if isinstance(st, ast.Assign) and len(st.targets) == 1 and isinstance(st.targets[0], ast.Name) \
                and st.targets[0].id == name:
            v = st.value
            if isinstance(v, ast.BoolOp) and isinstance(v.values[0], ast.Name) and v.values[0].id == name:
                (ors if isinstance(v.op, ast.Or) else ands).extend(v.values[1:])
            else:
                ors, ands = _split_or(v), []
    return ors, ands


def _split_or(t):
    """disjuncts that make the whole test true on their own (conjuncts that only restrict are dropped)"""
    if isinstance(t, ast.BoolOp) and isinstance(t.op, ast.Or):
        out = []
        for v in t.values:
            out += _split_or(v)
        return out
    if isinstance(t, ast.BoolOp) and isinstance(t.op, ast.And):
        out = []
        for v in t.values:
            if isinstance(v, ast.BoolOp) and isinstance(v.op, ast.Or):
                out += _split_or(v)
        return out
    return [t]


def _bool_locals(fn, test, _seen=None):
    """local names that take part in the boolean value of `test` (cond, sdmxgen_is_stale, ...), transitively"""
    seen = _seen if _seen is not None else set()
    for x in ast.walk(test):
        if isinstance(x, ast.Name) and isinstance(x.ctx, ast.Load) and x.id not in seen:
            defs = [st for st in pf.walk_no_nested(fn) if isinstance(st, ast.Assign) and len(st.targets) == 1
                    and isinstance(st.targets[0], ast.Name) and st.targets[0].id == x.id]
            if defs and x.id not in [a.arg for a in fn.args.args]:
                seen.add(x.id)
                for d in defs:
                    _bool_locals(fn, d.value, seen)
    return seen


def _bool_leaves(fn, test, depth=0):
    """the atomic tests a reuse condition is built from: and / or / not are opened, and a boolean local (also one
    accumulated with `c = c or x`) is replaced by the expressions assigned to it"""
    if isinstance(test, ast.BoolOp):
        out = []
        for v in test.values:
            out += _bool_leaves(fn, v, depth)
        return out
    if isinstance(test, ast.UnaryOp) and isinstance(test.op, ast.Not) and isinstance(test.operand, (ast.BoolOp, ast.Name)):
        return _bool_leaves(fn, test.operand, depth)
    if isinstance(test, ast.Name) and depth < 4 and test.id not in [a.arg for a in fn.args.args]:
        defs = [st for st in pf.walk_no_nested(fn) if isinstance(st, ast.Assign) and len(st.targets) == 1
                and isinstance(st.targets[0], ast.Name) and st.targets[0].id == test.id]
        out = []
        for d in defs:
            vals = d.value.values if isinstance(d.value, ast.BoolOp) else [d.value]
            for v in vals:
                if isinstance(v, ast.Name) and v.id == test.id:
                    continue  # the accumulator itself
                out += _bool_leaves(fn, v, depth + 1)
        if defs:
            return out
    return [test]


def _guarded_constructions(fn, params):
    """every `self.X = <call>(... method parameter ...)` of the method -> (assign, guarding If or None)"""
    out = []
    for n in pf.walk_no_nested(fn):
        if isinstance(n, ast.Assign) and len(n.targets) == 1 and pf.is_self_attr(n.targets[0]) \
                and isinstance(n.value, ast.Call):
            used = {x.id for a in list(n.value.args) + [k.value for k in n.value.keywords] for x in ast.walk(a)
                    if isinstance(x, ast.Name)} & set(params)
            if not used:
                continue
            guard = None
            p = pf.parent(n)
            child = n
            while p is not None and p is not fn:
                if isinstance(p, ast.If) and any(child is x for x in p.body):
                    guard = p
                    break
                if isinstance(p, (ast.For, ast.While, ast.Try, ast.With)):
                    guard = "unrecognised"
                    break
                child, p = p, pf.parent(p)
            out.append((n, guard, used))
    return out


# -- comparisons made by a reuse test, followed into the predicate helpers it calls ---------------------------
MUTABLE_IN_PLACE = {"mol", "grids"}   # PySCF rebuilds these objects in place (Mole.build/set_geom_, Grids.build)
CMP_CALLS = {"array_equal", "allclose", "array_equiv", "isclose"}


def _find_helper(mod, name):
    c = [pf.methods(cl)[name] for cl in mod.classes.values() if name in pf.methods(cl)]
    return c[0] if len(c) == 1 else None


def _expr_roots(e, env):
    """{(base name, first attribute or None, derived?)}: where the value of e comes from"""
    if e is None:
        return set()
    if isinstance(e, ast.Name):
        return set(env.get(e.id, {(e.id, None, False)}))
    if isinstance(e, (ast.Attribute, ast.Subscript)):
        out = set()
        for b, a, d in _expr_roots(e.value, env):
            attr = a if a is not None else (e.attr if isinstance(e, ast.Attribute) else None)
            out.add((b, attr, True))
        return out
    if isinstance(e, ast.Call):
        out = set()
        for x in list(e.args) + [k.value for k in e.keywords]:
            out |= _expr_roots(x, env)
        if isinstance(e.func, ast.Attribute):
            out |= _expr_roots(e.func.value, env)
        return out
    if isinstance(e, (ast.Tuple, ast.List)):
        out = set()
        for x in e.elts:
            out |= _expr_roots(x, env)
        return out
    if isinstance(e, ast.Starred):
        return _expr_roots(e.value, env)
    return set()


def _local_env(fn, env0):
    """flow-insensitive roots of the locals of a (small) predicate helper"""
    env = dict(env0)
    for _ in range(3):
        for n in pf.walk_no_nested(fn):
            if isinstance(n, ast.Assign) and len(n.targets) == 1:
                t, v = n.targets[0], n.value
                if isinstance(t, ast.Name):
                    env[t.id] = env.get(t.id, set()) | _expr_roots(v, env)
                elif isinstance(t, ast.Tuple):
                    vs = v.elts if isinstance(v, ast.Tuple) and len(v.elts) == len(t.elts) else [v] * len(t.elts)
                    for a, b in zip(t.elts, vs):
                        if isinstance(a, ast.Name):
                            env[a.id] = env.get(a.id, set()) | _expr_roots(b, env)
            elif isinstance(n, ast.For):
                it = n.iter
                tg = n.target.elts if isinstance(n.target, ast.Tuple) else [n.target]
                if isinstance(it, ast.Call) and pf.call_name(it) == "zip" and len(it.args) == len(tg):
                    srcs = it.args
                else:
                    srcs = [it] * len(tg)
                for a, b in zip(tg, srcs):
                    if isinstance(a, ast.Name):
                        env[a.id] = env.get(a.id, set()) | {(x, y, True) for x, y, _d in _expr_roots(b, env)}
    return env


def _compares(mod, expr, env, depth=0):
    """[(roots of one side, roots of the other side, node)] of every comparison `expr` evaluates, also inside the
    predicate helpers (self._mol_changed(mol), self._nldfgen_is_stale(...)) it calls"""
    out = []
    for n in ast.walk(expr):
        if isinstance(n, ast.Compare) and len(n.ops) == 1:
            out.append((_expr_roots(n.left, env), _expr_roots(n.comparators[0], env), n))
        elif isinstance(n, ast.Call) and (pf.call_name(n) or "").split(".")[-1] in CMP_CALLS and len(n.args) >= 2:
            out.append((_expr_roots(n.args[0], env), _expr_roots(n.args[1], env), n))
        elif isinstance(n, ast.Call) and pf.is_self_attr(n.func) and depth < 3:
            h = _find_helper(mod, n.func.attr)
            if h is None:
                continue
            hp = [a.arg for a in h.args.args[1:]]
            henv = {"self": {("self", None, False)}}
            for i, a in enumerate(n.args):
                if i < len(hp):
                    henv[hp[i]] = _expr_roots(a, env)
            for k in n.keywords:
                if k.arg in hp:
                    henv[k.arg] = _expr_roots(k.value, env)
            henv = _local_env(h, henv)
            for st in pf.walk_no_nested(h):
                if isinstance(st, (ast.If, ast.While)):
                    out += _compares(mod, st.test, henv, depth + 1)
                elif isinstance(st, ast.Return) and st.value is not None:
                    out += _compares(mod, st.value, henv, depth + 1)
                elif isinstance(st, ast.Assign):
                    out += [c for c in _compares(mod, st.value, henv, depth + 1)]
    return out


def _reinit_definitions(prog, mod):
    """-> [(class defining the method, fn, [super() chains: the definitions that follow it in the MRO of each
    class through which it is reached])]; definitions are found through the MRO, so moving the method into a
    mixin / base class changes nothing"""
    defs = {}
    order = []
    allc = list(prog.all_classes())
    # super() is resolved in the MRO of the classes that are actually instantiated: the leaves of the hierarchy
    # (a mixin on its own has no next class)
    leaves = [(m2, K) for m2, K in allc
              if not any(c2 is not K and any(cc is K for _, cc in prog.mro(m3, c2)) for m3, c2 in allc)]
    for m2, K in leaves:
        chain = [(c, pf.methods(c)[REINIT_METHOD]) for _, c in prog.mro(m2, K) if REINIT_METHOD in pf.methods(c)]
        for i, (c, fn) in enumerate(chain):
            if id(fn) not in defs:
                defs[id(fn)] = (c, fn, [])
                order.append(id(fn))
            rest = [f for _, f in chain[i + 1:]]
            if rest not in defs[id(fn)][2]:
                defs[id(fn)][2].append(rest)
    return [defs[k] for k in order]


def _inlined_definitions(prog, mod):
    """the definitions with the private helper methods they call as statements inlined (the generator may be built
    in `_initialize_nldf_generator`); predicate helpers inside conditions stay calls and are followed by _compares"""
    from sa import hinline
    defs = _reinit_definitions(prog, mod)
    allc = list(prog.all_classes())
    inl = {}
    for cls, fn, _ch in defs:
        ctx = next((K for _m, K in allc if not any(
            c2 is not K and any(cc is K for _, cc in prog.mro(m3, c2)) for m3, c2 in allc)
            and any(cc is cls for _, cc in prog.mro(_m, K))), cls)
        inl[id(fn)] = hinline.inline_helpers(fn, hinline.class_resolver(prog, mod, ctx), depth=2)
    return [(cls, inl[id(fn)], [[inl.get(id(f), f) for f in ch] for ch in chains]) for cls, fn, chains in defs]


def rule_reinit(chk):
    prog = pf.Program(chk.tree, [NUMINT])
    mod = prog.module(NUMINT)
    definitions = _inlined_definitions(prog, mod)
    if not definitions:
        raise core.AnalysisError("no class of %s defines %s" % (NUMINT, REINIT_METHOD))
    chk.count("definitions of initialize_feature_generators", len(definitions))
    info = {}
    seen_attrs = set()
    for cls, fn, chains in definitions:
        cname = cls.name
        params = [a.arg for a in fn.args.args[1:]]
        fq = "%s.%s" % (cname, REINIT_METHOD)
        cons = _guarded_constructions(fn, params)
        for asg, guard, used in cons:
            gen_attr = asg.targets[0].attr
            seen_attrs.add(gen_attr)
            ctor_src = pf.src(asg.value.func)
            if guard is None:
                chk.ok("reinit", "%s:%s self.%s is rebuilt on every call" % (NUMINT, fq, gen_attr), nontrivial=False)
                continue
            if guard == "unrecognised":
                raise core.AnalysisError("%s: construction of self.%s inside a loop/try/with is not a recognised shape"
                                         % (fq, gen_attr))
            ors, ands, cond_names = _bool_leaves(fn, guard.test), [], _bool_locals(fn, guard.test)
            if not ors:
                raise core.AnalysisError("%s: reuse condition of self.%s not understood: %s" % (
                    fq, gen_attr, pf.src(guard.test)))
            # (a) every constructor input is compared with recorded state (also inside predicate helpers)
            compared = {}
            derived_cmp = set()
            state_reads = set()
            env0 = {"self": {("self", None, False)}}
            for p_ in params:
                env0[p_] = {(p_, None, False)}
            cmps = []
            for t in ors + ands:
                cmps += _compares(mod, t, env0)
            none_test = False
            for ra, rb, node in cmps:
                for a_, b_ in ((ra, rb), (rb, ra)):
                    selfs = [x for x in a_ if x[0] == "self"]
                    for x in selfs:
                        if x[1]:
                            state_reads.add(x[1])
                    for pb in b_:
                        if pb[0] in params and selfs:
                            compared.setdefault(pb[0], set()).update(x[1] for x in selfs if x[1])
                            if pb[2]:
                                derived_cmp.add(pb[0])
                if isinstance(node, ast.Compare) and isinstance(node.comparators[0], ast.Constant) \
                        and node.comparators[0].value is None and pf.is_self_attr(node.left, gen_attr):
                    none_test = True
            for p in sorted(used):
                inst = "%s:%s reuse of self.%s compares %s" % (NUMINT, fq, gen_attr, p)
                if p in compared:
                    chk.ok("reinit", inst)
                else:
                    chk.violation("reinit", NUMINT, fq, "reuse condition of self.%s: %s" % (gen_attr, p), guard.lineno,
                                  "self.%s is built by `%s(...)` from (%s) but is kept across calls under a condition "
                                  "that never compares %r with the value the object was built for (rebuilt only when: "
                                  "%s): a later call with a different %s silently reuses the stale object" % (
                                      gen_attr, ctor_src, ", ".join(sorted(used)), p,
                                      " or ".join(pf.src(t) for t in ors), p), instance=inst)
            if none_test:
                chk.ok("reinit", "%s:%s first use of self.%s" % (NUMINT, fq, gen_attr), nontrivial=False)
            else:
                chk.violation("reinit", NUMINT, fq, "self.%s is None" % gen_attr, guard.lineno,
                              "the reuse condition does not test `self.%s is None`" % gen_attr)
            # (a'') a kept object built from a container that PySCF modifies in place is keyed on data derived from it
            for p in sorted(used & MUTABLE_IN_PLACE):
                inst = "%s:%s reuse of self.%s is keyed on data derived from %s" % (NUMINT, fq, gen_attr, p)
                if p not in compared:
                    continue  # already reported above
                if p in derived_cmp:
                    chk.ok("stale-identity", inst)
                else:
                    chk.violation("stale-identity", NUMINT, fq, "reuse condition of self.%s: identity of %s" % (gen_attr, p),
                                  guard.lineno,
                                  "self.%s is built from %s (`%s(%s)`) and kept across calls, but the reuse test only "
                                  "compares the %s object itself (%s); PySCF rebuilds this object IN PLACE (%s), so the "
                                  "test never fires and the generator built for the old contents is reused. Key it on "
                                  "the derived data (identity of the derived objects or a snapshot of the contents)" % (
                                      gen_attr, p, ctor_src, ", ".join(pf.src(a) for a in asg.value.args), p,
                                      " or ".join(sorted({pf.src(n_) for _a, _b, n_ in cmps if any(x[0] == p for x in _a | _b)}))[:120],
                                      "mol.set_geom_ / mol.build change _atm/_bas/_env" if p == "mol" else
                                      "grids.build() creates a new grids_indexer and new coords"), instance=inst)
            # (a') the reuse test is evaluated on the state left by the PREVIOUS call: nothing it reads may be
            # (re)assigned, directly or through the super() chain / a self-helper, before it is evaluated
            evals = [guard] + [st for st in pf.walk_no_nested(fn) if isinstance(st, ast.Assign) and len(st.targets) == 1
                               and isinstance(st.targets[0], ast.Name) and st.targets[0].id in cond_names]
            g_cfg = cfgm.CFG(fn)
            for ev_st in evals:
                expr = ev_st.test if isinstance(ev_st, ast.If) else ev_st.value
                reads = {x.attr for x in ast.walk(expr) if pf.is_self_attr(x) and isinstance(x.ctx, ast.Load)
                         and not isinstance(pf.parent(x), ast.Call)}
                if any(isinstance(x, ast.Call) and pf.is_self_attr(x.func) for x in ast.walk(expr)):
                    reads |= state_reads
                reads = sorted(reads)
                en = g_cfg.node_of(ev_st)
                if en is None:
                    raise core.AnalysisError("%s: cannot place the reuse test in the CFG" % fq)
                for attr in reads:
                    inst = "%s:%s reuse test of self.%s reads self.%s as left by the previous call" % (
                        NUMINT, fq, gen_attr, attr)
                    culprit = None
                    for n in g_cfg.nodes:
                        if n.ast is None or n.id == en.id or n.kind not in ("stmt",) or isinstance(n.ast, ast.Try):
                            continue
                        if attr == gen_attr and isinstance(n.ast, ast.Assign) and isinstance(n.ast.value, ast.Constant) \
                                and n.ast.value.value is None:
                            continue  # dropping the object forces a rebuild: the safe direction
                        if _may_assign(mod, fn, n.ast, attr, chains) and en.id in g_cfg.reachable(n.id):
                            culprit = n.ast
                            break
                    if culprit is None:
                        chk.ok("reinit", inst)
                    else:
                        chk.violation("reinit", NUMINT, fq, "self.%s assigned before the reuse test of self.%s" % (attr, gen_attr),
                                      culprit.lineno,
                                      "`%s` (re)assigns self.%s before the reuse condition `%s` is evaluated, so the "
                                      "condition compares the new value with itself instead of with the state of the "
                                      "previous call: a changed %s is never detected and the stale self.%s is reused" % (
                                          batch.head_text(culprit)[:80], attr, pf.src(expr)[:80], attr, gen_attr),
                                      instance=inst)
            # (b) what was compared is recorded on every normal path (here or in the super() chain)
            for p, attrs in sorted(compared.items()):
                for attr in sorted(attrs):
                    if attr == gen_attr:
                        continue  # state kept inside the object itself (self.<gen>.plan.nspin)
                    inst = "%s:%s records self.%s = %s" % (NUMINT, fq, attr, p)
                    if all(_assigns_on_all_paths(mod, fn, attr, p, ch) for ch in chains):
                        chk.ok("reinit", inst)
                    else:
                        chk.violation("reinit", NUMINT, fq, "self.%s = %s" % (attr, p), fn.lineno,
                                      "the reuse condition compares self.%s with %s, but self.%s is not updated on every "
                                      "path of this method (nor by the super() call): the comparison is made against a "
                                      "stale or never-set value, so a changed %s is not (or always) detected" % (
                                          attr, p, attr, p), instance=inst)
            # (b') what is recorded for the test is also compared by it: a snapshot `self.A = (p.x, p.y, p.z)` read by
            # the reuse test must have every recorded component of p compared, else a change confined to the
            # uncompared component is never noticed
            cmp_attrs = {}
            for ra, rb, _node in cmps:
                for side in (ra, rb):
                    for b_, a_, d_ in side:
                        if b_ in params and d_ and a_:
                            cmp_attrs.setdefault(b_, set()).add(a_)
            rec_attrs = {}
            for f2 in [fn] + [f3 for ch in chains for f3 in ch]:
                for n_ in pf.walk_no_nested(f2):
                    if isinstance(n_, ast.Assign) and any(pf.is_self_attr(t_) and t_.attr in state_reads
                                                          and t_.attr != gen_attr for t_ in n_.targets):
                        tattr = [t_.attr for t_ in n_.targets if pf.is_self_attr(t_)][0]
                        for x in ast.walk(n_.value):
                            if isinstance(x, ast.Attribute) and isinstance(x.value, ast.Name) and x.value.id in params:
                                rec_attrs.setdefault((x.value.id, tattr), set()).add(x.attr)
            for (p, tattr), rec in sorted(rec_attrs.items()):
                if p not in used or p not in cmp_attrs:
                    continue
                missing = sorted(rec - cmp_attrs[p])
                inst = "%s:%s reuse test of self.%s compares every component of %s recorded in self.%s" % (
                    NUMINT, fq, gen_attr, p, tattr)
                if missing:
                    chk.violation("reinit", NUMINT, fq, "self.%s records %s.%s that the reuse test of self.%s never compares" % (
                        tattr, p, "/".join(missing), gen_attr), guard.lineno,
                        "the snapshot self.%s records %s of %s, the reuse test compares only %s: a change of %s.%s alone "
                        "(same %s) is never detected and the stale self.%s is reused" % (
                            tattr, ", ".join(sorted(rec)), p, ", ".join(sorted(cmp_attrs[p])), p, "/".join(missing),
                            ", ".join(sorted(cmp_attrs[p])), gen_attr), instance=inst)
                else:
                    chk.ok("reinit", inst)
            follow = [st.value for st in guard.body if isinstance(st, ast.Expr) and isinstance(st.value, ast.Call)
                      and pf.base_name(st.value.func) == "self"]
            info[(cname, gen_attr)] = (gen_attr, ctor_src, follow, fn)
    for need in ("sdmxgen", "nldfgen"):
        if need not in seen_attrs:
            raise core.AnalysisError("no %s constructs self.%s any more: the generator keyed on (mol, grids, nspin) "
                                     "is not where the rule looks" % (REINIT_METHOD, need))
    # (c) siblings that build the same object with the same initializer prepare it alike
    groups = {}
    for (cname, gen_attr), (_g, ctor_src, follow, fn) in info.items():
        groups.setdefault((gen_attr, ctor_src), []).append(cname)
    for (gen_attr, ctor_src), names in sorted(groups.items()):
        if len(names) < 2:
            chk.ok("reinit", "%s: self.%s has a single constructing class %s" % (NUMINT, gen_attr, names[0]),
                   nontrivial=False)
            continue
        allcalls = {}
        for n in names:
            for c in info[(n, gen_attr)][2]:
                allcalls.setdefault(pf.src(c.func), []).append(n)
        for callsrc, have in sorted(allcalls.items()):
            for n in names:
                inst = "%s:%s.%s prepares new self.%s with %s" % (NUMINT, n, REINIT_METHOD, gen_attr, callsrc)
                if n in have:
                    chk.ok("reinit", inst)
                else:
                    chk.violation("reinit", NUMINT, "%s.%s" % (n, REINIT_METHOD),
                                  "missing %s(...) after %s(...)" % (callsrc, ctor_src), info[(n, gen_attr)][3].lineno,
                                  "sibling class(es) %s call `%s(...)` on the freshly built self.%s; %s builds the "
                                  "same generator with the same initializer and never does, so its interpolator has "
                                  "no grid coordinates for the new grids" % (", ".join(have), callsrc, gen_attr, n),
                                  instance=inst)


def rule_reinit_reset(chk):
    """The reuse conditions compare mol / grids by identity, and PySCF moves atoms and rebuilds grids *in place*;
    what invalidates the generators after such a change is the reset()/build() chain.  So: (i) the numint
    reset/build hooks clear every generator attribute that initialize_feature_generators keeps across calls, on
    every path; (ii) the Kohn-Sham wrapper's reset/build reach the numint hook on every path."""
    prog0 = pf.Program(chk.tree, [NUMINT])
    kept = set()
    for cls, fn, _chains in _inlined_definitions(prog0, prog0.module(NUMINT)):
        for asg, guard, used in _guarded_constructions(fn, [a.arg for a in fn.args.args[1:]]):
            if guard is not None:
                kept.add(asg.targets[0].attr)
    if len(kept) < 2:
        raise core.AnalysisError("expected at least the sdmx and nldf generators to be kept across calls, found %s" % sorted(kept))
    prog = pf.Program(chk.tree, [NUMINT])
    # the hooks as seen by the concrete integrator classes (resolved through the MRO)
    concrete = [(m2, c) for m2, c in prog.all_classes()
                if any(REINIT_METHOD in pf.methods(cc) for _, cc in prog.mro(m2, c))]
    hooks = {}
    for m2, c in concrete:
        for hook in ("reset", "build"):
            r = prog.find_method(m2, c, hook)
            if r is not None:
                hooks.setdefault((hook, id(r[2])), (r[1], r[2], m2, c))
    if not any(h == "reset" for h, _ in hooks):
        raise core.AnalysisError("no reset() hook found on the integrator classes of %s" % NUMINT)

    def clears(fn, attr, owner_mod, owner_cls, depth=0):
        g = cfgm.CFG(fn)

        def pred(n):
            st = n.ast
            if n.kind != "stmt" or st is None:
                return False
            if isinstance(st, ast.Assign):
                if isinstance(st.value, ast.Constant) and st.value.value is None \
                        and any(pf.is_self_attr(t, attr) for t in st.targets):
                    return True
                if isinstance(st.value, ast.Tuple) and len(st.targets) == 1 and isinstance(st.targets[0], ast.Tuple):
                    for t, v in zip(st.targets[0].elts, st.value.elts):
                        if pf.is_self_attr(t, attr) and isinstance(v, ast.Constant) and v.value is None:
                            return True
            if isinstance(st, ast.Expr) and isinstance(st.value, ast.Call) and isinstance(st.value.func, ast.Attribute) \
                    and depth < 2:
                f_ = st.value.func
                if pf.is_self_attr(f_) or (isinstance(f_.value, ast.Call) and pf.src(f_.value.func) == "super"):
                    r = prog.find_method(owner_mod, owner_cls, f_.attr)
                    if r is not None and r[2] is not fn:
                        return clears(r[2], attr, owner_mod, owner_cls, depth + 1)
            return False
        ok, _w = g.must_pass(pred)
        return ok

    for (hook, _id), (dcls, fn, m2, c) in sorted(hooks.items(), key=lambda x: (x[0][0], x[1][0].name)):
        for attr in sorted(kept):
            inst = "%s:%s.%s clears self.%s on every path" % (NUMINT, dcls.name, hook, attr)
            if clears(fn, attr, m2, c):
                chk.ok("reinit-reset", inst)
            else:
                chk.violation("reinit-reset", NUMINT, "%s.%s" % (dcls.name, hook), "self.%s = None" % attr, fn.lineno,
                              "self.%s is kept across calls by %s and is only compared by identity with mol/grids; "
                              "%s() does not set it to None on every path, so after an in-place geometry change the "
                              "stale generator is reused" % (attr, REINIT_METHOD, hook), instance=inst)
    DFT = "ciderpress/pyscf/dft.py"
    dprog = pf.Program(chk.tree, [DFT])
    dm = dprog.module(DFT)
    ks_cls = dm.cls("_CiderKS")
    for hook in ("reset", "build"):
        r = dprog.find_method(dm, ks_cls, hook)
        if r is None:
            raise core.AnalysisError("_CiderKS.%s not found (also not through the MRO)" % hook)
        fn = r[2]
        inst = "%s:_CiderKS.%s reaches self._numint.%s on every path" % (DFT, hook, hook)

        def reaches(f_, h=hook, depth=0):
            g = cfgm.CFG(f_)

            def is_hook(n):
                if n.kind != "stmt" or n.ast is None:
                    return False
                for c_ in ast.walk(n.ast):
                    if isinstance(c_, ast.Call) and pf.src(c_.func) == "self._numint.%s" % h:
                        return True
                    if isinstance(c_, ast.Call) and pf.is_self_attr(c_.func) and depth < 1:
                        rr = dprog.find_method(dm, ks_cls, c_.func.attr)
                        if rr is not None and rr[2] is not f_ and reaches(rr[2], h, depth + 1):
                            return True
                return False
            ok_, _w = g.must_pass(is_hook)
            return ok_
        if reaches(fn):
            chk.ok("reinit-reset", inst)
        else:
            chk.violation("reinit-reset", DFT, "_CiderKS.%s" % hook, "self._numint.%s(...)" % hook, fn.lineno,
                          "a path through _CiderKS.%s returns without calling self._numint.%s(...): the feature "
                          "generators (reused when `self.mol != mol` / `self.grids != grids` are false, i.e. for the "
                          "same, in-place modified objects) survive a geometry or basis change and energies / forces "
                          "are computed with the old atom positions and grids" % (hook, hook), instance=inst)


def _may_assign(mod, fn, st, attr, chains, _depth=0):
    """statement `st` of `fn` may (re)bind self.attr: directly, through super().<same method>() in one of the MRO
    contexts, or through a self-helper"""
    for n in ast.walk(st):
        tg = n.targets if isinstance(n, ast.Assign) else ([n.target] if isinstance(n, (ast.AugAssign, ast.AnnAssign)) else [])
        for t in tg:
            for x in (t.elts if isinstance(t, (ast.Tuple, ast.List)) else [t]):
                if pf.is_self_attr(x, attr):
                    return True
        if isinstance(n, ast.Call) and isinstance(n.func, ast.Attribute) and _depth < 3:
            recv = n.func.value
            if isinstance(recv, ast.Call) and pf.src(recv.func) == "super" and n.func.attr == fn.name:
                for ch in chains:
                    if ch and any(_may_assign(mod, ch[0], s2, attr, [ch[1:]], _depth + 1) for s2 in ch[0].body):
                        return True
            elif isinstance(recv, ast.Name) and recv.id == "self":
                for c in mod.classes.values():
                    h = pf.methods(c).get(n.func.attr)
                    if h is not None and h is not fn and any(_may_assign(mod, h, s2, attr, [], _depth + 1) for s2 in h.body):
                        return True
    return False


def _assigns_on_all_paths(mod, fn, attr, param, chain, _depth=0):
    """every normal path of fn executes `self.attr = param`, itself, through the super() chain (`chain`: the
    definitions that follow in the MRO), or through a self-helper it calls with the parameter"""
    g = cfgm.CFG(fn)

    def is_assign(n):
        st = n.ast
        if n.kind != "stmt":
            return False
        if isinstance(st, ast.Assign) and any(pf.is_self_attr(t, attr) for t in st.targets):
            if any(isinstance(x, ast.Name) and x.id == param for x in ast.walk(st.value)):
                return True
            # `if p is None: self.attr = None`: the recorded state still follows the parameter
            if isinstance(st.value, ast.Constant) and st.value.value is None and any(
                    param in {x.id for x in ast.walk(t_) if isinstance(x, ast.Name)}
                    for t_, _pol, _k in cfgm.conditions_at(st)):
                return True
        if isinstance(st, ast.Assign) and isinstance(st.value, ast.Tuple) and len(st.targets) == 1 \
                and isinstance(st.targets[0], ast.Tuple) and len(st.targets[0].elts) == len(st.value.elts):
            for t, v in zip(st.targets[0].elts, st.value.elts):
                if pf.is_self_attr(t, attr) and isinstance(v, ast.Name) and v.id == param:
                    return True
        if not (isinstance(st, ast.Expr) and isinstance(st.value, ast.Call) and isinstance(st.value.func, ast.Attribute)):
            return False
        call = st.value
        recv = call.func.value
        args = list(call.args) + [k.value for k in call.keywords]
        if not any(isinstance(a, ast.Name) and a.id == param for a in args) or _depth >= 4:
            return False
        # super().<same method>(mol, grids, nspin) forwarding the parameter
        if isinstance(recv, ast.Call) and pf.src(recv.func) == "super" and call.func.attr == fn.name:
            if not chain:
                return False
            f2 = chain[0]
            return param in [a.arg for a in f2.args.args] and _assigns_on_all_paths(mod, f2, attr, param, chain[1:], _depth + 1)
        # self._helper(..., param, ...): one level of helper extraction
        if isinstance(recv, ast.Name) and recv.id == "self":
            cands = [pf.methods(c)[call.func.attr] for c in mod.classes.values() if call.func.attr in pf.methods(c)]
            if len(cands) == 1:
                h = cands[0]
                hp = [a.arg for a in h.args.args[1:]]
                name = None
                for i, a in enumerate(call.args):
                    if isinstance(a, ast.Name) and a.id == param and i < len(hp):
                        name = hp[i]
                for k in call.keywords:
                    if isinstance(k.value, ast.Name) and k.value.id == param and k.arg in hp:
                        name = k.arg
                return name is not None and _assigns_on_all_paths(mod, h, attr, name, [], _depth + 1)
        return False

    ok, _ = g.must_pass(is_assign)
    return ok


# ----------------------------------------------------------------------------
# rule 5: constructor round trip of NLDFAuxiliaryPlan.new
# ----------------------------------------------------------------------------
WRAP = {"np.float64", "float", "int", "np.int32", "np.asarray"}


def _mro_after(prog, mod, leaf, ctx_cls):
    """the classes that follow ctx_cls in the MRO of leaf (what super() in ctx_cls sees)"""
    mro = prog.mro(mod, leaf)
    for i, (m, c) in enumerate(mro):
        if c is ctx_cls:
            return mro[i + 1:]
    return []


def _super_target(call):
    """method name if call is `super().m(...)` / `super(X, self).m(...)`"""
    f = call.func
    if isinstance(f, ast.Attribute) and isinstance(f.value, ast.Call) and pf.call_name(f.value) == "super":
        return f.attr
    return None


def _ctor_entries(prog, mod, leaf, new_cls, fn):
    """name -> value expression of everything `new()` hands to the constructor of the concrete class `leaf`: keywords of
    the constructing call (`self.__class__(...)`, `type(self)(...)`, `cls(...)`) and the entries of the mapping it
    splats with `**`, whether written as dict(k=v, ...), a {...} literal, filled by `d["k"] = v` stores / .update(),
    or returned by a helper method (`self._get_init_kwargs()`, resolved through the MRO of `leaf`, `super()` chains
    included)."""
    entries, lines = {}, {}
    what = "%s.new" % leaf.name

    def put(k, val, line):
        entries[k] = val
        lines[k] = line

    def add_mapping(cfn, ccls, v, depth):
        if depth > 6:
            raise core.AnalysisError("%s: helper chain deeper than 6" % what)
        if isinstance(v, ast.Dict):
            for k, val in zip(v.keys, v.values):
                if k is None:
                    add_mapping(cfn, ccls, val, depth)
                elif isinstance(k, ast.Constant) and isinstance(k.value, str):
                    put(k.value, val, val.lineno)
                else:
                    raise core.AnalysisError("%s: non-literal key %s" % (what, pf.src(k)))
        elif isinstance(v, ast.Call) and pf.call_name(v) == "dict":
            for a_ in v.args:
                add_mapping(cfn, ccls, a_, depth)
            for k in v.keywords:
                if k.arg is None:
                    add_mapping(cfn, ccls, k.value, depth)
                else:
                    put(k.arg, k.value, k.value.lineno)
        elif isinstance(v, ast.Name):
            add_name(cfn, ccls, v.id, depth)
        elif isinstance(v, ast.Call) and isinstance(v.func, ast.Attribute) and pf.is_self_attr(v.func) \
                and not v.args and not v.keywords:
            r = prog.find_method(mod, leaf, v.func.attr)
            if r is None:
                raise core.AnalysisError("%s: helper %s not found through the MRO" % (what, pf.src(v.func)))
            add_helper(r[1], r[2], depth)
        elif isinstance(v, ast.Call) and _super_target(v) and not v.args and not v.keywords:
            for m_, c_ in _mro_after(prog, mod, leaf, ccls):
                h = pf.methods(c_).get(_super_target(v))
                if h is not None:
                    add_helper(c_, h, depth)
                    return
            raise core.AnalysisError("%s: %s has no target in the MRO of %s" % (what, pf.src(v), leaf.name))
        elif isinstance(v, ast.Call) and isinstance(v.func, ast.Attribute) and v.func.attr == "copy" and not v.args:
            add_mapping(cfn, ccls, v.func.value, depth)
        else:
            raise core.AnalysisError("%s: constructor mapping `%s` is not a form the analysis reads" % (what, pf.src(v)[:80]))

    def add_helper(hcls, h, depth):
        rets = [n for n in pf.walk_no_nested(h) if isinstance(n, ast.Return) and n.value is not None]
        if len(rets) != 1:
            raise core.AnalysisError("%s: helper %s.%s has %d return statements" % (what, hcls.name, h.name, len(rets)))
        add_mapping(h, hcls, rets[0].value, depth + 1)

    def add_name(cfn, ccls, name, depth):
        if name in [a_.arg for a_ in cfn.args.args] or (cfn.args.kwarg and cfn.args.kwarg.arg == name):
            return  # the caller's overrides
        stmts = sorted((n for n in pf.walk_no_nested(cfn) if isinstance(n, (ast.Assign, ast.Expr))),
                       key=lambda n: (n.lineno, n.col_offset))
        for n in stmts:
            if isinstance(n, ast.Assign) and any(isinstance(t, ast.Name) and t.id == name for t in n.targets):
                add_mapping(cfn, ccls, n.value, depth)
            elif isinstance(n, ast.Assign):
                for t in n.targets:
                    if isinstance(t, ast.Subscript) and isinstance(t.value, ast.Name) and t.value.id == name:
                        if isinstance(t.slice, ast.Constant) and isinstance(t.slice.value, str):
                            put(t.slice.value, n.value, n.lineno)
                        else:
                            raise core.AnalysisError("%s: non-literal key %s" % (what, pf.src(t)))
            elif isinstance(n.value, ast.Call) and isinstance(n.value.func, ast.Attribute) \
                    and isinstance(n.value.func.value, ast.Name) and n.value.func.value.id == name:
                c = n.value
                if c.func.attr == "update":
                    for a_ in c.args:
                        add_mapping(cfn, ccls, a_, depth)
                    for k in c.keywords:
                        if k.arg is None:
                            add_mapping(cfn, ccls, k.value, depth)
                        else:
                            put(k.arg, k.value, k.value.lineno)
                elif c.func.attr == "setdefault" and len(c.args) == 2 and isinstance(c.args[0], ast.Constant):
                    if c.args[0].value not in entries:
                        put(c.args[0].value, c.args[1], c.lineno)
                elif c.func.attr == "pop" and c.args and isinstance(c.args[0], ast.Constant):
                    entries.pop(c.args[0].value, None)
                else:
                    raise core.AnalysisError("%s: `%s` on the constructor mapping is not read" % (what, pf.src(c)[:60]))

    found = False
    for n in pf.walk_no_nested(fn):
        if isinstance(n, ast.Call) and pf.src(n.func) in ("self.__class__", "type(self)", "cls", "self.__class__.__call__"):
            found = True
            if n.args:
                raise core.AnalysisError("%s: positional constructor arguments are not read" % what)
            for k in n.keywords:
                if k.arg is None:
                    add_mapping(fn, new_cls, k.value, 0)
                else:
                    put(k.arg, k.value, k.value.lineno)
    if not found:
        raise core.AnalysisError("%s: no `self.__class__(...)` / `type(self)(...)` call found" % what)
    return entries, lines


_EXPR = "<expression>"


def _init_attr_assignments(prog, mod, cls, init_cls, init, attr):
    """[(statement, value expr, rename)] for self.attr in the __init__ of the concrete class `cls`, in the self-methods it
    calls and in the super().__init__ chain; `rename` maps a name local to the scanned function to the parameter of
    the OUTERMOST __init__ it carries (or to a marker when the argument is an expression / not passed)."""
    out = []

    def bind(call, h, rename, skip):
        hp = [a_.arg for a_ in h.args.args[skip:]] + [a_.arg for a_ in h.args.kwonlyargs]
        r2 = {q: _EXPR for q in hp}
        for i, a_ in enumerate(call.args):
            if i < len(hp):
                r2[hp[i]] = rename.get(a_.id, a_.id) if isinstance(a_, ast.Name) else _EXPR
        for k in call.keywords:
            if k.arg in hp:
                r2[k.arg] = rename.get(k.value.id, k.value.id) if isinstance(k.value, ast.Name) else _EXPR
        return r2

    def scan(fn, ccls, rename, depth):
        for n in pf.walk_no_nested(fn):
            if isinstance(n, ast.Assign) and any(pf.is_self_attr(t, attr) for t in n.targets):
                out.append((n, n.value, rename))
            elif isinstance(n, ast.AugAssign) and pf.is_self_attr(n.target, attr):
                out.append((n, None, rename))
            elif isinstance(n, ast.Call) and depth < 4:
                if _super_target(n) == "__init__":
                    for m_, c_ in _mro_after(prog, mod, cls, ccls):
                        h = pf.methods(c_).get("__init__")
                        if h is not None:
                            scan(h, c_, bind(n, h, rename, 1), depth + 1)
                            break
                elif isinstance(n.func, ast.Attribute) and pf.is_self_attr(n.func) and fn.name == "__init__":
                    r = prog.find_method(mod, cls, n.func.attr)
                    if r is not None:
                        scan(r[2], r[1], bind(n, r[2], rename, 1), depth + 1)
    scan(init, init_cls, {a_.arg: a_.arg for a_ in init.args.args[1:] + init.args.kwonlyargs}, 0)
    return out


def rule_ctor_roundtrip(chk):
    """plan.new() must be a copy of plan: for EVERY concrete plan class, every parameter of its constructor is fed back by
    new() (a parameter left out silently gets the default in the copy), and what is fed back is the raw argument
    __init__ stored, not a transformed value."""
    prog = pf.Program(chk.tree, [PLANS])
    mod = prog.module(PLANS)
    base = mod.cls("NLDFAuxiliaryPlan")
    classes = [(m, c) for m, c in prog.subclasses("NLDFAuxiliaryPlan") if m is mod]
    if not any(c is base for _, c in classes):
        classes.insert(0, (mod, base))
    for _, cls in classes:
        r_new = prog.find_method(mod, cls, "new")
        r_init = prog.find_method(mod, cls, "__init__")
        if r_new is None or r_init is None:
            raise core.AnalysisError("%s.new / __init__ not found (also not through the MRO)" % cls.name)
        new, init = r_new[2], r_init[2]
        fq = "%s.new" % cls.name
        if init.args.vararg or init.args.kwarg:
            raise core.AnalysisError("%s.__init__ takes *args/**kwargs: its parameter list is not read" % cls.name)
        params = [a_.arg for a_ in init.args.args[1:]] + [a_.arg for a_ in init.args.kwonlyargs]
        entries, lines = _ctor_entries(prog, mod, cls, r_new[1], new)
        fed = {}
        for k, v in entries.items():
            if not pf.is_self_attr(v):
                # a computed value (e.g. an explicit inverse of the constructor's transformation): not decided
                chk.ok("ctor-roundtrip", "%s:%s %s=<computed>" % (PLANS, fq, k), nontrivial=False)
                chk.note("ctor-roundtrip", "%s:%s" % (PLANS, fq),
                         "%s is fed back as the computed value `%s`; whether it inverts __init__ is not decided" % (
                             k, pf.src(v)))
                continue
            fed[k] = v.attr
        for p in params:
            inst = "%s:%s forwards constructor parameter %s" % (PLANS, fq, p)
            if p in entries:
                chk.ok("ctor-roundtrip", inst)
            else:
                chk.violation("ctor-roundtrip", PLANS, fq, "%s not forwarded" % p, new.lineno,
                              "%s.__init__ takes %r, but new() does not feed it back to `self.__class__(...)`: the copy is "
                              "built with the default instead of this plan's value, so plan.new() is not a copy of plan" % (
                                  cls.name, p), instance=inst)
        for p, attr in sorted(fed.items()):
            inst = "%s:%s %s=self.%s" % (PLANS, fq, p, attr)
            if p not in params:
                chk.violation("ctor-roundtrip", PLANS, fq, "%s=self.%s" % (p, attr), lines[p],
                              "new() passes %r, which is not a constructor parameter of %s" % (p, cls.name), instance=inst)
                continue
            bad = []
            assigns = _init_attr_assignments(prog, mod, cls, r_init[1], init, attr)
            for n, v, rename in assigns:
                if v is None:
                    bad.append(n)
                    continue
                while isinstance(v, ast.Call) and pf.call_name(v) in WRAP and len(v.args) == 1:
                    v = v.args[0]
                if not (isinstance(v, ast.Name) and rename.get(v.id, v.id) == p):
                    bad.append(n)
            if not assigns:
                # a class-level default or an attribute set elsewhere: not decided rather than an error
                chk.ok("ctor-roundtrip", inst + " (attribute not assigned in __init__: not decided)", nontrivial=False)
                chk.note("ctor-roundtrip", "%s:%s.__init__" % (PLANS, cls.name),
                         "self.%s, fed back by new() as %r, is not assigned in __init__ or its direct helpers" % (attr, p))
                continue
            if bad:
                b_ = bad[0]
                chk.violation("ctor-roundtrip", PLANS, fq, "%s=self.%s" % (p, attr), b_.lineno,
                              "new() feeds self.%s back into the constructor parameter %r, but __init__ stores a "
                              "transformed value (`%s`): the transformation is applied twice in the copy, so "
                              "plan.new() is not a copy of plan" % (attr, p, pf.src(b_)), instance=inst)
            else:
                chk.ok("ctor-roundtrip", inst)
    chk.count("concrete NLDF plan classes whose new() is checked against their own constructor", len(classes))


_REDUCERS = {"max", "min", "sum", "any", "all", "amax", "amin", "mean", "prod", "norm", "nanmax", "absmax"}


def rule_batch_reduce(chk):
    """batch-index discipline for screens and masks: a value computed by a reduction / comprehension over the WHOLE batch
    of density matrices must not be used inside the per-element loop (`for idm in range(nset)`): the output of element
    i would then depend on the other elements of the batch."""
    for rel, name in BATCH_FUNCS:
        fn = ks.locate(chk.tree, rel, name)[1]
        params = [a_.arg for a_ in fn.args.args]
        B = "dms" if "dms" in params else None
        if B is None:
            raise core.AnalysisError("%s:%s has no `dms` parameter" % (rel, name))
        tainted = {}
        assigns = sorted((n for n in ast.walk(fn) if isinstance(n, ast.Assign) and len(n.targets) == 1
                          and isinstance(n.targets[0], ast.Name)), key=lambda n: n.lineno)
        for n in assigns:
            why = None
            for x in ast.walk(n.value):
                if isinstance(x, (ast.ListComp, ast.GeneratorExp, ast.SetComp)):
                    if any(B in ks._names(g.iter) for g in x.generators):
                        why = "a comprehension over all of `%s`" % B
                elif isinstance(x, ast.Call) and (pf.call_name(x) or "").split(".")[-1] in _REDUCERS:
                    recv = [x.func.value] if isinstance(x.func, ast.Attribute) else []
                    if any(B in ks._names(a_) for a_ in list(x.args) + recv):
                        why = "the reduction `%s` over `%s`" % (pf.src(x)[:50], B)
                elif isinstance(x, ast.Name) and x.id in tainted and why is None:
                    why = "`%s`, %s" % (x.id, tainted[x.id][0])
            if why:
                tainted[n.targets[0].id] = (why, n)
            else:
                tainted.pop(n.targets[0].id, None) if False else None
        loops = [lp for lp in ast.walk(fn) if isinstance(lp, ast.For) and "nset" in ks._names(lp.iter)]
        gens = {g.name for g in ast.walk(fn) if isinstance(g, ast.FunctionDef) and g is not fn
                and any(isinstance(y, (ast.Yield, ast.YieldFrom)) for y in ast.walk(g))
                and any(lp in loops for lp in ast.walk(g))}
        loops += [lp for lp in ast.walk(fn) if isinstance(lp, ast.For) and isinstance(lp.iter, ast.Call)
                  and pf.call_name(lp.iter) in gens]
        inst = "%s:%s nothing reduced over the whole batch is used per batch element" % (rel, name)
        bad = None
        for lp in loops:
            for x in ast.walk(lp):
                if isinstance(x, ast.Name) and isinstance(x.ctx, ast.Load) and x.id in tainted \
                        and tainted[x.id][1].lineno < lp.lineno:
                    bad = bad or (x, lp)
        if bad:
            x, lp = bad
            st = x
            while not isinstance(st, ast.stmt):
                st = pf.parent(st)
            chk.violation("batch-index", rel, name, "%s reduced over the batch, used per element" % x.id, x.lineno,
                          "`%s` is %s (`%s`), and it is used in `%s` inside the per-element loop `%s`: the result for one "
                          "density matrix depends on the other matrices of the batch" % (
                              x.id, tainted[x.id][0], pf.src(tainted[x.id][1])[:90], pf.src(st)[:70], batch.head_text(lp)[:50]),
                          instance=inst)
        else:
            chk.ok("batch-index", inst, nontrivial=bool(loops))


# ----------------------------------------------------------------------------
# round 14: plan-init, out-shared, attr-init
# ----------------------------------------------------------------------------
def _module_fn_resolver(tree, rel):
    def resolve(call):
        f = call.func
        if isinstance(f, ast.Name) and f.id.startswith("_"):
            try:
                return ks.locate(tree, rel, f.id)[1], list(call.args)
            except core.AnalysisError:
                return None
        return None
    return resolve


def rule_plan_init(chk):
    """Every integrator / force driver that reaches `ni.eval_xc_cider` first calls
    `ni.initialize_feature_generators(mol, grids, <its own nspin>)` unconditionally: the plans (sl_plan, nldfgen, ..)
    live on the integrator object, so a driver that skips the call evaluates with whatever the previous call left."""
    from sa import hinline
    for rel, name in BATCH_FUNCS:
        fn0 = ks.locate(chk.tree, rel, name)[1]
        fn = hinline.inline_helpers(fn0, _module_fn_resolver(chk.tree, rel), 2)
        evals = [c for c in ast.walk(fn) if isinstance(c, ast.Call) and isinstance(c.func, ast.Attribute)
                 and c.func.attr == "eval_xc_cider"]
        if not evals:
            raise core.AnalysisError("%s:%s no longer calls eval_xc_cider" % (rel, name))
        recv = pf.src(evals[0].func.value)
        first = min(c.lineno for c in evals)
        inst = "%s:%s initialises the feature plans of %s before eval_xc_cider" % (rel, name, recv)
        init = None
        for i, st in enumerate(fn.body):
            if any(x in evals for x in ast.walk(st)) or (isinstance(st, ast.FunctionDef) and False):
                break
            if isinstance(st, ast.Expr) and isinstance(st.value, ast.Call) and isinstance(st.value.func, ast.Attribute) \
                    and st.value.func.attr == "initialize_feature_generators" and pf.src(st.value.func.value) == recv:
                init = st.value
                break
        if init is None:
            cond = [c for c in ast.walk(fn) if isinstance(c, ast.Call) and isinstance(c.func, ast.Attribute)
                    and c.func.attr == "initialize_feature_generators"]
            if cond:
                raise core.AnalysisError("%s:%s calls initialize_feature_generators, but not as an unconditional statement "
                                         "of the function body before eval_xc_cider: not decided" % (rel, name))
            chk.violation("plan-init", rel, name, "%s.initialize_feature_generators before eval_xc_cider" % recv, first,
                          "%s calls %s.eval_xc_cider without calling %s.initialize_feature_generators(mol, grids, nspin) "
                          "first, as every sibling driver does: it evaluates with the plans (sl_plan, nldfgen, ...) the "
                          "PREVIOUS call on the same integrator left behind (e.g. the spin-polarised plans after nr_uks), "
                          "so its result depends on the call history" % (name, recv, recv), instance=inst)
            continue
        want = 2 if ("uks" in name or rel == UKSG) else 1
        a = init.args[2] if len(init.args) > 2 else next((k.value for k in init.keywords if k.arg == "nspin"), None)
        if isinstance(a, ast.Constant) and a.value != want:
            chk.violation("plan-init", rel, name, "nspin of initialize_feature_generators", init.lineno,
                          "the %s driver initialises the feature plans with nspin=%r instead of %d" % (
                              "spin-polarised" if want == 2 else "spin-restricted", a.value, want), instance=inst)
        elif isinstance(a, ast.Constant):
            chk.ok("plan-init", inst)
        else:
            chk.ok("plan-init", inst + " (nspin not a literal: value not decided)", nontrivial=False)


OUT_SHARED_DIRS = ("ciderpress/pyscf/", "ciderpress/dft/")


def rule_out_shared(chk):
    """Two results produced into the same buffer (`a = f(.., out=B)` ... `b = g(.., out=B)`) cannot both be live: the
    second call overwrites the first result.  Violation when the first result is still read after the second call."""
    nfun = 0
    rels = list(chk.tree.glob("ciderpress/pyscf/*.py")) + list(chk.tree.glob("ciderpress/dft/*.py"))
    for rel in sorted(rels):
        mod = chk.tree.py(rel)
        for fn in ast.walk(mod):
            if not isinstance(fn, ast.FunctionDef):
                continue
            prods = []
            for n in pf.walk_no_nested(fn):
                if isinstance(n, ast.Assign) and len(n.targets) == 1 and isinstance(n.targets[0], ast.Name) \
                        and isinstance(n.value, ast.Call):
                    for k in n.value.keywords:
                        if k.arg == "out" and isinstance(k.value, ast.Name):
                            prods.append((n, n.targets[0].id, k.value.id))
            if len(prods) < 2:
                continue
            nfun += 1
            prods.sort(key=lambda x: x[0].lineno)
            stores = [(x.lineno, x.id) for x in pf.walk_no_nested(fn) if isinstance(x, ast.Name) and isinstance(x.ctx, ast.Store)]
            loads = [(x.lineno, x.id) for x in pf.walk_no_nested(fn) if isinstance(x, ast.Name) and isinstance(x.ctx, ast.Load)]
            bad = None
            for i, (n1, t1, b1) in enumerate(prods):
                for n2, t2, b2 in prods[i + 1:]:
                    if b1 != b2 or t1 == t2 or t1 == b1 or t2 == b1:
                        continue
                    end2 = getattr(n2, "end_lineno", n2.lineno)
                    if any(n1.lineno < ln <= n2.lineno and nm == b1 for ln, nm in stores):
                        continue  # the buffer name was re-bound in between
                    if pf.parent(n1) is not pf.parent(n2):
                        continue  # different branches / blocks: not decided here
                    redef = min([ln for ln, nm in stores if nm == t1 and ln > end2] or [10 ** 9])
                    if any(end2 < ln < redef and nm == t1 for ln, nm in loads):
                        bad = (n1, t1, n2, t2, b1)
                        break
                if bad:
                    break
            inst = "%s:%s results produced into one out= buffer are not live together" % (rel, pf.qualname(fn))
            if bad:
                n1, t1, n2, t2, b = bad
                chk.violation("out-shared", rel, pf.qualname(fn), "%s and %s share out=%s" % (t1, t2, b), n2.lineno,
                              "`%s` and `%s` are both produced into the buffer `%s`; the second call overwrites the memory "
                              "of `%s`, which is still read afterwards: whenever the caller passes a buffer, `%s` silently "
                              "holds the values of `%s`" % (pf.src(n1)[:70], pf.src(n2)[:70], b, t1, t1, t2), instance=inst)
            else:
                chk.ok("out-shared", inst)
    chk.count("functions with two or more out=<name> producers", nfun)


def rule_attr_init(chk):
    """An attribute of the integrator that a method other than __init__ assigns (build(), initialize_...) and another
    method reads must also be created by the constructor chain: otherwise the reading method fails (or sees another
    object's class-level value) when it is the first entry point called on a fresh object."""
    prog = pf.Program(chk.tree, [NUMINT])
    mod = prog.module(NUMINT)
    n = 0
    for cname, cls in sorted(mod.classes.items()):
        mro = prog.mro(mod, cls)
        if "CiderNumInt" not in [c.name for _, c in mro]:
            continue
        meths, classattrs = {}, set()
        for m, c in mro:
            classattrs |= set(pf.class_attrs(c))
            for name, f in pf.methods(c).items():
                meths.setdefault(name, []).append(f)
        classattrs |= set(meths)
        # constructor chain: every __init__ in the MRO plus the self-methods they call (two levels)
        chain = list(meths.get("__init__", []))
        for _ in range(2):
            for f in list(chain):
                for c_ in ast.walk(f):
                    if isinstance(c_, ast.Call) and isinstance(c_.func, ast.Attribute) and pf.is_self_attr(c_.func):
                        for h in meths.get(c_.func.attr, [])[:1]:
                            if h not in chain:
                                chain.append(h)
        in_init = {x.attr for f in chain for x in ast.walk(f) if pf.is_self_attr(x) and isinstance(x.ctx, ast.Store)}
        other, reads = {}, {}
        for name, fs in meths.items():
            f = fs[0]
            if f in chain:
                continue
            for x in ast.walk(f):
                if pf.is_self_attr(x):
                    (other if isinstance(x.ctx, ast.Store) else reads).setdefault(x.attr, {}).setdefault(name, x)
        for attr in sorted(other):
            readers = sorted(set(reads.get(attr, {})) - set(other[attr]))
            if not readers:
                continue
            n += 1
            inst = "%s:%s.%s is created by the constructor chain" % (NUMINT, cname, attr)
            if attr in in_init or attr in classattrs:
                chk.ok("attr-init", inst)
            else:
                r = reads[attr][readers[0]]
                chk.violation("attr-init", NUMINT, cname, "self.%s set only in %s" % (attr, ", ".join(sorted(other[attr]))),
                              r.lineno,
                              "self.%s is assigned only in %s, not in __init__ (or the methods it calls), but %s read%s it: "
                              "on an object on which %s has not run yet the read fails with AttributeError" % (
                                  attr, ", ".join(sorted(other[attr])), ", ".join(readers[:4]),
                                  "s" if len(readers) == 1 else "", " / ".join(sorted(other[attr]))), instance=inst)
    if n == 0:
        raise core.AnalysisError("attr-init: no attribute of the CiderNumInt classes is assigned outside __init__ and read "
                                 "elsewhere: the rule would pass vacuously")


# ----------------------------------------------------------------------------
# rule 6: chunk loop
# ----------------------------------------------------------------------------
def _single_defs(fn, exclude=()):
    """local names with exactly one plain assignment in fn -> value expr"""
    cnt, val = {}, {}
    for n in pf.walk_no_nested(fn):
        tg = []
        if isinstance(n, ast.Assign):
            tg = n.targets
        elif isinstance(n, (ast.AugAssign, ast.AnnAssign)):
            tg = [n.target]
        elif isinstance(n, (ast.For, ast.comprehension)):
            tg = [n.target]
        for t in tg:
            for x in ast.walk(t):
                if isinstance(x, ast.Name):
                    cnt[x.id] = cnt.get(x.id, 0) + 1
                    if isinstance(n, ast.Assign) and len(n.targets) == 1 and t is x:
                        val[x.id] = n.value
                    else:
                        cnt[x.id] += 1
    return {k: v for k, v in val.items() if cnt.get(k) == 1 and k not in exclude}


def _norm(e, defs, depth=0):
    """source text of e with single-assignment locals replaced by their definition (bounded depth)"""
    if isinstance(e, ast.Name) and e.id in defs and depth < 4:
        return _norm(defs[e.id], defs, depth + 1)
    if isinstance(e, ast.Call) and pf.call_name(e) == "len" and len(e.args) == 1:
        return _norm(e.args[0], defs, depth) + ".shape[0]"
    if isinstance(e, ast.BinOp):
        return "(%s%s%s)" % (_norm(e.left, defs, depth), type(e.op).__name__, _norm(e.right, defs, depth))
    if isinstance(e, ast.Call) and isinstance(e.func, ast.Name):
        return "%s(%s)" % (e.func.id, ",".join(_norm(a, defs, depth) for a in e.args))
    return pf.src(e).replace(" ", "")


# -- a tiny polynomial normal form over integer coefficients and opaque atoms (for chunk start / end) ----------
def _padd(a, b, sign=1):
    out = dict(a)
    for k, v in b.items():
        out[k] = out.get(k, 0) + sign * v
    return {k: v for k, v in out.items() if v != 0}


def _pmul(a, b):
    out = {}
    for ka, va in a.items():
        for kb, vb in b.items():
            k = tuple(sorted(ka + kb))
            out[k] = out.get(k, 0) + va * vb
    return {k: v for k, v in out.items() if v != 0}


class _Poly:
    """expressions -> polynomials; names are replaced by their (single) definition; anything that is not + - *
    of integers becomes an opaque atom identified by its normalised text (the AST is kept for inspection)"""

    def __init__(self, env, counter_map):
        self.env = env
        self.cmap = counter_map
        self.atoms = {}

    def resolve(self, e, depth=0):
        while isinstance(e, ast.Name) and e.id in self.env and depth < 6:
            e = self.env[e.id]
            depth += 1
        return e

    def atom(self, e):
        t = self.text(e)
        self.atoms.setdefault(t, e)
        return {(t,): 1}

    def text(self, e, depth=0):
        e = self.resolve(e)
        if isinstance(e, ast.Call) and pf.call_name(e) == "len" and len(e.args) == 1:
            return self.text(e.args[0]) + ".shape[0]"
        if isinstance(e, ast.BinOp):
            return "(%s%s%s)" % (self.text(e.left), type(e.op).__name__, self.text(e.right))
        if isinstance(e, ast.UnaryOp):
            return "(%s%s)" % (type(e.op).__name__, self.text(e.operand))
        if isinstance(e, ast.Call):
            return "%s(%s)" % (pf.src(e.func), ",".join(self.text(a) for a in e.args))
        if isinstance(e, ast.IfExp):
            return "(%s if %s else %s)" % (self.text(e.body), self.text(e.test), self.text(e.orelse))
        if isinstance(e, ast.Compare):
            return "(%s%s%s)" % (self.text(e.left), type(e.ops[0]).__name__, self.text(e.comparators[0]))
        return pf.src(e).replace(" ", "")

    def poly(self, e, depth=0):
        if depth > 12:
            return self.atom(e)
        if isinstance(e, ast.Constant) and isinstance(e.value, int) and not isinstance(e.value, bool):
            return {(): e.value} if e.value else {}
        if isinstance(e, ast.Name):
            if e.id in self.cmap:
                return dict(self.cmap[e.id])
            if e.id in self.env:
                return self.poly(self.env[e.id], depth + 1)
            return self.atom(e)
        if isinstance(e, ast.BinOp) and isinstance(e.op, (ast.Add, ast.Sub)):
            return _padd(self.poly(e.left, depth + 1), self.poly(e.right, depth + 1), 1 if isinstance(e.op, ast.Add) else -1)
        if isinstance(e, ast.BinOp) and isinstance(e.op, ast.Mult):
            return _pmul(self.poly(e.left, depth + 1), self.poly(e.right, depth + 1))
        if isinstance(e, ast.UnaryOp) and isinstance(e.op, ast.USub):
            return _pmul({(): -1}, self.poly(e.operand, depth + 1))
        if isinstance(e, ast.Call) and pf.call_name(e) == "len" and len(e.args) == 1:
            return {(self.text(e),): 1}
        return self.atom(e)


CTR = "@c"


def _split_counter(p):
    """p = S0 + D * c  ->  (S0, D) ; None when c occurs with another degree"""
    s0, d = {}, {}
    for k, v in p.items():
        n = k.count(CTR)
        if n == 0:
            s0[k] = v
        elif n == 1:
            kk = tuple(x for x in k if x != CTR)
            d[kk] = d.get(kk, 0) + v
        else:
            return None
    return s0, d


def _const_of(p):
    """integer value of a constant polynomial, else None"""
    if not p:
        return 0
    if set(p) == {()}:
        return p[()]
    return None


def _is_ceil_div(P, e, Npoly, Dpoly, depth=0):
    """e == ceil(N / D) in one of the integer idioms (N + D - 1) // D, -(-N // D), max(1, .), `. if N > 0 else 0`,
    math.ceil(N / D)"""
    e = P.resolve(e)
    if depth > 4:
        return False
    if isinstance(e, ast.IfExp) and _const_of(P.poly(e.orelse)) == 0:
        return _is_ceil_div(P, e.body, Npoly, Dpoly, depth + 1)
    if isinstance(e, ast.Call) and pf.call_name(e) in ("max",) and len(e.args) == 2:
        for a, b in ((e.args[0], e.args[1]), (e.args[1], e.args[0])):
            if _const_of(P.poly(a)) == 1 and _is_ceil_div(P, b, Npoly, Dpoly, depth + 1):
                return True
        return False
    if isinstance(e, ast.Call) and (pf.call_name(e) or "").split(".")[-1] == "ceil" and len(e.args) == 1:
        a = P.resolve(e.args[0])
        return isinstance(a, ast.BinOp) and isinstance(a.op, ast.Div) and P.poly(a.left) == Npoly and P.poly(a.right) == Dpoly
    if isinstance(e, ast.Call) and pf.call_name(e) == "int" and len(e.args) == 1:
        return _is_ceil_div(P, e.args[0], Npoly, Dpoly, depth + 1)
    if isinstance(e, ast.BinOp) and isinstance(e.op, ast.FloorDiv):
        return P.poly(e.right) == Dpoly and P.poly(e.left) == _padd(_padd(Npoly, Dpoly), {(): 1}, -1)
    if isinstance(e, ast.UnaryOp) and isinstance(e.op, ast.USub):
        x = P.resolve(e.operand)
        return isinstance(x, ast.BinOp) and isinstance(x.op, ast.FloorDiv) and P.poly(x.right) == Dpoly \
            and P.poly(x.left) == _pmul({(): -1}, Npoly)
    return False


def _strip_max1(P, e):
    """`max(K, 1)` / `max(1, K)` -> K: the two differ only for K = 0, i.e. when there is nothing to cover"""
    e = P.resolve(e)
    while isinstance(e, ast.Call) and pf.call_name(e) == "max" and len(e.args) == 2:
        a, b = e.args
        if _const_of(P.poly(a)) == 1:
            e = P.resolve(b)
        elif _const_of(P.poly(b)) == 1:
            e = P.resolve(a)
        else:
            break
    return e


def _strip_zero_guard(P, e):
    """`K if <cond> else 0` -> K (nothing to cover in the else case)"""
    e = P.resolve(e)
    while isinstance(e, ast.IfExp) and _const_of(P.poly(e.orelse)) == 0:
        e = P.resolve(e.body)
    return e


def _floor_div_of(P, Dpoly, Npoly):
    """D is the single atom `N // K` -> the AST of K, else None"""
    if len(Dpoly) == 1 and list(Dpoly.values()) == [1] and len(list(Dpoly)[0]) == 1:
        node = P.resolve(P.atoms.get(list(Dpoly)[0][0]))
        if isinstance(node, ast.BinOp) and isinstance(node.op, ast.FloorDiv) and P.poly(node.left) == Npoly:
            return node.right
    return None


def _pretty(t):
    return t.replace("USub", "-").replace("FloorDiv", "//").replace("Add", "+").replace("Sub", "-").replace("Mult", "*")


def _ptext(p):
    if not p:
        return "0"
    parts = []
    for k, v in sorted(p.items()):
        mono = "*".join(_pretty(x) for x in k)
        parts.append(("%d*%s" % (v, mono)) if (mono and v != 1) else (mono or str(v)))
    return " + ".join(parts)


def _table_chunks(chk, fn, fq, inst, lp, lv, env, bufs, x1):
    """chunk bounds read from a table: start = f(B[c]), stop = g(B[c + 1]).  Adjacent chunks are disjoint and gap-free
    iff start(c + 1) == stop(c), i.e. f and g are the same function of B[c + 1].  Returns True when decided."""
    lo = up = None
    for n in ast.walk(lp):
        if isinstance(n, ast.Subscript) and isinstance(n.value, ast.Name) and n.value.id in bufs | {x1}:
            sl = n.slice.elts[0] if isinstance(n.slice, ast.Tuple) and n.slice.elts else n.slice
            if isinstance(sl, ast.Slice) and isinstance(sl.lower, ast.Name) and isinstance(sl.upper, ast.Name):
                lo, up = sl.lower.id, sl.upper.id
                break
    if lo is None or lo not in env or up not in env:
        return False

    def table_ref(e):
        refs = [x for x in ast.walk(e) if isinstance(x, ast.Subscript) and isinstance(x.value, ast.Name)
                and lv in ks._names(x.slice)]
        return refs[0] if len(refs) == 1 else None
    rl, ru = table_ref(env[lo]), table_ref(env[up])
    if rl is None or ru is None or rl.value.id != ru.value.id:
        return False
    B = rl.value.id
    if pf.src(rl.slice) != lv or pf.src(ru.slice).replace(" ", "") != "%s+1" % lv:
        return False
    f = pf.src(env[lo]).replace(pf.src(rl), "@")
    g = pf.src(env[up]).replace(pf.src(ru), "@")
    bdef = env.get(B)
    is_linspace = isinstance(bdef, ast.Call) and (pf.call_name(bdef) or "").split(".")[-1] == "linspace"
    accumulates = any(isinstance(n, ast.AugAssign) and isinstance(n.target, ast.Subscript)
                      and isinstance(n.target.value, ast.Name) and n.target.value.id in bufs for n in ast.walk(lp))
    if f == g:
        return False  # contiguous by construction; coverage of [0, N) is left to the general analysis
    if is_linspace and accumulates and {"floor", "ceil", "round", "rint", "int"} & (
            {w for w in ("floor", "ceil", "round", "rint") if w in f or w in g} | {"int"}):
        chk.violation("chunk-loop", XE, fq, "chunks %s[%s:%s] from table %s" % (x1, lo, up, B), lp.lineno,
                      "chunk c ends at `%s` and chunk c + 1 starts at `%s` of the same table entry %s[c + 1] = `%s`; the two "
                      "roundings differ whenever that entry is not an integer (np.linspace gives non-integer bounds unless "
                      "the number of chunks divides N), so adjacent chunks overlap by one sample and `+=` accumulates that "
                      "sample twice: the result depends on the chunk size" % (
                          g.replace("@", "%s[c + 1]" % B), f.replace("@", "%s[c + 1]" % B), B, pf.src(bdef)[:60]),
                      instance=inst)
        return True
    return False


def rule_chunk_loop(chk):
    """KernelEvaluator.__call__: the chunks [start(c), end(c)) for c = 0 .. K-1 must tile [0, N).  start and end are
    brought to the form S0 + D*c (+ L) over opaque atoms; the verdict is
      ok         S0 = 0, L = D (or end clipped / extended to N), and  K*D >= N  (range(0, N, D); K = ceil(N/D);
                 D = N // K with the last chunk extended to N)
      violation  S0 > 0; L < D; D = N // K with K*D the end (K*(N//K) <= N, equal only if K | N); loop bound N - c
      exit 2     anything else (neither coverage nor an uncovered remainder can be shown)"""
    prog = pf.Program(chk.tree, [XE])
    mod = prog.module(XE)
    r = prog.find_method(mod, mod.cls("KernelEvaluator"), "__call__")
    if r is None:
        raise core.AnalysisError("KernelEvaluator.__call__ not found (also not through the MRO)")
    fn = r[2]
    fq = "KernelEvaluator.__call__"
    pos = [a.arg for a in fn.args.args[1:]]
    if len(pos) < 3:
        raise core.AnalysisError("%s: expected (X1, res, dres) parameters" % fq)
    x1, bufs = pos[0], set(pos[1:3])
    inst = "%s:%s chunk loop" % (XE, fq)
    all_loops = [n for n in pf.walk_no_nested(fn) if isinstance(n, (ast.For, ast.While))]
    if not all_loops:
        chk.ok("chunk-loop", inst + " (the kernel is evaluated in one piece: nothing depends on a chunk size)",
               nontrivial=False)
        return
    loops = [n for n in all_loops if isinstance(n, ast.For) and isinstance(n.iter, ast.Call)
             and (pf.call_name(n.iter) or "").split(".")[-1] in ("range", "prange") and 1 <= len(n.iter.args) <= 3]
    if len(loops) != 1:
        raise core.AnalysisError("%s: %d loop(s), %d recognised as a chunk loop over range(...)" % (
            fq, len(all_loops), len(loops)))
    lp = loops[0]
    tg = lp.target.elts if isinstance(lp.target, ast.Tuple) else [lp.target]
    lv = tg[0].id
    env = dict(_single_defs(fn, exclude={lv}))
    body_assign = {}
    for n in lp.body:
        if isinstance(n, ast.Assign) and len(n.targets) == 1:
            t, v = n.targets[0], n.value
            if isinstance(t, ast.Name):
                body_assign[t.id] = v
            elif isinstance(t, ast.Tuple) and isinstance(v, ast.Tuple) and len(t.elts) == len(v.elts):
                for a_, b_ in zip(t.elts, v.elts):
                    if isinstance(a_, ast.Name):
                        body_assign[a_.id] = b_
    env.update(body_assign)
    if _table_chunks(chk, fn, fq, inst, lp, lv, env, bufs, x1):
        return
    P0 = _Poly(env, {})
    Npoly = {("%s.shape[0]" % x1,): 1}
    args = lp.iter.args
    is_prange = (pf.call_name(lp.iter) or "").endswith("prange")
    if len(args) == 3:
        start0, step = P0.poly(args[0]), P0.poly(args[2])
        cmap = {lv: _padd(start0, _pmul(step, {(CTR,): 1}))}
        bound = P0.poly(args[1])       # starts are below `bound`
        K = None
    else:
        if len(args) == 2 and _const_of(P0.poly(args[0])) != 0:
            raise core.AnalysisError("%s: the chunk counter does not start at 0; coverage not decided" % fq)
        cmap = {lv: {(CTR,): 1}}
        K = _strip_zero_guard(P0, args[-1])
        bound = None
    P = _Poly(env, cmap)
    if is_prange and len(tg) == 2:
        # prange(0, N, d) yields (i0, min(i0 + d, N))
        P.env[tg[1].id] = ast.Call(func=ast.Name(id="min", ctx=ast.Load()), args=[
            ast.BinOp(left=ast.Name(id=lv, ctx=ast.Load()), op=ast.Add(), right=args[2]), args[1]], keywords=[])
    # the chunk [lower, upper) as used by the slices of X1 / res / dres
    shapes = {}
    n_sub = 0
    problems = []
    for n in ast.walk(lp):
        if isinstance(n, ast.Subscript) and isinstance(n.value, ast.Name) and n.value.id in bufs | {x1}:
            n_sub += 1
            sl = n.slice.elts[0] if isinstance(n.slice, ast.Tuple) and n.slice.elts else n.slice
            if not (isinstance(sl, ast.Slice) and sl.step is None and sl.lower is not None and sl.upper is not None):
                raise core.AnalysisError("%s: %s is not a [start:end] chunk slice; coverage not decided" % (fq, pf.src(n)))
            up = P.resolve(sl.upper)
            clip, tail = False, None
            if isinstance(up, ast.IfExp):
                tail, up = up, None
            else:
                cands = _upper_candidates(P, up)
                fixed = [c_ for c_ in cands if not any(CTR in k for k in c_)]
                moving = [c_ for c_ in cands if any(CTR in k for k in c_)]
                for c_ in fixed:
                    d_ = _const_of(_padd(c_, Npoly, -1))
                    if d_ is None:
                        raise core.AnalysisError("%s: chunk end clipped by %s; coverage not decided" % (fq, _ptext(c_)))
                    if d_ < 0:
                        problems.append("%s never extends beyond N - %d: the last %d sample(s) are never evaluated" % (
                            pf.src(n), -d_, -d_))
                    clip = True
                if len(moving) != 1:
                    raise core.AnalysisError("%s: chunk end %s is not `start + length` (optionally clipped); coverage "
                                             "not decided" % (fq, pf.src(sl.upper)))
                up = moving[0]
            key = (tuple(sorted(P.poly(sl.lower).items())),
                   tuple(sorted(up.items())) if up is not None else ("ifexp", P.text(tail)), clip)
            shapes.setdefault(key, (sl, up, clip, tail, n))
    if n_sub < 2:
        raise core.AnalysisError("%s: the loop body does not slice %s / %s by the chunk; coverage not decided" % (
            fq, x1, "/".join(sorted(bufs))))
    if len(shapes) != 1:
        problems.append("the input and the accumulation buffers are sliced by different chunks (%s)" % ", ".join(
            pf.src(v[4]) for v in shapes.values()))
    sl, up, clip, tail, _n = list(shapes.values())[0]
    lo = _split_counter(P.poly(sl.lower))
    if lo is None:
        raise core.AnalysisError("%s: chunk start %s is not affine in the loop counter; coverage not decided" % (
            fq, pf.src(sl.lower)))
    S0, D = lo
    undecided = None
    verdict_ok = False
    s0c = _const_of(S0)
    if s0c is None or not D:
        undecided = "chunk start %s" % _ptext(P.poly(sl.lower))
    elif s0c != 0:
        problems.append("the first chunk starts at %d, not 0: samples [0, %d) are never evaluated" % (s0c, s0c)
                        if s0c > 0 else "the first chunk starts at %d" % s0c)
    # chunk length
    Kdiv = _floor_div_of(P, D, Npoly)          # D = N // Kdiv ?
    extended_last = False
    if tail is not None:
        # `N if c == K - 1 else start + D` (either orientation): the last chunk is extended to the end
        t_ = tail.test
        ok_tail = False
        if isinstance(t_, ast.Compare) and len(t_.ops) == 1 and Kdiv is not None:
            sides = [P.poly(t_.left), P.poly(t_.comparators[0])]
            lastc = _padd(P.poly(Kdiv), {(): 1}, -1)
            is_last = ({(CTR,): 1} in sides) and (lastc in sides)
            inner = _padd(P.poly(sl.lower), D)
            b_, o_ = P.poly(tail.body), P.poly(tail.orelse)
            if is_last and ((isinstance(t_.ops[0], ast.Eq) and b_ == Npoly and o_ == inner)
                            or (isinstance(t_.ops[0], (ast.NotEq, ast.Lt)) and b_ == inner and o_ == Npoly)):
                ok_tail = True
        if ok_tail:
            extended_last = True
            L = D
        else:
            undecided = "chunk end %s" % P.text(tail)
            L = None
    else:
        L = _padd(up, P.poly(sl.lower), -1)
        if any(CTR in k for k in L):
            undecided = "chunk length %s depends on the counter" % _ptext(L)
            L = None
    if L is not None and L != D and undecided is None:
        diff = _const_of(_padd(L, D, -1))
        if diff is not None and diff < 0:
            problems.append("each chunk is %d sample(s) shorter than the stride %s of the loop: the samples in between "
                            "are never evaluated" % (-diff, _ptext(D)))
        elif diff is not None and diff > 0 and not any(
                isinstance(x, ast.AugAssign) for x in ast.walk(lp) if isinstance(x, ast.AugAssign) and pf.base_name(x.target) in bufs):
            pass  # overlapping chunks that are overwritten, not accumulated: still a cover
        elif diff is not None and diff > 0:
            problems.append("chunks overlap by %d sample(s) and are accumulated with +=: the overlap is counted twice" % diff)
        else:
            undecided = "chunk length %s vs stride %s" % (_ptext(L), _ptext(D))
    # extent
    if undecided is None and not problems:
        if K is not None:                       # counter form: c = 0 .. K-1, covered [0, K*D) (clipped to N)
            Kp = P.poly(K)
            if _is_ceil_div(P, K, Npoly, D):
                verdict_ok = True
            elif Kdiv is not None and (P.poly(Kdiv) == Kp or P.poly(_strip_max1(P, Kdiv)) == P.poly(_strip_max1(P, K))):
                if extended_last:
                    verdict_ok = True
                elif _const_of(Kp) == 1:
                    verdict_ok = True
                else:
                    problems.append("the %s chunks of length N // K (K = %s, N = %s) cover [0, K * (N // K)); K * (N // K) <= N "
                                    "with equality only when N %% K == 0, so the last N %% K samples are never evaluated "
                                    "(e.g. N = 2 * dn + 1)" % ("K", _pretty(P.text(K)),
                                                               _ptext(Npoly)))
            else:
                undecided = "number of chunks %s with stride %s" % (P.text(K), _ptext(D))
        else:                                   # range form: starts below `bound`
            if bound == Npoly:
                verdict_ok = True
            else:
                over = _const_of(_padd(bound, Npoly, -1))
                quo = None
                if Kdiv is not None and bound in (_pmul(P.poly(Kdiv), D), _pmul(P.poly(_strip_max1(P, Kdiv)), D)):
                    quo = Kdiv
                if quo is not None and not extended_last and _const_of(P.poly(quo)) != 1:
                    problems.append("the loop runs to K * (N // K) (K = %s): K * (N // K) <= N with equality only when "
                                    "N %% K == 0, so the last N %% K samples are never evaluated (e.g. N = 2 * dn + 1)"
                                    % _pretty(P.text(quo)))
                elif over is not None and over < 0:
                    problems.append("the loop starts chunks only below N - %d and no chunk is longer than the stride, so "
                                    "whenever N - %d is a multiple of the stride the last %d sample(s) are never evaluated"
                                    % (-over, -over, -over))
                elif over is not None and over >= 0:
                    verdict_ok = True            # extra empty / clipped chunks beyond N are harmless
                elif bound == _pmul(D, {}) or _is_ceil_times(P, bound, Npoly, D):
                    verdict_ok = True
                else:
                    undecided = "loop bound %s" % _ptext(bound)
    # exactly once: a chunk end that is moved further out under a condition (`if short tail: i1 = N`) makes the chunk
    # overlap the next one unless the loop stops there
    end_names = {x.id for x in ast.walk(sl.upper) if isinstance(x, ast.Name)} if sl.upper is not None else set()
    accumulates = any(isinstance(x, ast.AugAssign) and pf.base_name(x.target) in bufs for x in ast.walk(lp))
    for n in ast.walk(lp):
        if isinstance(n, ast.If) and n is not lp:
            for b in n.body + n.orelse:
                for a_ in ast.walk(b):
                    if isinstance(a_, ast.Assign) and any(isinstance(t, ast.Name) and t.id in end_names for t in a_.targets):
                        branch = n.body if any(a_ is y for x in n.body for y in ast.walk(x)) else n.orelse
                        stops = any(isinstance(y, (ast.Break, ast.Return)) for x in branch for y in ast.walk(x))
                        # ... or the iteration ends the loop afterwards: `if i1 == N: break` / `if i1 >= N: break`
                        for later in lp.body:
                            if isinstance(later, ast.If) and later.lineno > a_.lineno and isinstance(later.test, ast.Compare) \
                                    and len(later.test.ops) == 1 and isinstance(later.test.ops[0], (ast.Eq, ast.GtE)) \
                                    and any(isinstance(y, (ast.Break, ast.Return)) for x in later.body for y in ast.walk(x)):
                                l_, r_ = later.test.left, later.test.comparators[0]
                                if isinstance(l_, ast.Name) and l_.id in end_names and P.poly(r_) == P.poly(a_.value):
                                    stops = True
                        newend = P.poly(a_.value)
                        within = D and _const_of(_padd(_padd(newend, P.poly(sl.lower), -1), D, -1))
                        if stops or (within is not None and within is not False and within <= 0):
                            continue
                        if accumulates:
                            problems.append("`%s` (under `%s`) moves the end of the chunk beyond start + stride while the "
                                            "loop goes on: the next chunk starts at start + %s, inside this one, and the "
                                            "samples in the overlap are accumulated twice" % (
                                                pf.src(a_), pf.src(n.test)[:60], _ptext(D)))
                        else:
                            undecided = undecided or "conditional chunk end %s" % pf.src(a_)
    # accumulation
    for n in ast.walk(lp):
        if isinstance(n, ast.Assign):
            for t in n.targets:
                if isinstance(t, ast.Subscript) and pf.base_name(t) in bufs:
                    v = n.value
                    if not (isinstance(v, ast.BinOp) and isinstance(v.op, ast.Add)
                            and pf.src(t) in (pf.src(v.left), pf.src(v.right))):
                        problems.append("`%s` overwrites the shared accumulation buffer instead of adding to it" % pf.src(n))
        if isinstance(n, ast.AugAssign) and pf.base_name(n.target) in bufs and not isinstance(n.op, ast.Add):
            problems.append("`%s` is not an additive accumulation" % pf.src(n))
    if problems:
        chk.violation("chunk-loop", XE, fq, "chunk loop over %s" % x1, lp.lineno,
                      "; ".join(problems) + " (results must not depend on the chunk size)", instance=inst)
    elif undecided is not None or not verdict_ok:
        raise core.AnalysisError("%s: coverage of [0, N) by the chunk loop is not decided (%s): neither one of the "
                                 "accepted schemes nor a scheme with an exhibitable uncovered remainder" % (fq, undecided))
    else:
        chk.ok("chunk-loop", inst)


def _upper_candidates(P, e, depth=0):
    """polynomials whose minimum is the value of e: min(a, b) -> both, x +/- const -> shifted candidates"""
    e = P.resolve(e)
    if depth < 6 and isinstance(e, ast.Call) and pf.call_name(e) in ("min", "np.minimum") and len(e.args) >= 2:
        out = []
        for a in e.args:
            out += _upper_candidates(P, a, depth + 1)
        return out
    if depth < 6 and isinstance(e, ast.BinOp) and isinstance(e.op, (ast.Add, ast.Sub)):
        for x, y, sgn in ((e.left, e.right, 1 if isinstance(e.op, ast.Add) else -1),) + (
                ((e.right, e.left, 1),) if isinstance(e.op, ast.Add) else ()):
            c = _const_of(P.poly(y))
            if c is not None and isinstance(P.resolve(x), ast.Call):
                return [_padd(p_, {(): c}, sgn) for p_ in _upper_candidates(P, x, depth + 1)]
    return [P.poly(e)]


def _is_ceil_times(P, bound, Npoly, D):
    """bound == ceil(N / D) * D for one of the ceil idioms"""
    if len(bound) != 1:
        return False
    for k in bound:
        for atom in k:
            node = P.atoms.get(atom)
            if node is not None and _is_ceil_div(P, node, Npoly, D) and bound == _pmul({(atom,): 1}, D):
                return True
    return False


# ----------------------------------------------------------------------------
# rule cache-mutate: an intermediate saved by one method for a later one is not updated in place by its reader
# ----------------------------------------------------------------------------
ALLOC_ONLY = {"empty", "zeros", "ones", "ndarray", "empty_like", "zeros_like", "ones_like", "_empty_aligned"}


def _cache_binders(P, cls, attr):
    """methods (other than __init__) that bind self.attr / a slot of it to a *computed* value (not None, not an
    empty literal, not a bare allocation: those are scratch buffers, which everybody may refill)"""
    out = []
    for c in _related_classes(P, cls):
        for f in P.class_funcs.get(id(c), {}).values():
            if f.node.name == "__init__":
                continue
            for n in pf.walk_no_nested(f.node):
                vals = []
                if isinstance(n, ast.Assign):
                    for t in n.targets:
                        for x in (t.elts if isinstance(t, ast.Tuple) else [t]):
                            b = x
                            while isinstance(b, ast.Subscript):
                                b = b.value
                            if pf.is_self_attr(b, attr):
                                vals.append(n.value)
                elif isinstance(n, ast.Call) and isinstance(n.func, ast.Attribute) and n.func.attr in ("append", "extend"):
                    b = n.func.value
                    while isinstance(b, ast.Subscript):
                        b = b.value
                    if pf.is_self_attr(b, attr):
                        vals += list(n.args)
                for v in vals:
                    if isinstance(v, ast.Constant) and v.value is None:
                        continue
                    if isinstance(v, (ast.List, ast.Dict, ast.Tuple)) and not (v.keys if isinstance(v, ast.Dict) else v.elts):
                        continue
                    if isinstance(v, ast.Call) and (pf.call_name(v) or "").split(".")[-1] in ALLOC_ONLY:
                        continue
                    if isinstance(v, ast.Name) and any(
                            isinstance(m, ast.Assign) and any(isinstance(t, ast.Name) and t.id == v.id for t in m.targets)
                            and isinstance(m.value, ast.Call) and (pf.call_name(m.value) or "").split(".")[-1] in ALLOC_ONLY
                            for m in pf.walk_no_nested(f.node)):
                        continue  # `buf = np.empty(..); ...; self._buf = buf`: a scratch buffer kept for reuse
                    if f not in out:
                        out.append(f)
    return out


def rule_cache_mutate(chk, P):
    n_caches = 0
    seen_attr = {}
    for f in sorted(P.funcs.values(), key=lambda x: x.key):
        if f.cls is None:
            continue
        # attributes this method reads back
        for r, texts in sorted(f.state.items()):
            parts, key = effects.state_parts(r)
            own = sorted(t for t in texts if "->" not in t and not t.startswith("weak: "))
            if len(parts) != 1 or not own:
                continue
            attr = parts[0]
            bs = seen_attr.setdefault((id(f.cls), attr), _cache_binders(P, f.cls, attr))
            if not bs:
                continue  # a scratch buffer / plain state, not something saved for a later call
            inst = "%s:%s updates the saved intermediate self.%s in place" % (f.rel, f.qual, attr)
            if f in bs:
                chk.ok("cache-mutate", "%s:%s fills self.%s which it saves itself" % (f.rel, f.qual, attr), nontrivial=False)
                continue
            chk.violation("cache-mutate", f.rel, f.qual, "self.%s: %s" % (attr, own[0][:80]), f.node.lineno,
                          "`%s` writes in place into storage read back from self.%s, an intermediate that %s saved for "
                          "later calls (through a plain alias / view of it): the saved value is no longer what was "
                          "computed, so a second %s on the same saved data gives a different result" % (
                              own[0][:90], attr, ", ".join(sorted(b.qual for b in bs)), f.node.name), instance=inst)
    # obligations: every (saved intermediate, reader) pair that is not written
    for m2, c in P.prog.all_classes():
        attrs = set()
        for fn in P.class_funcs.get(id(c), {}).values():
            for n in pf.walk_no_nested(fn.node):
                if pf.is_self_attr(n) and isinstance(n.ctx, ast.Load):
                    attrs.add(n.attr)
        for attr in sorted(attrs):
            bs = seen_attr.setdefault((id(c), attr), _cache_binders(P, c, attr))
            if not bs:
                continue
            n_caches += 1
            for fn in P.class_funcs.get(id(c), {}).values():
                if fn in bs or fn.node.name == "__init__":
                    continue
                reads = any(pf.is_self_attr(n, attr) and isinstance(n.ctx, ast.Load) for n in pf.walk_no_nested(fn.node))
                written = any(effects.state_parts(r)[0] == (attr,) and any(
                    "->" not in t and not t.startswith("weak: ") for t in texts) for r, texts in fn.state.items())
                if reads and not written:
                    chk.ok("cache-mutate", "%s:%s reads the saved self.%s without writing into it" % (fn.rel, fn.qual, attr))
    chk.count("attributes holding intermediates saved by one method for another", n_caches)


# ----------------------------------------------------------------------------
# rule cache-clobber: only the producer of a produce/consume pair refills the keyed caches the consumer reads
# ----------------------------------------------------------------------------
GEN_PAIRS = [(GEN, "LCAONLDFGenerator", "get_features", "get_potential"),
             (SDMX, "EXXSphGenerator", "get_features", "get_vxc_")]


def _call_closure(P, f):
    """functions reachable from f along strongly resolved calls (f included)"""
    seen, todo = {f.key: f}, [f]
    while todo:
        g = todo.pop()
        for n in ast.walk(g.node):
            if isinstance(n, ast.Call):
                for callee, strong, _r in P.resolve(n, g):
                    if strong and callee.key not in seen:
                        seen[callee.key] = callee
                        todo.append(callee)
    return seen


def rule_cache_clobber(chk, P):
    for rel, cname, prod, cons in GEN_PAIRS:
        fp = P.funcs.get((rel, "%s.%s" % (cname, prod)))
        fc = P.funcs.get((rel, "%s.%s" % (cname, cons)))
        if fp is None or fc is None:
            r1 = ks.locate(P.tree, rel, "%s.%s" % (cname, prod))
            r2 = ks.locate(P.tree, rel, "%s.%s" % (cname, cons))
            fp = P.funcs.get((r1[0], pf.qualname(r1[1])))
            fc = P.funcs.get((r2[0], pf.qualname(r2[1])))
            if fp is None or fc is None:
                raise core.AnalysisError("%s: %s / %s lie outside the analysed modules" % (cname, prod, cons))
        slots = {root for (root, key), kinds in fp.slot_stores.items() if "fill" in kinds and key and not key.startswith("const:")}
        chk.count("keyed caches filled by %s.%s" % (cname, prod), len(slots))
        if not slots:
            chk.ok("cache-clobber", "%s:%s.%s fills no keyed cache" % (rel, cname, prod), nontrivial=False)
            continue
        exempt = set(_call_closure(P, fp)) | set(_call_closure(P, fc))
        cls = fp.cls
        classes = {id(c) for c in _related_classes(P, cls)}
        for g in sorted(P.funcs.values(), key=lambda x: x.key):
            if g.cls is None or id(g.cls) not in classes or g.outer is not None or g.key in exempt \
                    or g.node.name == "__init__":
                continue
            hits = sorted((root, key) for (root, key), kinds in g.slot_stores.items() if "fill" in kinds and root in slots)
            inst = "%s:%s leaves the caches of %s/%s alone" % (g.rel, g.qual, prod, cons)
            if not hits:
                chk.ok("cache-clobber", inst)
                continue
            # invalidation: the method also empties the generator's own per-key cache, so the consumer refuses to run
            own = {root for root in slots if root.count(".") == 1}
            invalidated = any(root in own and kinds == {"clear"} for (root, key), kinds in g.slot_stores.items())
            bad = [h for h in hits if h not in g.slot_restores]
            if not bad or invalidated:
                chk.ok("cache-clobber", inst + (" (saved and restored)" if not bad else " (consumer invalidated)"))
                continue
            for root, key in bad:
                kt = key.split(":", 1)[1] if key else "?"
                chk.violation("cache-clobber", g.rel, g.qual, "%s[%s]" % (root, kt), g.node.lineno,
                              "%s (directly or through its callees) refills the keyed cache %s[%s], which %s.%s fills for a "
                              "later %s.%s; %s is neither of them and neither restores the slot nor invalidates the "
                              "pending %s: after %s -> %s -> %s the potential is built from caches of two different "
                              "densities" % (g.qual, root, kt, cname, prod, cname, cons, g.node.name, cons, prod,
                                             g.node.name, cons),
                              instance="%s:%s refills %s[%s]" % (g.rel, g.qual, root, kt))


# ----------------------------------------------------------------------------
# rule cache-grow-reset: a per-call list cache is emptied before it is refilled, on every path
# ----------------------------------------------------------------------------
def _gr_self_attr(e):
    if isinstance(e, ast.Subscript):
        e = e.value
    if isinstance(e, ast.Attribute) and isinstance(e.value, ast.Name) and e.value.id == "self":
        return e.attr
    return None


def _gr_growths(fn):
    out = []
    for st in pf.walk_no_nested(fn):
        if isinstance(st, ast.Expr) and isinstance(st.value, ast.Call) and isinstance(st.value.func, ast.Attribute) \
                and st.value.func.attr in ("append", "extend", "insert"):
            a = _gr_self_attr(st.value.func.value)
            if a:
                out.append((a, st))
        if isinstance(st, ast.AugAssign) and isinstance(st.op, ast.Add) and isinstance(st.value, (ast.List, ast.ListComp)):
            a = _gr_self_attr(st.target)
            if a:
                out.append((a, st))
    return out


def _gr_resets(fn):
    """statements that re-bind self.A / self.A[k] to a value that does not depend on the old self.A, or clear it"""
    out = []
    for st in pf.walk_no_nested(fn):
        if isinstance(st, ast.Assign):
            for t in st.targets:
                a = _gr_self_attr(t)
                if a and not any(_gr_self_attr(x) == a for x in ast.walk(st.value) if isinstance(x, (ast.Attribute, ast.Subscript))):
                    out.append((a, st))
        if isinstance(st, ast.Expr) and isinstance(st.value, ast.Call) and isinstance(st.value.func, ast.Attribute) \
                and st.value.func.attr == "clear":
            a = _gr_self_attr(st.value.func.value)
            if a:
                out.append((a, st))
    return out


def rule_grow_reset(chk):
    """A list attribute that a class both grows (`self.A.append/extend`, also `self.A[k].append`) and re-binds to a fresh
    container outside __init__ is a per-call cache whose consumers index it from 0.  In every public method that grows
    it (private helpers inlined), every path from the entry to a growth passes a statement that re-binds the attribute
    (or the slot) to a value independent of its old contents: otherwise a second call on the same object appends to the
    vectors of the first call and the consumers read the earlier call's data."""
    from sa import hinline
    rels = [PLANS, GEN, SDMX, NUMINT, XE]
    prog = pf.Program(chk.tree, rels)
    for rel in rels:
        mod = prog.module(rel)
        for cname, cls in sorted(mod.classes.items()):
            meths = [m for m in cls.body if isinstance(m, ast.FunctionDef)]
            grown = {a for m in meths for a, _ in _gr_growths(m)}
            caches = grown & {a for m in meths if m.name != "__init__" for a, _ in _gr_resets(m)}
            if not caches:
                continue
            for m in meths:
                if m.name.startswith("_"):
                    continue
                fn = hinline.inline_helpers(m, hinline.class_resolver(prog, mod, cls), depth=3)
                gs = [(a, st) for a, st in _gr_growths(fn) if a in caches]
                if not gs:
                    continue
                g = cfgm.CFG(fn)
                rs = {}
                for a, st in _gr_resets(fn):
                    rs.setdefault(a, set()).add(id(st))
                for a in sorted({a for a, _ in gs}):
                    block = {n.id for n in g.nodes if n.ast is not None and id(n.ast) in rs.get(a, ())}
                    seen, todo = set(), [g.entry.id]
                    while todo:
                        u = todo.pop()
                        if u in seen or u in block:
                            continue
                        seen.add(u)
                        todo.extend(g.succ[u])
                    mine = [st for a2, st in gs if a2 == a]
                    if any(id(st) not in g.by_ast for st in mine):
                        raise core.AnalysisError("%s:%s.%s: growth of self.%s not found in the control-flow graph" % (
                            rel, cname, m.name, a))
                    bad = [st for st in mine if g.by_ast[id(st)].id in seen]
                    inst = "%s:%s.%s empties self.%s before refilling it on every path" % (rel, cname, m.name, a)
                    if not bad:
                        chk.ok("cache-grow-reset", inst)
                    else:
                        chk.violation("cache-grow-reset", rel, "%s.%s" % (cname, m.name), "self.%s grown without reset" % a,
                                      m.lineno,
                                      "a path from the entry of %s.%s reaches `%s` without re-binding self.%s to a fresh "
                                      "container (the class resets this list elsewhere, and its consumers index it from 0): "
                                      "on a second call on the same object the new vectors are appended behind those of the "
                                      "earlier call, so the consumers read the earlier call's data" % (
                                          cname, m.name, pf.src(bad[0])[:80], a), instance=inst)


# ----------------------------------------------------------------------------
# rule memo-invalidate: a memoised attribute is reset by every method that changes what it was computed from
# ----------------------------------------------------------------------------
def _self_loads(prog, mod, cls, fn, skip=(), _seen=None):
    """attributes of self read by fn, following self.method() calls and properties inside the class hierarchy"""
    _seen = _seen if _seen is not None else set()
    if id(fn) in _seen:
        return set()
    _seen.add(id(fn))
    out = set()
    skip_ids = {id(x) for s_ in skip for x in ast.walk(s_)}
    for n in pf.walk_no_nested(fn):
        if id(n) in skip_ids:
            continue
        if pf.is_self_attr(n) and isinstance(n.ctx, ast.Load):
            r = prog.find_method(mod, cls, n.attr)
            if r is not None:
                out |= _self_loads(prog, r[0], cls, r[2], (), _seen)
            else:
                out.add(n.attr)
    return out


def rule_memo(chk):
    prog = pf.Program(chk.tree, EFF_MODULES)
    n_memo = 0
    for mod, cls in prog.all_classes():
        for mname, m in pf.methods(cls).items():
            for g in pf.walk_no_nested(m):
                if not (isinstance(g, ast.If) and g.body and isinstance(g.body[-1], ast.Return)
                        and pf.is_self_attr(g.body[-1].value)):
                    continue
                memo = g.body[-1].value.attr
                if not any(pf.is_self_attr(x, memo) for x in ast.walk(g.test)):
                    continue
                fills = [n for n in pf.walk_no_nested(m) if isinstance(n, ast.Assign)
                         and any(pf.is_self_attr(t, memo) for t in n.targets)
                         and not (isinstance(n.value, ast.Constant) and n.value.value is None)]
                if not fills:
                    continue  # a plain override / default, not a memo of something computed here
                n_memo += 1
                deps = _self_loads(prog, mod, cls, m, skip=[g]) - {memo}
                related = [(mod, cls)] + [(m2, c2) for m2, c2 in prog.all_classes()
                                          if c2 is not cls and any(cc is cls for _, cc in prog.mro(m2, c2))]
                related += prog.mro(mod, cls)[1:]
                seen = set()
                for m2, c2 in related:
                    for gname, gf in pf.methods(c2).items():
                        if gf is m or gname == "__init__" or id(gf) in seen:
                            continue
                        seen.add(id(gf))
                        changed = set()
                        resets = False
                        for n in pf.walk_no_nested(gf):
                            tg = n.targets if isinstance(n, ast.Assign) else ([n.target] if isinstance(n, ast.AugAssign) else [])
                            for t in tg:
                                for x in (t.elts if isinstance(t, ast.Tuple) else [t]):
                                    if pf.is_self_attr(x) and x.attr in deps:
                                        changed.add(x.attr)
                                    if pf.is_self_attr(x, memo):
                                        resets = True
                        if not changed:
                            continue
                        inst = "%s:%s.%s changes %s of memo self.%s (%s.%s)" % (
                            m2.rel, c2.name, gname, sorted(changed), memo, cls.name, mname)
                        if resets:
                            chk.ok("memo-invalidate", inst)
                        else:
                            chk.violation("memo-invalidate", m2.rel, "%s.%s" % (c2.name, gname),
                                          "self.%s not reset when self.%s changes" % (memo, "/".join(sorted(changed))),
                                          gf.lineno,
                                          "%s.%s returns the cached self.%s while `%s` holds, and computes it from "
                                          "self.{%s}; %s.%s assigns self.%s without resetting self.%s, so the next "
                                          "%s() returns the value computed for the previous %s" % (
                                              cls.name, mname, memo, pf.src(g.test)[:80], ", ".join(sorted(deps)),
                                              c2.name, gname, "/".join(sorted(changed)), memo, mname,
                                              "/".join(sorted(changed))), instance=inst)
    chk.count("memoised attributes (early `return self.M` + fill in the same method)", n_memo)


# ----------------------------------------------------------------------------
def analyse(chk):
    # spin loops (`for s in range(2)`, comprehensions over the two spins) are analysed as their two iterations
    orig_tree = chk.tree
    chk.tree = unroll.view(orig_tree)
    try:
        _analyse_rules(chk)
    finally:
        chk.tree = orig_tree
    chk.guard(lambda c_: core.include_findings(
        c_, 'C15', files=['ciderpress/models/kernels.py'], rules=['lock-'],
        why='a re-entrancy lock left set after a call (normal or exceptional exit) changes what every later call of '
            'the same kernel object computes: KernelEvaluator results depend on the call history'))


def _analyse_rules(chk):
    chk.rule("batch-index", "batch-axis subscripts are enclosing batch induction variables / full slices / guarded literals")
    chk.rule("cache-typestate", "generator consume is preceded by its produce in the same batch iteration and spin slot")
    chk.rule("hidden-write", "API entry points write only output buffers (alias + effect summaries)")
    chk.rule("reinit", "generator reuse compares every constructor input, records it, siblings prepare alike")
    chk.rule("ctor-roundtrip", "NLDFAuxiliaryPlan.new feeds back raw constructor arguments")
    chk.rule("chunk-loop", "KernelEvaluator chunk loop covers [0,N) and accumulates")
    chk.rule("stale-identity", "kept generators built from mol / grids are keyed on data derived from them, not on object identity")
    chk.rule("reinit-reset", "reset()/build() clear the kept generators and are reached from the KS wrapper on every path")
    chk.rule("cache-clobber", "only the producer refills the keyed caches its consumer reads, unless the slot is restored or the consumer invalidated")
    chk.rule("cache-mutate", "intermediates saved by one method for a later one are not updated in place by their readers")
    chk.rule("cache-alias", "values stored into keyed per-object state do not alias a reusable instance buffer")
    chk.rule("kernel-input-write", "hidden-write restricted to ciderpress/models (kernel inputs X, Y are not mutated)")
    chk.rule("plan-init", "every driver initialises the integrator's feature plans with its own nspin before eval_xc_cider")
    chk.rule("out-shared", "two results produced into the same out= buffer are not both live")
    chk.rule("attr-init", "integrator attributes set by later methods are created in __init__")
    chk.rule("memo-invalidate", "methods that change the inputs of a memoised attribute reset the memo")
    bfs = chk.guard(rule_batch_index)
    if bfs is not None:
        chk.guard(rule_cache_typestate, bfs)
    chk.guard(rule_hidden_write)
    chk.guard(rule_reinit)
    chk.guard(rule_reinit_reset)
    chk.guard(rule_ctor_roundtrip)
    chk.guard(rule_chunk_loop)
    chk.guard(rule_memo)
    chk.guard(rule_batch_reduce)
    chk.guard(rule_plan_init)
    chk.guard(rule_out_shared)
    chk.guard(rule_attr_init)
    chk.rule("cache-grow-reset", "a per-call list cache is re-bound to a fresh container before it is grown, on every path of every public method")
    chk.guard(rule_grow_reset)
    chk.floor("cache-grow-reset", 3, "FracLaplPlan (get_feat, get_occd) and NLDFAuxiliaryPlan (eval_rho_vi_, eval_rho_full, eval_occd_full) list caches")
    chk.floor("plan-init", 8, "12 integrators / force drivers")
    chk.floor("out-shared", 2, "functions producing several results with out=")
    chk.floor("attr-init", 3, "integrator attributes set by build / initialize_feature_generators")
    chk.floor("batch-index", 55, "130 classified batch-axis indexes in 12 functions on the pinned tree")
    chk.floor("cache-typestate", 8, "11 consume sites + spin forwarding in the generator")
    chk.floor("hidden-write", 350, "non-buffer parameters of the dft/pyscf API entry points incl. constructors")
    chk.floor("kernel-input-write", 100, "non-buffer parameters of the kernels.py / dft_kernel.py entry points")
    chk.floor("cache-clobber", 2, "other methods of the NLDF generator (and the SDMX generator pair)")
    chk.floor("stale-identity", 3, "sdmxgen/mol, nldfgen/mol, nldfgen/grids")
    chk.floor("cache-mutate", 4, "readers of the generators' / plans' saved intermediates")
    chk.floor("cache-alias", 8, "8 keyed stores + the per-object scratch buffers")
    chk.floor("reinit", 8, "3 classes x (inputs compared, recorded, sibling preparation)")
    chk.floor("reinit-reset", 3, "2 kept generators x 2 hooks + 2 wrapper hooks")
    chk.floor("ctor-roundtrip", 30, "every constructor parameter of the 3 NLDF plan classes, forwarded and fed back raw")
    chk.floor("chunk-loop", 1, "KernelEvaluator.__call__")
    chk.assumptions += [
        "ndarray element stores copy data (A[i] = B does not make A alias B); python list/dict literals keep references",
        "numpy/pyscf calls do not write their arguments except through out=, np.copyto/put/place/putmask/"
        "fill_diagonal, ufunc.at and the frozen pyscf table (_gga_grad_sum_, _tau_grad_dot_, _dot_ao_ao_sparse, "
        "_scale_ao_sparse)",
        "calls through untyped callables (counted in `analysed`) and ctypes calls are assumed not to write caller arrays",
        "output-buffer convention: a frozen list of buffer names, an optional `=None` parameter that the function "
        "allocates itself when missing, or the first data argument of a function with an `inplace` switch",
        "np.asarray/ascontiguousarray/asfortranarray/reshape/ravel/squeeze/astype(copy=False) may return their "
        "argument; np.ndarray(buffer=b) is a view of b and marks b as about to be overwritten",
        "a store `self.A[key] = v` / `self.A[key].append(v)` with a plain key rebinds a slot of a python container; "
        "loops around scratch-buffer uses run; scratch buffers selected by a run-time key are per-key",
    ]
    chk.not_decided += [
        "bit-equality of results for different blksize / max_memory (numerical)",
        "writes performed by the C kernels through ctypes pointers",
        "aliasing that goes through object state between two calls (e.g. arrays stored in self._cache and written "
        "by a later call)",
    ]


def _linspace_chunks(text):
    a = "        for i0 in range(0, N, dn):\n            i1 = min(N, i0 + dn)\n"
    if a not in text:
        return None
    return text.replace(a, "        nchunk = max(1, -(-N // dn))\n        bounds = np.linspace(0, N, nchunk + 1)\n"
                        "        for c in range(nchunk):\n"
                        "            i0, i1 = int(np.floor(bounds[c])), int(np.ceil(bounds[c + 1]))\n", 1)


def mutants(tree):
    return [
        Mutant("NLDF plan l=1 cache no longer emptied before the refill", PLANS,
               "        self._clear_l1_cache(spin)\n        self._cache_l1_vectors(f_qg[start:], rho_data[1:4], spin)\n",
               "        self._cache_l1_vectors(f_qg[start:], rho_data[1:4], spin)\n", count=1, expect="cache-grow-reset"),
        Mutant("stale loop variable in nr_rks_nldf", NUMINT, "nelec[idm] += den.sum()", "nelec[i] += den.sum()",
               expect="batch-index"),
        Mutant("stale loop variable in rks_grad.get_vxc_nldf", RKSG, "excsum[idm] += np.dot(den, exc)",
               "excsum[i] += np.dot(den, exc)", expect="batch-index"),
        Mutant("literal batch index without guard", NUMINT, "    if nset == 1:\n        nelec = nelec[0]",
               "    if nset >= 1:\n        nelec = nelec[0]", expect="batch-index"),
        Mutant("make_rho called with stale index", NUMINT, "rho_full[i, :, ip0:ip1] = make_rho(i, ao, mask, xctype)",
               "rho_full[i, :, ip0:ip1] = make_rho(idm, ao, mask, xctype)", expect="batch-index"),
        Mutant("batch loop nested in generator loop (uks)", NUMINT,
               "        wva = wva_full[i, :, ip0:ip1]\n        wvb = wvb_full[i, :, ip0:ip1]\n",
               "        for k in range(nset):\n            v1[0, k] += 0.0\n        wva = wva_full[i, :, ip0:ip1]\n"
               "        wvb = wvb_full[i, :, ip0:ip1]\n", expect="batch-index"),
        Mutant("consume the wrong spin slot", UKSG, "ni.nldfgen.get_features(rhob_full, spin=1)",
               "ni.nldfgen.get_features(rhob_full, spin=0)", expect="cache-typestate"),
        Mutant("get_potential before get_features", UKSG,
               "        wva_full[:, :] += ni.nldfgen.get_potential(vxc_nldf_full[0], spin=0)\n", "",
               fn=_move_potential_first, expect="cache-typestate"),
        Mutant("sdmx potential for another batch element", NUMINT, "ni.sdmxgen.get_vxc_(vmat[idm], vxc_sdmx[0] * weight)",
               "ni.sdmxgen.get_vxc_(vmat[0], vxc_sdmx[0] * weight)", expect=None),
        Mutant("spin not forwarded to plan cache", GEN, "            vf=vf_gq,\n            spin=spin,\n",
               "            vf=vf_gq,\n", expect="cache-typestate"),
        Mutant("write to a non-buffer parameter (get_s2)", SETTINGS, "    s[cond] = 0.0\n    return s * s",
               "    sigma[cond] = 0.0\n    return s * s", expect="hidden-write"),
        Mutant("dominating copy removed (get_cider_exponent_gga)", SETTINGS,
               "    cond = rho < rhocut\n    rho = rho.copy()\n    sigma = sigma.copy()\n    rho[cond] = rhocut\n    sigma[cond] = 0\n    if nspin == 1:\n        B = np.pi / 2 ** (2.0 / 3) * a0",
               "    cond = rho < rhocut\n    sigma = sigma.copy()\n    rho[cond] = rhocut\n    sigma[cond] = 0\n    if nspin == 1:\n        B = np.pi / 2 ** (2.0 / 3) * a0",
               expect="hidden-write"),
        Mutant("alias instead of fresh array (eval_xc_cider)", NUMINT, "        vxc = np.zeros_like(rho)\n",
               "        vxc = rho\n", expect="hidden-write"),
        Mutant("in-place scaling of the input cotangent (SemilocalPlan)", PLANS,
               "        vxc[:, 0] += self.nspin * vfeat[:, 0]\n        # fmt: off\n        vxc[:, 1:4] += (\n            (self.nspin * self.nspin * 2 * vfeat[:, 1])[:, None, :]\n            * rho[:, 1:4]\n        )\n        # fmt: on\n        vxc[:, 4]",
               "        vfeat[:, 0] *= self.nspin\n        vxc[:, 0] += vfeat[:, 0]\n        # fmt: off\n        vxc[:, 1:4] += (\n            (self.nspin * self.nspin * 2 * vfeat[:, 1])[:, None, :]\n            * rho[:, 1:4]\n        )\n        # fmt: on\n        vxc[:, 4]",
               expect="hidden-write"),
        Mutant("view returned by helper is written by caller (normalizer)", FN,
               "        rho_term = np.maximum(X0T[:, 0], self.cutoff)\n        grad_term = X0T[:, 1]\n",
               "        rho_term = X0T[:, 0]\n        grad_term = X0T[:, 1]\n", expect="hidden-write"),
        Mutant("forget to record grids", NUMINT,
               "        super().initialize_feature_generators(mol, grids, nspin)\n        self.grids = grids\n\n\nclass NLDFNLOFNumInt",
               "        super().initialize_feature_generators(mol, grids, nspin)\n\n\nclass NLDFNLOFNumInt",
               expect="reinit"),
        Mutant("drop nspin from the reuse condition", NUMINT,
               "        return self._mol_changed(mol) or self.nldfgen.plan.nspin != nspin\n",
               "        return self._mol_changed(mol)\n", expect="reinit"),
        Mutant("sdmx generator reused for another molecule", NUMINT,
               "        cond = cond or self._mol_changed(mol)\n        cond = cond or self.sdmxgen.plan.nspin != nspin",
               "        cond = cond or self.sdmxgen.plan.nspin != nspin", expect="reinit"),
        Mutant("mol no longer recorded by the mixin", NUMINT,
               "            self.sdmxgen = self.sdmx_init.initialize_sdmx_generator(mol, nspin)\n        self.mol = mol\n",
               "            self.sdmxgen = self.sdmx_init.initialize_sdmx_generator(mol, nspin)\n", expect="reinit"),
        Mutant("UKS force drivers reuse the plans of the previous call", UKSG,
               "    ni.initialize_feature_generators(mol, grids, 2)\n", "", count=1, expect="plan-init"),
        Mutant("RKS integrator initialises spin-polarised plans", NUMINT,
               "    ni.initialize_feature_generators(mol, grids, 1)\n", "    ni.initialize_feature_generators(mol, grids, 2)\n",
               count=1, expect="plan-init"),
        Mutant("plain and convolved orbitals share the work buffer", "ciderpress/pyscf/sdmx_slow.py",
               "cutoff=cutoff, out=aobuf)\n        n0 = self.plan.num_l0_feat", "cutoff=cutoff, out=buf)\n        n0 = self.plan.num_l0_feat",
               expect="out-shared"),
        Mutant("integrator plan slot created only by build()", NUMINT,
               "        self.nldfgen = None\n        self.sl_plan = None\n        self.fl_plan = None\n        # nr_rks",
               "        self.nldfgen = None\n        self.fl_plan = None\n        # nr_rks", expect="attr-init"),
        Mutant("spline plan copy loses its spline size", PLANS,
               '        kwargs["spline_size"] = self._spline_size_input\n', "", expect="ctor-roundtrip"),
        Mutant("plan copy loses the smooth exponent cutoff flag", PLANS,
               "            use_smooth_expnt_cutoff=self._use_smooth_expnt_cutoff,\n        )\n\n    def new(",
               "        )\n\n    def new(", expect="ctor-roundtrip"),
        Mutant("expcut stored transformed", PLANS, "        self.expcut = expcut\n", "        self.expcut = expcut / nspin\n",
               expect="ctor-roundtrip"),
        # --- round 2 -----------------------------------------------------------------------------------
        Mutant("cached conv_vq is the convolution buffer itself", GEN, "conv_vq.copy()", "conv_vq", expect="cache-alias"),
        Mutant("per-spin cache keeps the scratch buffer used for theta", GEN,
               '            "func_g": func_g,\n', '            "func_g": func_g,\n            "theta_uq": self._uq_buf[:, :1],\n',
               expect="cache-alias"),
        Mutant("plan-level coefficient buffer handed to the per-spin cache", PLANS, "", "", fn=_persistent_dbuf,
               expect="cache-alias"),
        Mutant("l=0 SDMX projections scaled through out=", PLANS, "        tmp = fac * vxc_ig[:n0, None] * l0tmp  # fqg\n",
               "        tmp = np.multiply(l0tmp, fac * vxc_ig[:n0, None], out=l0tmp)  # fqg\n", expect="hidden-write"),
        Mutant("positional out of a ufunc", FN, "        rho_term = np.maximum(X0T[:, 0], self.cutoff)\n        grad_term = X0T[:, 1]\n",
               "        rho_term = np.maximum(X0T[:, 0], self.cutoff, X0T[:, 0])\n        grad_term = X0T[:, 1]\n",
               expect="hidden-write"),
        Mutant("constructor normalises the caller's array through np.asarray", XE,
               '        self.consts = np.asarray(consts, dtype=np.float64, order="C")\n',
               '        self.consts = np.asarray(consts, dtype=np.float64, order="C")\n        self.consts /= np.abs(self.consts).max()\n',
               expect="hidden-write"),
        Mutant("attribute alias written by a subclass constructor", XE, "self._alpha = np.ascontiguousarray(alpha * scale)",
               "self._alpha = np.ascontiguousarray(alpha).ravel()", expect="hidden-write"),
        Mutant("kernel shifts its input in place", KERNELS, "            X = X - self.avg\n        if self.std is not None:\n            X = X / self.std\n        return X.dot(self.matrix)",
               "            X -= self.avg\n        if self.std is not None:\n            X = X / self.std\n        return X.dot(self.matrix)",
               expect="kernel-input-write"),
        Mutant("fractional-Laplacian plan kept across calls without comparing nspin", NUMINT,
               "        self.fl_plan = FracLaplPlan(self.settings.nlof_settings, nspin)\n        cond = self.sdmxgen is None",
               "        if self.fl_plan is None:\n            self.fl_plan = FracLaplPlan(self.settings.nlof_settings, nspin)\n        cond = self.sdmxgen is None",
               expect="reinit"),
        Mutant("nldf generator reuse ignores the grids (inline condition)", NUMINT, "", "", fn=_inline_cond_without_grids,
               expect="reinit"),
        Mutant("numint reset forgets the nldf generator", NUMINT,
               "    def reset(self, mol=None):\n        self.mol = mol\n        self.sl_plan = None\n        self.fl_plan = None\n        self.sdmxgen = None\n        self.nldfgen = None\n",
               "    def reset(self, mol=None):\n        self.mol = mol\n        self.sl_plan = None\n        self.fl_plan = None\n        self.sdmxgen = None\n",
               expect="reinit-reset"),
        Mutant("KS build skips the numint hook when no molecule is given", "ciderpress/pyscf/dft.py",
               "        self._numint.build(mol=mol)\n        return super().build(mol, **kwargs)",
               "        if mol is not None:\n            self._numint.build(mol=mol)\n        return super().build(mol, **kwargs)",
               expect="reinit-reset"),
        Mutant("memoised control-point covariance not reset by set_kernel", DFTKERNEL, "", "", fn=_memo_kctrl,
               expect="memo-invalidate"),
        # --- round 4 -----------------------------------------------------------------------------------
        Mutant("equal-size chunks drop the remainder", XE,
               "        for i0 in range(0, N, dn):\n            i1 = min(N, i0 + dn)\n",
               "        nblk = -(-N // dn)\n        blk = N // nblk\n        for i0 in range(0, nblk * blk, blk):\n            i1 = i0 + blk\n",
               expect="chunk-loop"),
        Mutant("super() hook runs before the reuse test (NLDFNLOFNumInt)", NUMINT, "", "", fn=_super_first,
               expect="reinit"),
        Mutant("molecule recorded before the sdmx reuse test", NUMINT,
               "        cond = self.sdmxgen is None\n        cond = cond or self._mol_changed(mol)\n",
               "        old_mol, self.mol = self.mol, mol\n        cond = self.sdmxgen is None\n        cond = cond or self._mol_changed(mol)\n",
               expect="reinit"),
        # --- round 9 -----------------------------------------------------------------------------------
        Mutant("saved l=0 projections scaled through a plain alias", PLANS,
               "        tmp = fac * vxc_ig[:n0, None] * l0tmp  # fqg\n",
               "        tmp = l0tmp\n        tmp *= fac * vxc_ig[:n0, None]  # fqg\n", expect="hidden-write"),
        Mutant("potential pass rescales the cached projections (sdmx generator)", SDMX,
               "        for idm in range(n_out):\n            tmp2 = self.plan.get_vxc(",
               "        for idm in range(n_out):\n            alpha_terms[idm] *= 1.0\n            tmp2 = self.plan.get_vxc(",
               expect="cache-mutate"),
        Mutant("potential pass updates the per-spin cache in place (nldf generator)", GEN,
               '        vfunc_g = np.einsum("gq,gq->g", cache["p_gq"], vtheta_gq)\n',
               '        pw = cache["p_gq"].T\n        pw[:] *= 1.0\n        vfunc_g = np.einsum("gq,gq->g", cache["p_gq"], vtheta_gq)\n',
               expect="cache-mutate"),
        Mutant("balanced chunks, divisor guarded by max", XE,
               "        for i0 in range(0, N, dn):\n            i1 = min(N, i0 + dn)\n",
               "        nb = (N + dn - 1) // dn\n        w = N // max(1, nb)\n        for b in range(nb):\n            i0 = b * w\n            i1 = (b + 1) * w\n",
               expect="chunk-loop"),
        # --- round 10: reverting the two repairs ---------------------------------------------------------
        Mutant("occ-derivative pass no longer restores the plan's spin-0 caches", GEN,
               "        self.plan._cached_p_i_qg[0], self.plan._cached_l1_data[0] = plan_cache\n", "", expect="cache-clobber"),
        Mutant("nldf generator keyed on the identity of the grids only", NUMINT,
               "        if indexer is not grids.grids_indexer or coords is not grids.coords:\n            return True\n", "",
               expect="stale-identity"),
        Mutant("molecule compared by identity only", NUMINT,
               "        for old, new in zip(self._mol_data, new_data):\n            if not np.array_equal(old, new):\n                return True\n",
               "", expect="stale-identity"),
        Mutant("molecule snapshot compared without its _env component", NUMINT,
               "        new_data = (mol._atm, mol._bas, mol._env)\n", "        new_data = (mol._atm, mol._bas)\n", expect="reinit"),
        Mutant("vmat screening uses the largest density matrix of the batch", NUMINT,
               "    pair_mask = mol.get_overlap_cond() < -np.log(ni.cutoff)\n",
               "    dm_cond = np.max([mol.condense_to_shell(dm, \"absmax\") for dm in dms], axis=0)\n"
               "    pair_mask = np.exp(-mol.get_overlap_cond()) * dm_cond > ni.cutoff\n", count=1, expect="batch-index"),
        Mutant("equal-size chunks from linspace with floored start and ceiled end", XE, "", "", fn=_linspace_chunks,
               expect="chunk-loop"),
        Mutant("short tail folded into the chunk without leaving the loop", XE,
               "            i1 = min(N, i0 + dn)\n",
               "            i1 = min(N, i0 + dn)\n            if N - i1 < 100:\n                i1 = N\n", expect="chunk-loop"),
        Mutant("chunk result overwritten", XE, "res[i0:i1] += k.dot(self.alpha)", "res[i0:i1] = k.dot(self.alpha)",
               expect="chunk-loop"),
        Mutant("chunk loop skips the first chunk", XE, "for i0 in range(0, N, dn):", "for i0 in range(dn, N, dn):",
               expect="chunk-loop"),
    ]


def _super_first(text):
    i = text.find("class NLDFNLOFNumInt(")
    if i < 0:
        return None
    head, tail = text[:i], text[i:]
    a = "        self._initialize_nldf_generator(mol, grids, nspin)\n"
    b = "        super().initialize_feature_generators(mol, grids, nspin)\n"
    if a not in tail or b not in tail:
        return None
    tail = tail.replace(b, "", 1).replace(a, b + a, 1)
    return head + tail


def _persistent_dbuf(text):
    """eval_rho_full: keep the coefficient scratch array on the plan and cache dp (a view of it) per spin"""
    a = "        dbuf = self.empty_coefs(ngrids, local=False)\n        for i in range(num_vj):\n            a_g = self.get_interpolation_arguments(rho_tuple, i=i)[0]"
    b = "                self._cache_p_tensor(spin, p)"
    if a not in text or b not in text:
        return None
    text = text.replace(a, "        if getattr(self, \"_dbuf\", None) is None or self._dbuf.shape[-1] != ngrids:\n"
                        "            self._dbuf = self.empty_coefs(ngrids, local=False)\n        dbuf = self._dbuf\n"
                        "        for i in range(num_vj):\n            a_g = self.get_interpolation_arguments(rho_tuple, i=i)[0]", 1)
    return text.replace(b, "                self._cache_p_tensor(spin, dp)", 1)


def _inline_cond_without_grids(text):
    a = "        if self._nldfgen_is_stale(mol, grids, nspin):\n"
    if a not in text:
        return None
    return text.replace(a, "        if self.nldfgen is None or self._mol_changed(mol) or not (self.nldfgen.plan.nspin == nspin):\n", 1)


def _memo_kctrl(text):
    a = '        Compute the covariance matrix of the control points.\n        """\n'
    b = "        self.Kmm = k\n        return self.Kmm\n"
    c = "        self.X1ctrl = X1\n\n    def get_kctrl(self):"
    if a not in text or b not in text or c not in text:
        return None
    text = text.replace(a, a + "        if getattr(self, \"_kctrl\", None) is not None and self._kctrl.shape[0] == self.Nctrl:\n"
                        "            return self._kctrl\n", 1)
    text = text.replace(b, "        self.Kmm = k\n        self._kctrl = k\n        return self._kctrl\n", 1)
    return text.replace(c, "        self.X1ctrl = X1\n        self._kctrl = None\n\n    def get_kctrl(self):", 1)


def _move_potential_first(text):
    a = "        wva_full[:, :] += ni.nldfgen.get_potential(vxc_nldf_full[0], spin=0)\n"
    b = "        nldf_feat = np.stack(\n            [\n                ni.nldfgen.get_features(rhoa_full, spin=0),"
    if a not in text or b not in text:
        return None
    return text.replace(a, "").replace(b, a + b)


if __name__ == "__main__":
    sys.exit(core.main(PROP, analyse, mutants, __doc__))
