import cider_build
import numpy as np, sys
from pyscf import gto, dft
from ciderpress.pyscf.gen_cider_grid import CiderGrids
from ciderpress.pyscf.nldf_convolutions import PyscfNLDFGenerator
from ciderpress.dft.settings import *
mol = gto.M(atom="O 0 0 0; H 0.15 0.85 0.45; F -0.75 -0.35 0.95", basis="def2-svp", verbose=0, spin=0)
ks = dft.RKS(mol); ks.xc = "PBE"; ks.kernel(); dm = ks.make_rdm1()
mo = ks.mo_coeff
P = np.outer(mo[:, 5], mo[:, 13]); P = P + P.T
grids = CiderGrids(mol, lmax=6); grids.level = 0; grids.build(with_non0tab=True)
ni = dft.numint.NumInt()
ao = ni.eval_ao(mol, grids.coords, deriv=1)
rho0 = ni.eval_rho(mol, ao, dm, xctype="MGGA", with_lapl=False)
drho = ni.eval_rho(mol, ao, P, xctype="MGGA", with_lapl=False)
for gm in [0.0, 0.3]:
    vj = NLDFSettingsVJ("MGGA", [1.0, gm, 0.03125], "one", ["se"], [[2.0, 0.0, 0.04]])
    g1 = PyscfNLDFGenerator.from_mol_and_settings(mol, grids.grids_indexer, 1, vj, plan_type="spline", interpolator_type="train_gen")
    g1.interpolator.set_coords(grids.coords)
    feat, occd = g1.get_features_and_occ_derivs(rho0, drho[None])
    d = 1e-4
    fp = g1.get_features_and_occ_derivs(rho0 + d*drho, np.empty(0))[0]
    fm = g1.get_features_and_occ_derivs(rho0 - d*drho, np.empty(0))[0]
    fd = (fp - fm) / (2*d)
    m = rho0[0] > 1e-6
    print("theta grad_mul", gm, "max|fd|", np.abs(fd[:, m]).max(), "max|occd|", np.abs(occd[0][:, m]).max(), "max|fd-occd|", np.abs(fd - occd[0])[:, m].max())
