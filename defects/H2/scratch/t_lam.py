from ref import *
import ref, sys
from ciderpress.pyscf.gen_cider_grid import CiderGrids
from ciderpress.pyscf.nldf_convolutions import PyscfNLDFGenerator
np.random.seed(0)
mol = gto.M(atom="H 0 0 0; F 0 0 0.9", basis="def2-svp", spin=0, verbose=0)
ks = dft.RKS(mol); ks.xc='PBE'; ks.grids.level=1; ks.kernel()
dm = ks.make_rdm1()
ni = NumInt()
th=[1.0,0.0,0.03125]; fp=[[2.0,0.0,0.04],[2.0,0.0,0.04,2.0]]
vj = NLDFSettingsVJ('MGGA', th, 'one', ["se","se_erf_rinv"], fp)
grids = CiderGrids(mol, lmax=10); grids.level=2; grids.build(with_non0tab=False)
rho = get_full_rho(ni, mol, dm, grids, 'MGGA')[0]
sel0 = np.where(rho[0] > 1e-3)[0]
sel = np.random.choice(sel0, 100, replace=False)
coords = grids.coords[sel]
refv = reference(mol, dm, vj, coords)
for plan in ['gaussian', 'spline']:
  for lam in [2.0, 1.8, 1.6, 1.5, 1.45, 1.4, 1.3]:
    gen = PyscfNLDFGenerator.from_mol_and_settings(mol, grids.grids_indexer, 1, vj, plan_type=plan, aux_lambd=lam, aug_beta=lam)
    gen.interpolator.set_coords(grids.coords)
    pred = gen.get_features(rho)[:, sel]
    err = np.abs(pred - refv).max(axis=1)
    scale = np.abs(refv).max(axis=1)
    print(plan, lam, gen.plan.nalpha, ' '.join('%.0e'%x for x in err/scale))
