"""DFTKernel.get_k_and_deriv in POL mode: the product-rule sum multiplies rank-3 gradient blocks
(Nsamp, Nctrl, N1) by rank-2 value blocks (Nsamp, Nctrl) without a trailing axis, and Nctrl reads
X1ctrl.shape[0] (= 2 in POL mode, where X1ctrl is (2, Nctrl, N1)).  Exit 1 on the defective tree.
Run: PYTHONPATH=<tree> /venv/bin/python demo.py"""
import sys
from unittest.mock import MagicMock
import numpy as np
import numpy.ctypeslib
numpy.ctypeslib.load_library = lambda *a, **k: MagicMock()
from ciderpress.models.dft_kernel import DFTKernel  # noqa: E402
from ciderpress.models.kernels import DiffRBF  # noqa: E402
from ciderpress.dft.transform_data import FeatureList, UMap  # noqa: E402

N0 = 3
fl = FeatureList([UMap(i, 0.5 + 0.1 * i) for i in range(N0)])
bad = 0
for Nsamp, Nctrl in [(5, 3), (4, 4), (2, 2), (3, 5)]:
    rng = np.random.default_rng(Nsamp * 10 + Nctrl)
    kern = DFTKernel(DiffRBF(length_scale=np.ones(N0)), fl, "POL", "RHO", "CHACHIYO", component="x")
    kern.X1ctrl = rng.random((2, Nctrl, N0))
    X0T = rng.random((2, N0, Nsamp)) + 0.2
    try:
        k, dk = kern.get_k_and_deriv(X0T)
    except ValueError as e:
        print("FAIL", (Nsamp, Nctrl), "ValueError:", str(e)[:80])
        bad += 1
        continue
    if dk.shape != (Nctrl, 2, N0, Nsamp):
        print("FAIL", (Nsamp, Nctrl), "dk.shape", dk.shape)
        bad += 1
        continue
    k0 = kern.get_k(X0T)
    err = abs(k - k0).max()
    fd = np.zeros_like(dk)
    h = 1e-6
    for s in range(2):
        for i in range(N0):
            Xp, Xm = X0T.copy(), X0T.copy()
            Xp[s, i] += h
            Xm[s, i] -= h
            # perturbing all samples at once: k[:, g] depends on sample g only
            fd[:, s, i] = (kern.get_k(Xp) - kern.get_k(Xm)) / (2 * h)
    derr = abs(fd - dk).max()
    ok = err < 1e-12 and derr < 1e-6
    print("ok  " if ok else "FAIL", (Nsamp, Nctrl), "value err %.1e  deriv err %.1e" % (err, derr))
    bad += not ok
sys.exit(1 if bad else 0)
