"""C07 / C08 -- ciderpress/dft/xc_evaluator.py : MappedDFTKernel.__call__,
low-density cutoff in the NPOL (and POL) branch

    cond = X0T[:, 0].sum(0) < rhocut

X0T[s, 0] is the nspin-scaled density feature (SemilocalPlan: feat[:,0] =
nspin * rho_s), i.e. every spin channel already carries the *total* density of
a closed-shell system.  Summing over the spin axis therefore compares
2 * n (nspin=2) but 1 * n (nspin=1) with rhocut.  (The SEP branch two lines
above compares X0T[s, 0] = 2 n_s with rhocut, which is consistent; the sibling
MappedDFTKernel2 uses the raw total density.)

Result: for rhocut/2 <= n < rhocut a closed-shell point evaluated through the
spin-polarised path keeps its machine-learned energy and feature derivative,
while the unpolarised path (and the documented cutoff) zeroes them.
"""
import sys
from unittest import mock

import numpy as np

# the ciderpress C libraries are not needed here: stub them (and only them)
_orig_load = np.ctypeslib.load_library
np.ctypeslib.load_library = lambda name, path: (
    mock.MagicMock() if "ciderpress" in str(path) else _orig_load(name, path)
)

from ciderpress.dft import baselines as B  # noqa: E402
from ciderpress.dft.settings import FeatureSettings, SemilocalSettings  # noqa: E402
from ciderpress.dft.transform_data import FeatureList, SLNMap, UMap  # noqa: E402
from ciderpress.dft.xc_evaluator import FuncEvaluator, MappedDFTKernel, MappedXC  # noqa: E402
from ciderpress.pyscf.numint import DEFAULT_RHOCUT, CiderNumInt  # noqa: E402


class Quad(FuncEvaluator):
    def __call__(self, X1, res=None, dres=None):
        c = 0.1 + 0.03 * np.arange(1, X1.shape[-1] + 1)
        res[:] += 1.0 + (X1**2).dot(c)
        dres[:] += 2 * X1 * c
        return res, dres


fails = []
fl = FeatureList([SLNMap(0, 2.0), UMap(1, 0.5), UMap(2, 1.0)])

# ---------- evaluator level ----------
rhocut = 1e-3
n = np.array([0.4e-3, 0.6e-3, 0.9e-3, 1.1e-3, 0.5])
X1 = np.stack([n, 0.3 + 0 * n, 0.7 + 0 * n])[None]  # (1, nfeat, N): n, s^2, alpha
X2 = np.concatenate([X1, X1])  # what SemilocalPlan(nspin=2) produces for n_up=n_dn=n/2
for mode in ["SEP", "NPOL"]:
    k = MappedDFTKernel(Quad(), fl, mode, B.lda_x, B.zero_xc)
    e1, d1 = k(X1.copy(), rhocut=rhocut)
    e2, d2 = k(X2.copy(), rhocut=rhocut)
    print("mode", mode, " rhocut =", rhocut, " n =", n)
    print("   e (nspin=1) =", e1)
    print("   e (nspin=2) =", e2)
    d = np.abs(e1 - e2).max()
    dv = np.abs(d1[0] - (d2[0] + d2[1])).max()
    print("   max |e1 - e2| = %.3e, max |de/dX (1) - sum_s de/dX (2)| = %.3e (expected ~1e-19)" % (d, dv))
    if d > 1e-12 or dv > 1e-12:
        fails.append("kernel-" + mode)

# ---------- CiderNumInt.eval_xc_cider, default rhocut (1e-9) ----------
settings = FeatureSettings(sl_settings=SemilocalSettings("npa"))
mlxc = MappedXC([MappedDFTKernel(Quad(), fl, "NPOL", B.lda_x, B.zero_xc)], settings)
ni = CiderNumInt(mlxc, "", None, None)
ni.build()
n = np.array([0.3e-9, 0.7e-9, 0.95e-9, 1.2e-9, 1e-3])
rho = np.zeros((5, n.size))
rho[0] = n
rho[1] = 0.1 * n
rho[4] = rho[1] ** 2 / (8 * n) + 0.5 * n ** (5.0 / 3)
ni.initialize_feature_generators(None, None, 1)
e1, (v1, _, _) = ni.eval_xc_cider("", rho, None, None)[:2]
ni.initialize_feature_generators(None, None, 2)
e2, (v2, _, _) = ni.eval_xc_cider("", np.stack([rho / 2, rho / 2]), None, None)[:2]
print("eval_xc_cider, rhocut =", DEFAULT_RHOCUT, " n =", n)
print("   exc*n (RKS path) =", e1 * n)
print("   exc*n (UKS path) =", e2 * n)
print("   vrho  (RKS path) =", v1[0])
print("   vrho  (UKS path) =", v2[0, 0])
below = n < DEFAULT_RHOCUT
bad = (e2[below] != 0) | (v2[0, 0][below] != 0)
print("   points below the cutoff with non-zero ML energy/potential in the UKS path:", n[below][bad])
if bad.any() or np.abs(v1[0] - v2[0, 0]).max() > 1e-4 * np.abs(v1[0]).max():
    fails.append("eval_xc_cider")

if fails:
    print("FAIL:", fails)
    sys.exit(1)
print("OK")
