"""
C15 -- DiffAntisymRBF.diag() is inherited from sklearn's normalised RBF and
returns all ones, but k(x, x) = 2 - 2 exp(-(x0 - x1)^2 / (2 l0^2)), which is
never 1 in general and is 0 when x0 == x1.

Expected: kernel.diag(X) == np.diag(kernel(X, X)), also through products
(the kernel built by kernel_plans.kernel_tools.get_antisym_rbf_kernel).
"""
import sys

import numpy as np

from ciderpress.models import kernels as K
from ciderpress.models.kernel_plans.kernel_tools import get_antisym_rbf_kernel

rng = np.random.default_rng(0)
X = rng.uniform(size=(6, 4))
X[0, 1] = X[0, 0]  # coincident first two features -> k(x, x) = 0
fails = []

kern = K.DiffAntisymRBF(np.array([0.5, 0.8, 1.1]))
kxx = kern(X)
print("min eigenvalue of k(X, X): %.3e (PSD)" % np.linalg.eigvalsh(kxx).min())
print("diag(X)          =", kern.diag(X))
print("diag of k(X, X)  =", np.diag(kxx))
if np.abs(kern.diag(X) - np.diag(kxx)).max() > 1e-12:
    fails.append("DiffAntisymRBF.diag")

kern2 = get_antisym_rbf_kernel(np.array([0.4, 0.6, 0.8, 1.1]), scale=3.0)
print("get_antisym_rbf_kernel: diag(X) =", kern2.diag(X))
print("                diag of k(X, X) =", np.diag(kern2(X)))
if np.abs(kern2.diag(X) - np.diag(kern2(X))).max() > 1e-12:
    fails.append("ConstantKernel * DiffAntisymRBF diag")

if fails:
    print("FAIL:", fails)
    sys.exit(1)
print("OK")
