import sys
sys.path.insert(0, '/tmp/hunt/H2/hunt_out/common')
import shim
import numpy as np
from pyscf import gto, dft
from pyscf.gto.eval_gto import eval_gto as eval_gto_fn
from pyscf.gto.mole import ANG_OF, NPRIM_OF, NCTR_OF, PTR_EXP, PTR_COEFF
from scipy.interpolate import CubicSpline

def conv_ao(mol, a, coords, deriv=0):
    """AO convolved with exp(-a u^2), evaluated at coords"""
    env = mol._env.copy()
    done = set()
    for b in mol._bas:
        l, npr, nc, pe, pc = b[ANG_OF], b[NPRIM_OF], b[NCTR_OF], b[PTR_EXP], b[PTR_COEFF]
        if (pe, pc) in done:
            continue
        done.add((pe, pc))
        g = mol._env[pe:pe+npr]
        fac = (np.pi/(a+g))**1.5 * (a/(a+g))**l
        env[pe:pe+npr] = a*g/(a+g)
        for ic in range(nc):
            env[pc+ic*npr:pc+(ic+1)*npr] = mol._env[pc+ic*npr:pc+(ic+1)*npr]*fac
    name = 'GTOval_sph_deriv%d' % deriv
    return eval_gto_fn(mol, name, coords) if False else \
        eval_gto_fn(_Fake(mol, env), name, coords)

class _Fake:
    pass
def _Fake(mol, env):
    m = mol.copy()
    m._env = env
    return m

C = (2/np.pi)**1.5 * 4/(4-np.sqrt(2))

def sdmx_reference(mol, dm, coords, nR=1500, Rmin=1e-3, Rmax=3e2):
    """returns dict of callables giving doc-defined features (with -1/4 factor)"""
    ao = eval_gto_fn(mol, 'GTOval_sph', coords)  # (ng, nao)
    c = ao.dot(dm)  # (ng, nao): (D phi(r))_mu
    t = np.linspace(np.log(Rmin), np.log(Rmax), nR)
    R = np.exp(t)
    rho0 = np.zeros((nR, coords.shape[0]))
    rho1 = np.zeros((nR, 3, coords.shape[0]))
    for i, r in enumerate(R):
        a1 = 2/r**2; a2 = 4/r**2
        v = conv_ao(mol, a1, coords, 1) - conv_ao(mol, a2, coords, 1)
        v = v * C/r**3
        rho0[i] = np.einsum('gm,gm->g', v[0], c)
        rho1[i] = np.einsum('xgm,gm->xg', v[1:4], c)
    return t, R, rho0, rho1

def H_feats(t, R, rho0, rho1, j):
    w = R  # dR = R dt
    def integ(f):
        return np.trapezoid(f * w[:, None], t, axis=0)
    sp0 = CubicSpline(t, rho0, axis=0)
    d0 = sp0(t, 1) / R[:, None]
    sp1 = CubicSpline(t, rho1, axis=0)
    d1 = sp1(t, 1) / R[:, None, None]
    out = {}
    out['0'] = -0.25*4*np.pi*integ(R[:, None]**(2-j) * rho0**2)
    out['0d'] = -0.25*4*np.pi*integ(R[:, None]**(4-j) * d0**2)
    out['1'] = -0.25*4*np.pi*integ(R[:, None]**(4-j) * (rho1**2).sum(axis=1))
    out['1d'] = -0.25*4*np.pi*integ(R[:, None]**(6-j) * (d1**2).sum(axis=1))
    # alternative 1d: R^{4-j} |d/dR (R rho1)|^2
    dRr = rho1 + R[:, None, None]*d1
    out['1d_alt'] = -0.25*4*np.pi*integ(R[:, None]**(4-j) * (dRr**2).sum(axis=1))
    return out
