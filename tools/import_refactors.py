#!/usr/bin/env python3
"""Import benign refactorings produced in /tmp/refac/r<g>/refac_out/<n> into
/verif/refactors/r<g>-<n>/ after re-running the pinned suite with the patch."""
import os, re, shutil, subprocess, sys, json
g = sys.argv[1]
base = os.environ.get("REFAC_BASE", "/tmp/refac")
prefix = os.environ.get("REFAC_PREFIX", "r")  # wave 2 is stored as q<g>-<n>
wt = "%s/r%s" % (base, g)
def sh(c, cwd):
    p = subprocess.run(c, shell=True, cwd=cwd, capture_output=True, text=True); return p.returncode, p.stdout + p.stderr
for n in sorted(x for x in os.listdir(wt + "/refac_out") if x.isdigit()):
    d = "%s/refac_out/%s" % (wt, n)
    if not os.path.exists(d + "/patch.diff"): continue
    sh("git checkout -- .", wt)
    rc, out = sh("git apply %s/patch.diff" % d, wt)
    ok = False
    if rc == 0:
        rc2, out = sh("PYTHONPATH=%s /venv/bin/python -m pytest -q -p no:cacheprovider --timeout=900 --continue-on-collection-errors 2>&1 | tail -2" % wt, wt)
        m = re.search(r"(\d+) passed", out); f = re.search(r"(\d+) failed", out)
        ok = bool(m) and int(m.group(1)) == 143 and not f
    sh("git checkout -- .", wt)
    print("%s%s-%s apply=%s suite_ok=%s" % (prefix, g, n, rc, ok))
    if ok:
        dst = "/verif/refactors/%s%s-%s" % (prefix, g, n)
        os.makedirs(dst, exist_ok=True)
        shutil.copy(d + "/patch.diff", dst)
        if os.path.exists(d + "/README.md"): shutil.copy(d + "/README.md", dst)
        json.dump({"kind": "behaviour-preserving refactoring (independent agent)", "suite_with_patch": "143 passed"}, open(dst + "/meta.json", "w"))
