"""Build (if needed) libmcider from the worktree C sources and hand it to
ciderpress through a patched numpy.ctypeslib.load_library."""
import ctypes
import os
import subprocess
import sys
from unittest.mock import MagicMock

import numpy.ctypeslib

ROOT = os.path.abspath(os.path.join(os.path.dirname(__file__), "..", ".."))
SRC = os.path.join(ROOT, "ciderpress", "lib", "mod_cider")
BUILD = os.environ.get("HUNT_BUILD", "/tmp/hunt_H2_build")
FILES = [
    "frac_lapl", "cider_coefs", "cider_grids", "spline", "sph_harm",
    "conv_interpolation", "convolutions", "fast_sdmx", "debug_numint",
    "model_utils",
]


def build(force=False):
    os.makedirs(BUILD, exist_ok=True)
    so = os.path.join(BUILD, "libmcider.so")
    srcs = [os.path.join(SRC, f + ".c") for f in FILES]
    if (not force) and os.path.exists(so):
        if all(os.path.getmtime(s) < os.path.getmtime(so) for s in srcs):
            return so
    cmd = (
        ["gcc", "-O2", "-fopenmp", "-shared", "-fPIC", "-I" + SRC,
         "-I" + os.path.join(ROOT, "ciderpress", "lib", "fft_wrapper")]
        + srcs + ["-o", so, "-lopenblas", "-lm"]
    )
    subprocess.check_call(cmd, stderr=subprocess.DEVNULL)
    return so


_orig = numpy.ctypeslib.load_library


def _load(libname, path):
    if "ciderpress" not in str(path):
        return _orig(libname, path)
    if libname == "libmcider":
        return ctypes.CDLL(build())
    return MagicMock()


numpy.ctypeslib.load_library = _load
if ROOT not in sys.path:
    sys.path.insert(0, ROOT)
