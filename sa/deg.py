"""E-deg: homogeneity-degree / units-of-measure abstract interpreter (DESIGN §1.3).

Pure `ast`; never imports or runs repository code; no CAS.  It *type-checks one
formula*: every value carries a vector of rational exponents over caller-chosen
base symbols (a "degree"); `*` adds, `/` subtracts, `** c` scales, `+`/`-`/
`np.maximum`/`np.where`/masked stores require equal degree.

API
---
Lin                     linear form over Q in named parameters ('' = constant).  Lin.const(c),
                        Lin.sym("self.power"); + - * / ; .is_const, .value
Deg                     immutable {base symbol: Lin}; Deg.of(lam=3), D0 (dimensionless),
                        a+b (product of quantities), a-b, a.scale(lin) -> Deg|None
ANY                     polymorphic degree (literal 0, np.zeros*, tiny regularisers, clamp symbols)
Values
  Q(deg, num=None)      quantity/array; `num` = known numeric value (Lin) of a dimensionless scalar.
                        Q(...).rows is not None => array whose rows along `axis` have their own Q
                        (rows dict int -> Q; `deg` is then the default for rows never stored)
  Unk(why)              outside the vocabulary: propagates, NEVER produces a mismatch
  K(value)              python constant (str/None/bool/Ellipsis);  B(truth) boolean/mask
  Tup(items) Seq(elem) Map(d)   python tuple/list with known items, homogeneous sequence, dict
  Alt(options)          value differs between joined branches (lenient join); any use -> Unk
  Obj(cls, mod, attrs)  instance of a repo class;  Fn(fdef, mod, self)  (bound) repo function
rows(axis, {i: Q}, default=Q(ANY))   helper building a row-typed array
Engine(hooks=None, poly_names=..., tiny=1e-6)
  .eval_expr(node, env)                     -> value
  .run_function(fdef, args, mod=None, self_val=None, kwargs=None) -> Result
        args: list of values or {param: value}; unspecified parameters take their default
        expression, or `hooks.default_param(name)` (Unk unless overridden)
        Result.value (join of all returns), .env (final Env), .mismatches (new), .unknowns (new),
        .conflicts (new)
  .mismatches  [Mismatch(node, kind, left, right, func, rel, text)]   -- the violations
  .unknowns    [(rel, func, text, why)]   not-comparable sites (counted, never violations)
  .conflicts   lenient join conflicts (branch/loop joins; informational)
  .visited     {(rel, qualname)} of every repo function that was interpreted
  .checks      number of equal-degree obligations that were decided (both sides known)
  .observers   callbacks (node, left, right, kind) invoked on every + - += -= of two plain quantities
  .compare_observers  callbacks (Compare node, operand values) on every comparison
  .call_observers  callbacks (node, callee name, args, kwargs) on every call whose arguments were evaluated
  .add_policy  "strict" (default) | "left" (unequal sum takes the left operand's degree, no Mismatch;
               for analyses that compare two runs term by term through `observers`)
  Q.homog      a checker may set it on an array it passes in: element stores with constant indices are then
               checked strictly against `deg` (otherwise an inferred degree is not assumed to hold for all rows)
  Q.shape      optional Tup a checker may attach to an array; returned for `<array>.shape`; `.sum(k)` along an
               axis whose length is a typed quantity multiplies by that length (e.g. the spin axis, length nspin)
Hooks (subclass and override; all optional)
  calls: {dotted name: handler(eng, node, args, kwargs, env) -> value}   pluggable known callables
  resolve_call(eng, node, env) -> Fn | None          repo callee resolution
  global_name(eng, name, env) -> value | None        module-level names
  attribute(eng, base, node, env) -> value | None    attribute of a value
  branch(eng, test, env) -> True/False/None          static decision of an `if`
  power(eng, node, base, exp, env) / constant(eng, node) -> value | None   re-type `b ** e` / a literal
  default_param(eng, fdef, name) -> value
ProgramHooks(prog, attr_default="symbol"|"unknown")   ready-made hooks over sa.pyfacts.Program:
  resolves functions through imports, methods/properties/super() through the MRO, runs
  constructors abstractly (`new_obj(rel, cls, **attrs)`, `instantiate(...)`).
fmt(value) -> short printable form.

Array model: `x[:, k] = v` / `x[k] = v` with a constant k on an untyped (ANY) array turns it into a
row-typed array; `x[:, a:b] op= v` updates those rows; masked / full-slice stores into a typed array are
checked strictly ("store into typed array"), stores with a variable integer index leniently.  `x[lo:hi]`
(axis 0) and `x[s]` (variable leading index) are write-through *views*, so callees that fill
`feat[i:i+1]` or `dedx[s]` update the caller's array; `.T`, `x = y` alias; `.copy()`/arithmetic are fresh.
Branches whose test is not decidable are run on copies and merged back in place (lenient join);
concrete `for` loops over known tuples / range(const) are unrolled, others run twice to a join.

Soundness stance: a Mismatch is recorded only when BOTH operands have known,
different degrees at a node whose semantics demand equality.  Anything else
(unknown callee, unsupported syntax, variable-index stores into mixed arrays,
branch joins) degrades to Unk/Alt and is counted in `unknowns`/`conflicts`.
"""
import ast
from fractions import Fraction

from sa import pyfacts as pf


# ----------------------------------------------------------------------------
# linear forms and degrees
# ----------------------------------------------------------------------------
def _frac(v):
    if isinstance(v, Fraction):
        return v
    if isinstance(v, bool):
        return Fraction(int(v))
    if isinstance(v, int):
        return Fraction(v)
    return Fraction(repr(float(v)))


class Lin:
    __slots__ = ("t",)

    def __init__(self, t=None):
        self.t = {k: v for k, v in (t or {}).items() if v != 0}

    @staticmethod
    def const(c):
        return Lin({"": _frac(c)})

    @staticmethod
    def sym(name):
        return Lin({name: Fraction(1)})

    @property
    def is_const(self):
        return all(k == "" for k in self.t)

    @property
    def value(self):
        return self.t.get("", Fraction(0))

    def __add__(self, o):
        t = dict(self.t)
        for k, v in o.t.items():
            t[k] = t.get(k, 0) + v
        return Lin(t)

    def __neg__(self):
        return Lin({k: -v for k, v in self.t.items()})

    def __sub__(self, o):
        return self + (-o)

    def scale(self, c):
        return Lin({k: v * c for k, v in self.t.items()})

    def mul(self, o):
        if self.is_const:
            return o.scale(self.value)
        if o.is_const:
            return self.scale(o.value)
        return None

    def div(self, o):
        if o.is_const and o.value != 0:
            return self.scale(1 / o.value)
        return None

    def __eq__(self, o):
        return isinstance(o, Lin) and self.t == o.t

    def __hash__(self):
        return hash(tuple(sorted(self.t.items())))

    def __repr__(self):
        if not self.t:
            return "0"
        out = []
        for k in sorted(self.t):
            v = self.t[k]
            out.append(str(v) if k == "" else ("%s*%s" % (v, k) if v != 1 else k))
        return " + ".join(out).replace("+ -", "- ")


L0 = Lin()
L1 = Lin.const(1)


class Deg:
    __slots__ = ("d",)

    def __init__(self, d=None):
        self.d = {k: v for k, v in (d or {}).items() if v.t}

    @staticmethod
    def of(**kw):
        return Deg({k: (v if isinstance(v, Lin) else Lin.const(v)) for k, v in kw.items()})

    def get(self, sym):
        return self.d.get(sym, L0)

    def __add__(self, o):
        d = dict(self.d)
        for k, v in o.d.items():
            d[k] = d.get(k, L0) + v
        return Deg(d)

    def __neg__(self):
        return Deg({k: -v for k, v in self.d.items()})

    def __sub__(self, o):
        return self + (-o)

    def scale(self, lin):
        out = {}
        for k, v in self.d.items():
            m = v.mul(lin)
            if m is None:
                return None
            out[k] = m
        return Deg(out)

    def __eq__(self, o):
        return isinstance(o, Deg) and self.d == o.d

    def __hash__(self):
        return hash(tuple(sorted((k, hash(v)) for k, v in self.d.items())))

    def __repr__(self):
        if not self.d:
            return "{}"
        return "{" + ", ".join("%s:%s" % (k, self.d[k]) for k in sorted(self.d)) + "}"


D0 = Deg()


class _Any:
    def __repr__(self):
        return "ANY"

    def __deepcopy__(self, memo):
        return self


ANY = _Any()


# ----------------------------------------------------------------------------
# abstract values
# ----------------------------------------------------------------------------
class Val:
    pass


class Q(Val):
    def __init__(self, deg=D0, num=None, axis=None, rows=None, n=None):
        self.deg = deg
        self.num = num
        self.axis = axis
        self.rows = rows
        self.n = n          # known length along axis 0 (1-D arrays built from python lists), else None
        self.shape = None   # optional Tup returned for `.shape`
        self.homog = False  # set by a checker: all elements are asserted to share `deg` (strict element stores)

    @property
    def is_rows(self):
        return self.rows is not None

    def row(self, k):
        return self.rows.get(k) or Q(self.deg)

    def set_from(self, o):
        self.deg, self.num, self.axis, self.rows, self.n = o.deg, o.num, o.axis, o.rows, o.n

    def __repr__(self):
        return fmt(self)


class Unk(Val):
    def __init__(self, why=""):
        self.why = why

    def __repr__(self):
        return "Unk(%s)" % self.why


class K(Val):
    def __init__(self, value):
        self.value = value

    def __repr__(self):
        return "K(%r)" % (self.value,)


class B(Val):
    def __init__(self, truth=None):
        self.truth = truth

    def __repr__(self):
        return "B(%s)" % self.truth


class Tup(Val):
    def __init__(self, items, is_list=False):
        self.items = list(items)
        self.is_list = is_list

    def __repr__(self):
        return fmt(self)


class Seq(Val):
    def __init__(self, elem=None):
        self.elem = elem  # None = known empty so far

    def __repr__(self):
        return fmt(self)


class Map(Val):
    def __init__(self, d=None, default=None):
        self.d = dict(d or {})
        self.default = default      # value of keys of a comprehension over an unknown iterable


class Alt(Val):
    def __init__(self, options):
        self.options = options

    def __repr__(self):
        return fmt(self)


class Obj(Val):
    def __init__(self, cls, mod, attrs=None):
        self.cls = cls
        self.mod = mod
        self.attrs = dict(attrs or {})

    def __repr__(self):
        return "Obj(%s)" % (self.cls.name if self.cls is not None else "?")


class SuperObj(Obj):
    """super(C, obj): same attribute store as obj, method lookup starts after C in the MRO"""

    def __init__(self, obj, after):
        self.cls, self.mod, self.attrs, self.after, self.obj = obj.cls, obj.mod, obj.attrs, after, obj


class Fn(Val):
    def __init__(self, fdef, mod=None, self_val=None, cls=None, closure=None):
        self.fdef = fdef
        self.mod = mod
        self.self_val = self_val
        self.cls = cls  # class reference (constructor) when fdef is its __init__ or None
        self.closure = closure  # defining Env of a nested function (read at call time, like Python)


class ClsRef(Val):
    def __init__(self, cls, mod):
        self.cls = cls
        self.mod = mod


def rows(axis, d, default=None):
    return Q(default.deg if default is not None else ANY, None, axis, dict(d))


def fmt(v):
    if isinstance(v, Q):
        if v.is_rows:
            return "rows@%s{%s; else %s}" % (v.axis, ", ".join(
                "%s:%s" % (k, fmt(v.rows[k])) for k in sorted(v.rows)), v.deg)
        if v.num is not None and (v.deg is ANY or v.deg == D0):
            return "%s=%s" % (v.deg, v.num)
        return repr(v.deg)
    if isinstance(v, Tup):
        return "(" + ", ".join(fmt(x) for x in v.items) + ")"
    if isinstance(v, Seq):
        return "seq[%s]" % (fmt(v.elem) if v.elem is not None else "")
    if isinstance(v, Alt):
        return "alt<" + " | ".join(fmt(x) for x in v.options) + ">"
    if isinstance(v, Map):
        return "map{%d}" % len(v.d)
    return repr(v)


def same(a, b):
    """structural equality of two values (for fixpoints / Alt dedup)"""
    if type(a) is not type(b):
        return False
    if isinstance(a, Q):
        if a.is_rows != b.is_rows:
            return False
        degeq = (a.deg is b.deg) or (a.deg is not ANY and b.deg is not ANY and a.deg == b.deg)
        if a.is_rows:
            return degeq and a.axis == b.axis and set(a.rows) == set(b.rows) and all(
                same(a.rows[k], b.rows[k]) for k in a.rows)
        return degeq and a.num == b.num
    if isinstance(a, K):
        return a.value == b.value
    if isinstance(a, Tup):
        return len(a.items) == len(b.items) and all(same(x, y) for x, y in zip(a.items, b.items))
    if isinstance(a, Seq):
        return (a.elem is None and b.elem is None) or (
            a.elem is not None and b.elem is not None and same(a.elem, b.elem))
    if isinstance(a, Obj):
        return a.cls is b.cls and set(a.attrs) == set(b.attrs) and all(same(a.attrs[k], b.attrs[k]) for k in a.attrs)
    if isinstance(a, (Unk, B)):
        return True
    if isinstance(a, Map):
        return set(a.d) == set(b.d) and all(same(a.d[k], b.d[k]) for k in a.d)
    if isinstance(a, Fn):
        return a.fdef is b.fdef
    return a is b


def clone(v, memo):
    """deep copy preserving aliasing (memo: id(orig) -> clone); AST/class refs are shared"""
    if id(v) in memo:
        return memo[id(v)]
    if isinstance(v, Q):
        c = Q(v.deg, v.num, v.axis, None, v.n)
        c.shape = v.shape
        c.homog = v.homog
        memo[id(v)] = c
        if v.rows is not None:
            c.rows = {k: clone(x, memo) for k, x in v.rows.items()}
    elif isinstance(v, Tup):
        c = Tup([], v.is_list)
        memo[id(v)] = c
        c.items = [clone(x, memo) for x in v.items]
    elif isinstance(v, Seq):
        c = Seq(None)
        memo[id(v)] = c
        c.elem = clone(v.elem, memo) if v.elem is not None else None
    elif isinstance(v, Map):
        c = Map()
        memo[id(v)] = c
        c.d = {k: clone(x, memo) for k, x in v.d.items()}
        c.default = clone(v.default, memo) if v.default is not None else None
    elif isinstance(v, Obj):
        c = Obj(v.cls, v.mod)
        memo[id(v)] = c
        c.attrs = {k: clone(x, memo) for k, x in v.attrs.items()}
    else:
        c = v
    return c


class Mismatch:
    def __init__(self, node, kind, left, right, func, rel, text):
        self.node, self.kind, self.left, self.right = node, kind, left, right
        self.func, self.rel, self.text = func, rel, text
        self.line = getattr(node, "lineno", 0)

    def __repr__(self):
        return "%s:%s [%s] %s: %s vs %s in `%s`" % (self.rel, self.line, self.func, self.kind,
                                                     self.left, self.right, self.text)


class Result:
    def __init__(self, value, env, mismatches, unknowns, conflicts):
        self.value, self.env = value, env
        self.mismatches, self.unknowns, self.conflicts = mismatches, unknowns, conflicts


class Frame:
    def __init__(self, fdef, mod):
        self.fdef = fdef
        self.mod = mod
        self.returns = []
        self.yields = []
        self.yields_abstract = False
        self.fork0 = 0

    @property
    def name(self):
        return pf.qualname(self.fdef) if self.fdef is not None else "<module>"

    @property
    def rel(self):
        return self.mod.rel if self.mod is not None else ""


NORMAL, LOOPX, BRKX, FUNCX = 0, 1, 2, 3
POLY_NAMES = frozenset({"rhocut", "cutoff", "ALPHA_TOL", "tol", "expcut", "_rhocut", "_cutoff"})


# ----------------------------------------------------------------------------
# hooks
# ----------------------------------------------------------------------------
class Hooks:
    calls = {}

    def resolve_call(self, eng, node, env):
        return None

    def global_name(self, eng, name, env):
        return None

    def attribute(self, eng, base, node, env):
        return None

    def branch(self, eng, test, env):
        return None

    def default_param(self, eng, fdef, name):
        return Unk("parameter %s not typed" % name)

    def power(self, eng, node, base, exp, env):
        """override the typing of base ** exp (e.g. literal 2 ** p as a symbol); None = default"""
        return None

    def constant(self, eng, node):
        """override the typing of a literal (e.g. powers of two as a symbol); None = default"""
        return None


# ----------------------------------------------------------------------------
# engine
# ----------------------------------------------------------------------------
class Engine:
    MAX_DEPTH = 14

    def __init__(self, hooks=None, poly_names=POLY_NAMES, tiny=1e-6):
        self.hooks = hooks or Hooks()
        self.poly = set(poly_names)
        self.tiny = tiny
        self.mismatches = []
        self.unknowns = []
        self.conflicts = []
        self.checks = 0
        self.frames = []
        self.fork_depth = 0
        self.visited = set()         # (rel, qualname) of every repo function interpreted
        self.compare_observers = []  # callbacks (Compare node, [operand values])
        self.call_observers = []     # callbacks (call node, dotted callee name or attribute, args, kwargs)
        self.observers = []          # callbacks (node, left, right, kind) on every + / - / += / -=
        self.add_policy = "strict"   # "left": a sum of unequal degrees takes its left operand's degree
        self.calls = dict(NUMPY_CALLS)
        self.calls.update(getattr(self.hooks, "calls", {}) or {})
        self._seen_mm = set()

    # -- bookkeeping ---------------------------------------------------------
    @property
    def fr(self):
        return self.frames[-1] if self.frames else Frame(None, None)

    def unknown(self, node, why):
        txt = pf.src(node)[:90] if isinstance(node, ast.AST) else str(node)
        self.unknowns.append((self.fr.rel, self.fr.name, txt, why))
        return Unk(why)

    def mismatch(self, node, kind, a, b):
        stmt = node
        while stmt is not None and not isinstance(stmt, ast.stmt):
            stmt = pf.parent(stmt)
        text = pf.src(node)[:150]
        key = (self.fr.rel, self.fr.name, kind, text, repr(a), repr(b))
        if key not in self._seen_mm:
            self._seen_mm.add(key)
            m = Mismatch(node, kind, a, b, self.fr.name, self.fr.rel, text)
            m.stmt = pf.src(stmt)[:150] if stmt is not None else text
            self.mismatches.append(m)
        return Unk("mismatch")

    # -- joins ---------------------------------------------------------------
    def unify(self, a, b, node, strict, kind):
        """value that is both a and b (same degree required).  strict: a known
        difference is a Mismatch; lenient: it becomes Alt (recorded in conflicts)."""
        r = self._unify(a, b, node, strict, kind)
        if isinstance(r, Q) and isinstance(a, Q) and isinstance(b, Q) and r is not a and r is not b:
            if a.shape is not None and (a.shape is b.shape or (b.shape is not None and same(a.shape, b.shape))):
                r.shape = a.shape
            r.homog = a.homog and b.homog
        return r

    def _unify(self, a, b, node, strict, kind):
        if a is b:
            return a
        if isinstance(a, Unk) or isinstance(b, Unk):
            return a if isinstance(a, Unk) else b
        if isinstance(a, Alt) or isinstance(b, Alt):
            if strict:
                return Unk("alt")
            return self._alt(a, b, node)
        if isinstance(a, Q) and isinstance(b, Q):
            if a.is_rows or b.is_rows:
                return self._rowwise(a, b, lambda x, y: self.unify(x, y, node, strict, kind))
            if strict and self.observers and kind in ("add", "augmented add"):
                for ob in self.observers:
                    ob(node, a, b, kind)
            if a.deg is ANY:
                return Q(b.deg, b.num if (a.num == b.num) else None)
            if b.deg is ANY:
                return Q(a.deg, a.num if (a.num == b.num) else None)
            if strict and self.add_policy == "left" and kind in ("add", "augmented add") and a.deg != b.deg:
                return Q(a.deg)
            if a.deg == b.deg:
                self.checks += 1
                return Q(a.deg, a.num if a.num == b.num else None)
            if strict:
                return self.mismatch(node, kind, a.deg, b.deg)
            return self._alt(a, b, node)
        if isinstance(a, K) and isinstance(b, K):
            if a.value == b.value and type(a.value) is type(b.value):
                return a
            if isinstance(a.value, bool) and isinstance(b.value, bool):
                return B(None)
        if isinstance(a, B) and isinstance(b, B):
            return B(a.truth if a.truth == b.truth else None)
        if isinstance(a, Tup) and isinstance(b, Tup) and len(a.items) == len(b.items):
            return Tup([self.unify(x, y, node, strict, kind) for x, y in zip(a.items, b.items)], a.is_list)
        if isinstance(a, (Tup, Seq)) and isinstance(b, (Tup, Seq)):
            ea, eb = self._elem(a, node), self._elem(b, node)
            if ea is None:
                return Seq(eb)
            if eb is None:
                return Seq(ea)
            return Seq(self.unify(ea, eb, node, strict, kind))
        if isinstance(a, (Obj, Map, Fn)) and type(a) is type(b) and same(a, b):
            return a
        if strict:
            return Unk("join of %s and %s" % (type(a).__name__, type(b).__name__))
        return self._alt(a, b, node)

    def _alt(self, a, b, node):
        opts = []
        for v in (a, b):
            for o in (v.options if isinstance(v, Alt) else [v]):
                if not any(same(o, p) for p in opts):
                    opts.append(o)
        if len(opts) == 1:
            return opts[0]
        self.conflicts.append((self.fr.rel, self.fr.name, pf.src(node)[:80] if isinstance(node, ast.AST) else "",
                               " | ".join(fmt(o) for o in opts)[:160]))
        if len(opts) > 8:
            return Unk("too many alternatives")
        return Alt(opts)

    def _elem(self, v, node):
        """join (lenient) of the elements of a Tup/Seq; None if empty"""
        if isinstance(v, Seq):
            return v.elem
        out = None
        for x in v.items:
            out = x if out is None else self.unify(out, x, node, False, "elements")
        return out

    def _rowwise(self, a, b, op):
        if not isinstance(a, Q) or not isinstance(b, Q):
            return Unk("rowwise on non-array")
        if a.is_rows and b.is_rows:
            if a.axis != b.axis:
                return Unk("row axes differ")
            keys = set(a.rows) | set(b.rows)
            out = {k: op(a.row(k), b.row(k)) for k in keys}
            dflt = op(Q(a.deg), Q(b.deg))
            axis = a.axis
        elif a.is_rows:
            out = {k: op(a.rows[k], b) for k in a.rows}
            dflt = op(Q(a.deg), b)
            axis = a.axis
        else:
            out = {k: op(a, b.rows[k]) for k in b.rows}
            dflt = op(a, Q(b.deg))
            axis = b.axis
        for k, v in list(out.items()):
            if isinstance(v, Q) and v.is_rows:
                out[k] = Unk("nested rows")
        return Q(dflt.deg if isinstance(dflt, Q) and not dflt.is_rows else ANY, None, axis, out)

    # -- arithmetic ----------------------------------------------------------
    def mul(self, a, b, node, sign=1):
        """a*b (sign=+1) or a/b (sign=-1)"""
        if isinstance(a, Unk) or isinstance(b, Unk):
            return a if isinstance(a, Unk) else b
        if not isinstance(a, Q) or not isinstance(b, Q):
            return self.unknown(node, "product of %s and %s" % (type(a).__name__, type(b).__name__))
        if a.is_rows or b.is_rows:
            return self._rowwise(a, b, lambda x, y: self.mul(x, y, node, sign))
        num = None
        if a.num is not None and b.num is not None:
            num = a.num.mul(b.num) if sign > 0 else a.num.div(b.num)
        if a.deg is ANY:
            return Q(ANY, num)
        if b.deg is ANY:
            if sign > 0:
                return Q(ANY, num)
            return self.unknown(node, "division by a polymorphic value")
        r = Q(a.deg + b.deg if sign > 0 else a.deg - b.deg, num)
        # an array scaled by a recognisable scalar (a numeric constant, or one of its own axis lengths) keeps its
        # typed shape: `x.shape[0] * x` can still be summed over its typed spin axis
        for arr, o in ((a, b), (b, a) if sign > 0 else (None, None)):
            if arr is not None and isinstance(arr.shape, Tup) and o.shape is None and o.n is None \
                    and (o.num is not None or any(o is it for it in arr.shape.items)):
                r.shape = arr.shape
                break
        return r

    def power(self, a, e, node):
        if isinstance(a, Unk):
            return a
        if not isinstance(a, Q):
            return self.unknown(node, "power of %s" % type(a).__name__)
        if a.is_rows:
            return self._rowwise(a, Q(D0), lambda x, y: self.power(x, e, node))
        num = None
        ev = e.num if isinstance(e, Q) and not e.is_rows else None
        if a.num is not None and ev is not None and a.num.is_const and ev.is_const:
            try:
                if ev.value.denominator == 1 and abs(ev.value) <= 8 and (a.num.value != 0 or ev.value >= 0):
                    num = Lin.const(a.num.value ** int(ev.value))
            except Exception:
                num = None
        if a.deg is ANY:
            return Q(ANY, num)
        if a.deg == D0:
            return Q(D0, num)
        if ev is None:
            return self.unknown(node, "non-constant exponent on a dimensioned base")
        d = a.deg.scale(ev)
        if d is None:
            return self.unknown(node, "exponent not linear")
        return Q(d, None)

    def root(self, a, n, node):
        return self.power(a, Q(D0, Lin.const(Fraction(1, n))), node)

    def dimensionless(self, a, node, what):
        """np.exp/log/...: argument must have degree 0"""
        if isinstance(a, Q) and not a.is_rows:
            if a.deg is ANY or a.deg == D0:
                if a.deg is not ANY:
                    self.checks += 1
                return Q(D0)
            self.mismatch(node, "transcendental(%s)" % what, a.deg, D0)
            return Unk("mismatch")
        if isinstance(a, Unk):
            return a
        return self.unknown(node, "%s of %s" % (what, type(a).__name__))


# ----------------------------------------------------------------------------
# expressions
# ----------------------------------------------------------------------------
def _dotted(node):
    parts = []
    while isinstance(node, ast.Attribute):
        parts.append(node.attr)
        node = node.value
    if isinstance(node, ast.Name):
        parts.append(node.id)
        return ".".join(reversed(parts))
    return None


CONST_ATTRS = {
    "np.pi": lambda: Q(D0), "numpy.pi": lambda: Q(D0), "math.pi": lambda: Q(D0), "np.e": lambda: Q(D0),
    "np.newaxis": lambda: K(None), "np.inf": lambda: Q(D0),
    "np.float64": lambda: K("dtype"), "np.float32": lambda: K("dtype"), "np.complex128": lambda: K("dtype"),
    "np.int32": lambda: K("dtype"), "np.int64": lambda: K("dtype"), "np.ndarray": lambda: K("type"),
}
SHAPE_ATTRS = {"shape", "ndim", "size", "dtype", "nbytes", "flags"}
VIEW_ATTRS = {"real", "imag"}


def _eng_methods(cls):
    return cls


class _ExprMixin:
    def num_of(self, v):
        """constant Fraction value of a value, or None"""
        if isinstance(v, Q) and not v.is_rows and v.num is not None and v.num.is_const:
            return v.num.value
        return None

    def int_of(self, v):
        f = self.num_of(v)
        if f is not None and f.denominator == 1:
            return int(f)
        return None

    def eval_expr(self, node, env):
        m = getattr(self, "_e_" + type(node).__name__, None)
        if m is None:
            return self.unknown(node, "unsupported expression %s" % type(node).__name__)
        return m(node, env)

    def _e_Constant(self, n, env):
        r = self.hooks.constant(self, n)
        if r is not None:
            return r
        v = n.value
        if isinstance(v, bool) or v is None or isinstance(v, (str, bytes)) or v is Ellipsis:
            return K(v)
        if isinstance(v, (int, float)):
            if v == 0:
                return Q(ANY, L0)
            if abs(v) <= self.tiny:
                return Q(ANY, Lin.const(v))
            return Q(D0, Lin.const(v))
        if isinstance(v, complex):
            return Q(D0)
        return self.unknown(n, "constant")

    def _e_Name(self, n, env):
        if n.id in self.poly:
            return Q(ANY)
        if n.id in env:
            return env[n.id]
        c = getattr(env, "closure", None)
        while c is not None:
            if n.id in c:
                return c[n.id]
            c = getattr(c, "closure", None)
        if n.id in ("True", "False", "None"):
            return K({"True": True, "False": False, "None": None}[n.id])
        v = self.hooks.global_name(self, n.id, env)
        if v is not None:
            return v
        if n.id in ("int", "float", "str", "list", "tuple", "dict", "bool", "object", "complex", "set", "type"):
            return K("type")
        return self.unknown(n, "unbound name %s" % n.id)

    def _e_Attribute(self, n, env):
        d = _dotted(n)
        if d in CONST_ATTRS:
            return CONST_ATTRS[d]()
        if n.attr in self.poly:
            return Q(ANY)
        if d is not None and d in env:      # dotted slots such as "self.x" set by a checker
            return env[d]
        base = self.eval_expr(n.value, env)
        v = self.hooks.attribute(self, base, n, env)
        if v is not None:
            return v
        if isinstance(base, Obj):
            if n.attr in base.attrs:
                return base.attrs[n.attr]
            return self.unknown(n, "attribute %s of %s not known" % (n.attr, base))
        if isinstance(base, Q):
            if n.attr == "T":
                return base if not base.is_rows else self.unknown(n, "transpose of a row-typed array")
            if n.attr in VIEW_ATTRS:
                return base
            if n.attr in SHAPE_ATTRS:
                if n.attr == "shape" and getattr(base, "shape", None) is not None:
                    return base.shape
                if n.attr == "ndim" and isinstance(getattr(base, "shape", None), Tup):
                    return Q(D0, Lin.const(len(base.shape.items)))
                return Q(D0) if n.attr != "shape" else Seq(Q(D0))
            if n.attr == "ctypes":
                return Unk("ctypes")
        if isinstance(base, Unk):
            return base
        return self.unknown(n, "attribute .%s of %s" % (n.attr, type(base).__name__))

    def _e_UnaryOp(self, n, env):
        v = self.eval_expr(n.operand, env)
        if isinstance(n.op, (ast.Not, ast.Invert)):
            t = self.truth(v)
            return B(None if t is None else (not t)) if isinstance(n.op, ast.Not) else B(None)
        if isinstance(v, Q):
            if v.is_rows:
                return v
            if isinstance(n.op, ast.USub):
                return Q(v.deg, -v.num if v.num is not None else None)
            return v
        return v if isinstance(v, Unk) else self.unknown(n, "unary op on %s" % type(v).__name__)

    def _e_BinOp(self, n, env):
        a = self._as_number(self.eval_expr(n.left, env))
        b = self._as_number(self.eval_expr(n.right, env))
        op = n.op
        if isinstance(a, Alt) or isinstance(b, Alt):
            return self.unknown(n, "operand differs between branches")
        # list / tuple algebra
        if isinstance(op, ast.Add) and isinstance(a, (Tup, Seq)) and isinstance(b, (Tup, Seq)):
            if isinstance(a, Tup) and isinstance(b, Tup):
                return Tup(a.items + b.items, a.is_list)
            ea, eb = self._elem(a, n), self._elem(b, n)
            return Seq(ea if eb is None else eb if ea is None else self.unify(ea, eb, n, False, "concat"))
        if isinstance(op, ast.Mult) and (isinstance(a, (Tup, Seq)) or isinstance(b, (Tup, Seq))):
            lst, cnt = (a, b) if isinstance(a, (Tup, Seq)) else (b, a)
            k = self.int_of(cnt)
            if isinstance(lst, Tup) and k is not None and 0 <= k * len(lst.items) <= 64:
                return Tup(lst.items * k, lst.is_list)
            return Seq(self._elem(lst, n))
        if isinstance(op, (ast.Add, ast.Sub)):
            if isinstance(a, Unk) or isinstance(b, Unk):
                return a if isinstance(a, Unk) else b
            if not isinstance(a, Q) or not isinstance(b, Q):
                return self.unknown(n, "sum of %s and %s" % (type(a).__name__, type(b).__name__))
            r = self.unify(a, b, n, True, "add")
            if isinstance(r, Q) and not r.is_rows:
                num = None
                if a.num is not None and b.num is not None and not a.is_rows and not b.is_rows:
                    num = a.num + b.num if isinstance(op, ast.Add) else a.num - b.num
                return Q(r.deg, num)
            return r
        if isinstance(op, (ast.Mult, ast.MatMult)):
            return self.mul(a, b, n, 1)
        if isinstance(op, ast.Div):
            return self.mul(a, b, n, -1)
        if isinstance(op, ast.Pow):
            r = self.hooks.power(self, n, a, b, env)
            return r if r is not None else self.power(a, b, n)
        if isinstance(op, (ast.FloorDiv, ast.Mod)):
            x, y = self.num_of(a), self.num_of(b)
            if x is not None and y is not None and y != 0:
                return Q(D0, Lin.const(x // y if isinstance(op, ast.FloorDiv) else x % y))
            if isinstance(a, Q) and isinstance(b, Q) and not a.is_rows and not b.is_rows \
                    and a.deg in (D0, ANY) and b.deg in (D0, ANY):
                return Q(D0)
        return self.unknown(n, "operator %s" % type(op).__name__)

    @staticmethod
    def _as_number(v):
        """a bool used in arithmetic is the number 0 / 1 (unknown truth: a dimensionless number)"""
        t = v.truth if isinstance(v, B) else v.value if isinstance(v, K) and isinstance(v.value, bool) else "no"
        if t == "no":
            return v
        if t is None:
            return Q(D0)
        return Q(D0, L1) if t else Q(ANY, L0)

    # -- truth ---------------------------------------------------------------
    def truth(self, v):
        if isinstance(v, B):
            return v.truth
        if isinstance(v, K):
            if v.value in ("dtype", "type"):
                return None
            return bool(v.value)
        if isinstance(v, Tup):
            return len(v.items) > 0
        if isinstance(v, Seq) and v.elem is None:
            return False
        f = self.num_of(v)
        if f is not None:
            return f != 0
        if isinstance(v, (Obj, Fn, ClsRef)):
            return True
        return None

    def decide(self, test, env):
        d = self.hooks.branch(self, test, env)
        if d is not None:
            return d
        return self.truth(self.eval_expr(test, env))

    def _cmp(self, op, a, b):
        if isinstance(op, (ast.Is, ast.IsNot)):
            r = None
            if isinstance(a, K) and isinstance(b, K):
                r = a.value is b.value or a.value == b.value
            elif isinstance(b, K) and b.value is None and isinstance(a, (Q, Tup, Seq, Map, Obj, Fn)):
                r = False
            elif isinstance(a, K) and a.value is None and isinstance(b, (Q, Tup, Seq, Map, Obj, Fn)):
                r = False
            return None if r is None else (r if isinstance(op, ast.Is) else not r)
        if isinstance(op, (ast.In, ast.NotIn)):
            r = None
            if isinstance(b, Tup):
                keys = [self._key(x) for x in b.items]
                ka = self._key(a)
                if ka is not None and all(k is not None for k in keys):
                    r = ka in keys
            elif isinstance(b, Map):
                ka = self._key(a)
                if ka is not None:
                    r = ka in b.d
            elif isinstance(b, K) and isinstance(b.value, str) and isinstance(a, K) and isinstance(a.value, str):
                r = a.value in b.value
            return None if r is None else (r if isinstance(op, ast.In) else not r)
        ka, kb = self._key(a), self._key(b)
        if ka is None or kb is None:
            return None
        try:
            if isinstance(op, ast.Eq):
                return ka == kb
            if isinstance(op, ast.NotEq):
                return ka != kb
            if isinstance(ka, tuple) or isinstance(kb, tuple) or isinstance(ka, str) != isinstance(kb, str):
                return None
            if isinstance(op, ast.Lt):
                return ka < kb
            if isinstance(op, ast.LtE):
                return ka <= kb
            if isinstance(op, ast.Gt):
                return ka > kb
            if isinstance(op, ast.GtE):
                return ka >= kb
        except TypeError:
            return None
        return None

    def _key(self, v):
        """hashable python key of a fully known constant value, else None"""
        if isinstance(v, K):
            return ("K", v.value) if v.value is None or isinstance(v.value, bool) else v.value
        f = self.num_of(v)
        if f is not None:
            return f
        if isinstance(v, Tup):
            ks = [self._key(x) for x in v.items]
            if all(k is not None for k in ks):
                return tuple(ks)
        return None

    def _e_Compare(self, n, env):
        vals = [self.eval_expr(n.left, env)] + [self.eval_expr(c, env) for c in n.comparators]
        for ob in self.compare_observers:
            ob(n, vals)
        res = True
        for op, a, b in zip(n.ops, vals, vals[1:]):
            r = self._cmp(op, a, b)
            if r is None:
                return B(None)
            res = res and r
        return B(res)

    def _e_BoolOp(self, n, env):
        is_and = isinstance(n.op, ast.And)
        unknown = False
        for v in n.values:
            t = self.decide(v, env)
            if t is None:
                unknown = True
            elif t != is_and:
                return B(t)
        return B(None if unknown else is_and)

    def _e_IfExp(self, n, env):
        t = self.decide(n.test, env)
        if t is True:
            return self.eval_expr(n.body, env)
        if t is False:
            return self.eval_expr(n.orelse, env)
        return self.unify(self.eval_expr(n.body, env), self.eval_expr(n.orelse, env), n, False, "ifexp")

    def _e_Tuple(self, n, env):
        if any(isinstance(e, ast.Starred) for e in n.elts):
            return self.unknown(n, "starred element")
        return Tup([self.eval_expr(e, env) for e in n.elts], isinstance(n, ast.List))

    _e_List = _e_Tuple

    def _e_Dict(self, n, env):
        out = {}
        for k, v in zip(n.keys, n.values):
            kk = self._key(self.eval_expr(k, env)) if k is not None else None
            if kk is None:
                return self.unknown(n, "dict with non-constant key")
            out[kk] = self.eval_expr(v, env)
        return Map(out)

    def _e_JoinedStr(self, n, env):
        return K("<str>")

    def _e_Lambda(self, n, env):
        return Unk("lambda")

    def _e_Starred(self, n, env):
        return self.unknown(n, "starred")

    def _comp(self, n, env, elt_fn):
        """list/generator comprehension -> Tup (concrete) or Seq"""
        outer = env
        env = Env(env)
        env.closure = getattr(outer, "closure", None)
        concrete = True
        results = []

        def rec(i):
            nonlocal concrete
            if i == len(n.generators):
                results.append(elt_fn(env))
                return
            g = n.generators[i]
            it = self.iterate(self.eval_expr(g.iter, env), g.iter)
            if isinstance(it, list):
                for x in it:
                    self.bind(g.target, x, env, g.target)
                    ok = True
                    for c in g.ifs:
                        t = self.decide(c, env)
                        if t is None:
                            concrete = False
                        elif not t:
                            ok = False
                    if ok:
                        rec(i + 1)
            else:
                concrete = False
                self.bind(g.target, it, env, g.target)
                rec(i + 1)
        rec(0)
        if concrete:
            return Tup(results, True)
        out = None
        for r in results:
            out = r if out is None else self.unify(out, r, n, False, "comprehension")
        return Seq(out)

    def _e_ListComp(self, n, env):
        return self._comp(n, env, lambda e: self.eval_expr(n.elt, e))

    _e_GeneratorExp = _e_ListComp

    def _e_DictComp(self, n, env):
        r = self._comp(n, env, lambda e: Tup([self.eval_expr(n.key, e), self.eval_expr(n.value, e)]))
        if isinstance(r, Tup):
            out = {}
            for kv in r.items:
                k = self._key(kv.items[0])
                if k is None:
                    return self.unknown(n, "dict comprehension with non-constant key")
                out[k] = kv.items[1]
            return Map(out)
        if isinstance(r, Seq) and isinstance(r.elem, Tup) and len(r.elem.items) == 2:
            return Map({}, default=r.elem.items[1])
        return self.unknown(n, "dict comprehension over unknown iterable")

    def iterate(self, v, node):
        """-> python list of element values (concrete) or a single element value"""
        if isinstance(v, Tup):
            return list(v.items)
        if isinstance(v, Seq):
            return v.elem if v.elem is not None else []
        if isinstance(v, Map):
            return [self._unkey(k) for k in v.d]
        if isinstance(v, Q):
            if v.is_rows and v.axis == 0:
                return self.unknown(node, "iteration over a row-typed array")
            if v.is_rows:
                return Q(v.deg, None, v.axis - 1, dict(v.rows))
            return Q(v.deg)
        if isinstance(v, Unk):
            return v
        return self.unknown(node, "iteration over %s" % type(v).__name__)

    def _unkey(self, k):
        if isinstance(k, Fraction):
            return Q(D0, Lin.const(k))
        if isinstance(k, tuple) and len(k) == 2 and k[0] == "K":
            return K(k[1])
        if isinstance(k, tuple):
            return Tup([self._unkey(x) for x in k])
        return K(k)


class Env(dict):
    """local names of one frame; `closure` = the Env of the enclosing function for nested defs"""
    closure = None


# ----------------------------------------------------------------------------
# subscripts
# ----------------------------------------------------------------------------
class _SubMixin:
    def index_parts(self, sl, env):
        """-> list of ('full',) ('new',) ('const',k) ('range',a,b) ('vslice',) ('mask',) ('var',) ('ell',)"""
        elts = sl.elts if isinstance(sl, ast.Tuple) else [sl]
        out = []
        for e in elts:
            if isinstance(e, ast.Slice):
                if e.step is not None:
                    out.append(("vslice",))
                    continue
                lo = self.int_of(self.eval_expr(e.lower, env)) if e.lower is not None else 0
                hi = self.int_of(self.eval_expr(e.upper, env)) if e.upper is not None else None
                if e.lower is None and e.upper is None:
                    out.append(("full",))
                elif lo is not None and (hi is not None or e.upper is None):
                    out.append(("range", lo, hi))
                else:
                    out.append(("vslice",))
                continue
            v = self.eval_expr(e, env)
            if isinstance(v, K) and v.value is None:
                out.append(("new",))
            elif isinstance(v, K) and v.value is Ellipsis:
                out.append(("ell",))
            elif isinstance(v, B):
                out.append(("mask",))
            elif self.int_of(v) is not None:
                out.append(("const", self.int_of(v)))
            elif isinstance(v, K):
                out.append(("key", v.value))
            else:
                out.append(("var",))
        return out

    def _e_Subscript(self, n, env):
        base = self.eval_expr(n.value, env)
        return self.subscript(base, n, env)

    def subscript(self, base, n, env):
        if isinstance(base, (Unk, Alt)):
            return base if isinstance(base, Unk) else self.unknown(n, "subscript of branch-dependent value")
        if isinstance(base, Map):
            k = self._key(self.eval_expr(n.slice, env))
            if k is not None and k in base.d:
                return base.d[k]
            if k is not None and base.default is not None:
                base.d[k] = clone(base.default, {})
                return base.d[k]
            if k is None and base.d:
                vals = list(base.d.values())
                out = vals[0]
                for v in vals[1:]:
                    out = self.unify(out, v, n, False, "dict lookup")
                return out
            return self.unknown(n, "key not in literal dict")
        if isinstance(base, Obj) and hasattr(self.hooks, "method_of") and base.cls is not None:
            fn = self.hooks.method_of(base, "__getitem__")
            if fn is not None:
                return self.call_function(fn, [self.eval_expr(n.slice, env)], {}, n)
        parts = self.index_parts(n.slice, env)
        if isinstance(base, Tup):
            if len(parts) == 1:
                p = parts[0]
                if p[0] == "const" and -len(base.items) <= p[1] < len(base.items):
                    return base.items[p[1]]
                if p[0] == "full":
                    return Tup(base.items, base.is_list)
                if p[0] == "range":
                    return Tup(base.items[p[1]:p[2]], base.is_list)
                if p[0] == "const":
                    return self.unknown(n, "index out of range of a %d-sequence" % len(base.items))
            e = self._elem(base, n)
            return e if e is not None else self.unknown(n, "index into empty sequence")
        if isinstance(base, Seq):
            if len(parts) == 1 and parts[0][0] in ("range", "full", "vslice"):
                return base
            return base.elem if base.elem is not None else self.unknown(n, "index into empty sequence")
        if isinstance(base, Q):
            if not base.is_rows:
                r = Q(base.deg, base.num if base.n is not None else None, n=self._sub_len(base.n, parts))
                r.homog = base.homog
            else:
                r = self._sub_rows(base, parts, n)
            if isinstance(r, Q) and r is not base and isinstance(base.shape, Tup):
                r.shape = self._sub_shape(base.shape, parts)
            if isinstance(r, Q) and r is not base and base.homog:
                r.homog = True
            # x[lo:hi] / x[lo:] along axis 0 is a view: constant-row stores into it are written through
            if isinstance(r, Q) and len(parts) == 1 and parts[0][0] == "range" and parts[0][1] >= 0 \
                    and (not base.is_rows or base.axis == 0) and r is not base:
                r.view_of = (base, parts[0][1])
            elif isinstance(r, Q) and len(parts) == 1 and parts[0][0] == "var" and r is not base \
                    and not isinstance(n.slice, ast.Slice) and (not base.is_rows or base.axis >= 1):
                r.view_of = (base, "lead")      # x[s]: view with the leading axis removed
            return r
        return self.unknown(n, "subscript of %s" % type(base).__name__)

    @staticmethod
    def _sub_shape(shape, parts):
        items, out = list(shape.items), []
        for p in parts:
            if p[0] == "new":
                out.append(Q(D0))
                continue
            if p[0] in ("ell", "mask", "key") or not items:
                return None
            it = items.pop(0)
            if p[0] == "full":
                out.append(it)
            elif p[0] in ("range", "vslice"):
                out.append(Q(D0))       # a sub-range has its own (untyped) length
        return Tup(out + items)

    @staticmethod
    def _sub_len(n, parts):
        if n is None or len(parts) != 1 or parts[0][0] not in ("range", "full"):
            return None
        if parts[0][0] == "full":
            return n
        lo, hi = parts[0][1], parts[0][2]
        return len(range(n)[lo:hi])

    def _sub_rows(self, base, parts, n):
        axis = base.axis
        pos = 0           # axis position in the source array consumed so far
        newaxis = axis    # where the row axis lands in the result
        sel = None
        for p in parts:
            if p[0] == "ell":
                return self._collapse(base, n)
            if p[0] == "new":
                if pos <= axis:
                    newaxis += 1
                continue
            if pos == axis:
                sel = p
            elif pos < axis and p[0] in ("const", "var"):
                newaxis -= 1
            elif pos < axis and p[0] == "mask":
                return self._collapse(base, n)
            pos += 1
        if sel is None or sel[0] == "full":
            return Q(base.deg, None, newaxis, dict(base.rows), base.n if newaxis == 0 else None)
        if sel[0] == "const":
            k = sel[1]
            if k < 0 and base.n is not None and axis == 0:
                k += base.n
            elif k < 0 and isinstance(base.shape, Tup) and axis < len(base.shape.items) \
                    and self.int_of(base.shape.items[axis]) is not None:
                k += self.int_of(base.shape.items[axis])
            return base.row(k)
        if sel[0] == "range" and base.n is not None and axis == 0 and len(parts) == 1:
            idx = list(range(base.n))[sel[1]:sel[2]]
            return Q(base.deg, None, 0, {i: base.row(k) for i, k in enumerate(idx)}, len(idx))
        if sel[0] == "range":
            lo, hi = sel[1], sel[2]
            if hi is None or lo < 0 or hi < 0:
                ks = [k for k in base.rows if k >= lo] if (hi is None and lo >= 0) else None
                if ks is None:
                    return self._collapse(base, n)
                return Q(base.deg, None, newaxis, {k - lo: base.rows[k] for k in ks})
            out = {k - lo: base.row(k) for k in range(lo, hi)}
            vals = list(out.values())
            if vals and all(same(vals[0], v) for v in vals[1:]) and isinstance(vals[0], Q):
                return Q(vals[0].deg)      # homogeneous block (e.g. the three gradient components)
            return Q(base.deg, None, newaxis, out)
        return self._collapse(base, n)

    def _collapse(self, base, n):
        vals = list(base.rows.values())
        if vals and all(isinstance(v, Q) and same(vals[0], v) for v in vals) and (
                base.deg is ANY or vals[0].deg == base.deg):
            return Q(vals[0].deg)
        if not vals:
            return Q(base.deg)
        return self.unknown(n, "variable index into an array whose rows have different degrees")

    # -- stores --------------------------------------------------------------
    def combine(self, cur, v, mode, node, strict):
        if mode == "assign" or mode == "add":
            kind = "store into typed array" if mode == "assign" else "augmented add"
            return self.unify(cur, v, node, strict, kind)
        if mode == "mul":
            return self.mul(cur, v, node, 1)
        if mode == "div":
            return self.mul(cur, v, node, -1)
        if mode == "pow":
            return self.power(cur, v, node)
        return self.unknown(node, "augmented operator")

    def store_sub(self, t, v, env, node, mode):
        cont = self.eval_expr(t.value, env)
        try:
            self._store_sub(cont, t, v, env, node, mode)
        finally:
            if isinstance(cont, Q):
                self._write_through(cont)

    def _store_sub(self, cont, t, v, env, node, mode):
        if isinstance(cont, (Unk, Alt, K)):
            return
        if isinstance(cont, Map):
            k = self._key(self.eval_expr(t.slice, env))
            if k is not None:
                cont.d[k] = v if mode == "assign" else self.combine(cont.d.get(k, Q(ANY)), v, mode, node, False)
            return
        parts = self.index_parts(t.slice, env)
        if isinstance(cont, Seq):
            cont.elem = v if cont.elem is None else self.unify(cont.elem, v, node, False, "store")
            return
        if isinstance(cont, Tup):
            if len(parts) == 1 and parts[0][0] == "const" and -len(cont.items) <= parts[0][1] < len(cont.items):
                i = parts[0][1]
                cont.items[i] = v if mode == "assign" else self.combine(cont.items[i], v, mode, node, True)
            else:
                for i, x in enumerate(cont.items):
                    cont.items[i] = self.combine(x, v, mode if mode != "assign" else "assign", node, False)
            return
        if not isinstance(cont, Q):
            return
        kinds = [p[0] for p in parts]
        if isinstance(v, Q) and v.is_rows and not cont.is_rows:
            # storing a row-typed block into a plain array: adopt when the target is untyped
            if cont.deg is ANY and all(k == "full" for k in kinds) and mode in ("assign", "add"):
                cont.set_from(v)
                return
        lenient = any(k in ("var", "key", "vslice") for k in kinds)
        if not cont.homog and any(k in ("const", "range") for k in kinds):
            lenient = True      # an inferred degree is not a promise that all rows share it
        if not cont.is_rows:
            consts = [i for i, p in enumerate(parts) if p[0] in ("const", "range")]
            others = [p[0] for i, p in enumerate(parts) if i not in consts]
            npos = sum(1 for p in parts if p[0] != "new")
            if cont.deg is ANY and not cont.homog and len(consts) >= 1 \
                    and all(k in ("full", "new") for k in others) \
                    and all(parts[i][0] == "const" for i in consts[1:]) \
                    and mode in ("assign", "add") and (npos > 1 or parts[consts[0]][0] == "const"
                                                       or parts[consts[0]][2] is not None):
                axis = sum(1 for p in parts[:consts[0]] if p[0] != "new")
                cont.axis, cont.rows = axis, {}
            else:
                if mode == "assign" and all(k == "full" for k in kinds):
                    new = v            # whole-array overwrite
                else:
                    new = self.combine(Q(cont.deg), v, mode, node, not lenient)
                self._set_plain(cont, new, t, env)
                return
        # row-typed container
        pos, sel, rest = 0, None, []
        for p in parts:
            if p[0] == "new":
                continue
            if p[0] == "ell":
                rest.append("var")
                continue
            if pos == cont.axis:
                sel = p
            else:
                rest.append(p[0])
            pos += 1
        nrow = None
        if isinstance(cont.shape, Tup) and cont.axis < len(cont.shape.items):
            nrow = self.int_of(cont.shape.items[cont.axis])
        if sel is not None and sel[0] == "const" and sel[1] < 0 and nrow is not None:
            sel = ("const", sel[1] + nrow)
        if sel is not None and sel[0] == "range" and nrow is not None:
            lo, hi = sel[1], sel[2]
            sel = ("range", lo + nrow if lo < 0 else lo, nrow if hi is None else (hi + nrow if hi < 0 else hi))
        if nrow is not None and any(k < 0 for k in cont.rows):
            for k in [k for k in cont.rows if k < 0]:
                cont.rows[k + nrow] = cont.rows.pop(k)
        strong = mode == "assign" and all(k == "full" for k in rest)
        strict = not any(k in ("var", "key", "vslice") for k in rest)
        if sel is None or sel[0] == "full":
            keys, dflt = list(cont.rows), True
        elif sel[0] == "const":
            keys, dflt = [sel[1]], False
        elif sel[0] == "range" and sel[2] is not None and sel[1] >= 0 and sel[2] >= 0:
            keys, dflt = list(range(sel[1], sel[2])), False
        else:
            # variable row index: every row may be touched -> lenient on all rows
            for k in list(cont.rows):
                cont.rows[k] = self.combine(cont.rows[k], v, mode, node, False)
            if mode in ("mul", "div", "pow"):
                d = self.combine(Q(cont.deg), v, mode, node, False)
                cont.deg = d.deg if isinstance(d, Q) and not d.is_rows else ANY
            return
        for i, k in enumerate(keys):
            vk = v
            if isinstance(v, Q) and v.is_rows and sel is not None and sel[0] == "range":
                vk = v.row(i)
            elif isinstance(v, Q) and v.is_rows and (sel is None or sel[0] == "full"):
                vk = v.row(k)
            elif isinstance(v, Q) and v.is_rows:
                vk = Unk("row-typed value stored into one row")
            cur = cont.row(k)
            cont.rows[k] = vk if strong else self.combine(cur, vk, mode, node, strict)
        if dflt:
            d = v if strong else self.combine(Q(cont.deg), v if not (isinstance(v, Q) and v.is_rows) else Q(v.deg),
                                              mode, node, False)
            cont.deg = d.deg if isinstance(d, Q) and not d.is_rows else ANY

    def _write_through(self, cont):
        seen = 0
        while getattr(cont, "view_of", None) is not None and seen < 8:
            parent, off = cont.view_of
            if off == "lead":
                if not cont.is_rows:
                    return
                if not parent.is_rows:
                    if parent.deg is not ANY:
                        return
                    parent.axis, parent.rows = cont.axis + 1, {}
                if parent.axis != cont.axis + 1:
                    return
                for k, v in cont.rows.items():
                    old = parent.rows.get(k)
                    parent.rows[k] = v if old is None or old is v else self.unify(old, v, ast.Constant(value="view"),
                                                                                  False, "store through view")
                cont = parent
                seen += 1
                continue
            if not (cont.is_rows and cont.axis == 0):
                return
            if not parent.is_rows:
                if parent.deg is not ANY and any(
                        not (isinstance(v, Q) and not v.is_rows and v.deg is not ANY and v.deg == parent.deg)
                        for v in cont.rows.values()):
                    return      # typed homogeneous parent: the callee-side check already happened
                if parent.deg is not ANY:
                    return
                parent.axis, parent.rows = 0, {}
            if parent.axis != 0:
                return
            for k, v in cont.rows.items():
                parent.rows[k + off] = v
            cont = parent
            seen += 1

    def _set_plain(self, cont, new, t, env):
        if isinstance(new, Q):
            cont.set_from(Q(new.deg, None, new.axis, new.rows))
        else:
            # unknown / conflicting content: the array is no longer typed
            cont.set_from(Q(ANY))
            if isinstance(t.value, ast.Name) and t.value.id in env:
                env[t.value.id] = new if isinstance(new, Unk) else Unk("array content differs between stores")


# ----------------------------------------------------------------------------
# known callables (pluggable: Engine.calls / Hooks.calls)
# ----------------------------------------------------------------------------
def _arg(args, kwargs, i, name=None):
    if i < len(args):
        return args[i]
    if name and name in kwargs:
        return kwargs[name]
    return None


def h_preserve(eng, node, args, kwargs, env):
    v = _arg(args, kwargs, 0, "a")
    if v is None:
        return eng.unknown(node, "missing argument")
    if isinstance(v, (Tup, Seq)):
        return h_array(eng, node, args, kwargs, env)
    return v if not isinstance(v, Q) or v.is_rows else Q(v.deg, v.num, n=v.n)


def h_array(eng, node, args, kwargs, env):
    v = _arg(args, kwargs, 0)
    if isinstance(v, Tup):
        items = v.items
        if not items:
            return Q(ANY)
        if all(isinstance(x, Q) and not x.is_rows for x in items):
            first = items[0]
            if all((x.deg is ANY) == (first.deg is ANY) and (x.deg is ANY or x.deg == first.deg) for x in items):
                return Q(first.deg, first.num if all(x.num == first.num for x in items) else None, n=len(items))
            return Q(ANY, None, 0, {i: Q(x.deg, x.num) for i, x in enumerate(items)}, n=len(items))
        if all(isinstance(x, (Tup, Seq, Q)) for x in items):
            e = eng._elem(Tup([h_array(eng, node, [x], {}, env) if isinstance(x, (Tup, Seq)) else x
                               for x in items]), node)
            return e if isinstance(e, Q) else eng.unknown(node, "array of mixed content")
        return eng.unknown(node, "array of %s" % type(items[0]).__name__)
    if isinstance(v, Seq):
        if v.elem is None:
            return Q(ANY)
        if isinstance(v.elem, Q):
            return v.elem if v.elem.is_rows else Q(v.elem.deg)
        if isinstance(v.elem, (Tup, Seq)):
            return h_array(eng, node, [v.elem], {}, env)
        return eng.unknown(node, "array of %s" % type(v.elem).__name__)
    if isinstance(v, Q):
        return v if v.is_rows else Q(v.deg, v.num, n=v.n)
    return v if isinstance(v, Unk) else eng.unknown(node, "array of %s" % type(v).__name__)


def h_any(eng, node, args, kwargs, env):
    r = Q(ANY)
    if args and isinstance(args[0], Tup) and all(isinstance(x, Q) for x in args[0].items):
        r.shape = args[0]                      # np.empty((a, b, c)): remember the lengths
    elif args and isinstance(args[0], Q) and isinstance(args[0].shape, Tup) and \
            pf.src(node.func).endswith("_like"):
        r.shape = args[0].shape
    return r


def h_one(eng, node, args, kwargs, env):
    return Q(D0)


def h_sqrt(eng, node, args, kwargs, env):
    return eng.root(args[0], 2, node) if args else eng.unknown(node, "sqrt()")


def h_cbrt(eng, node, args, kwargs, env):
    return eng.root(args[0], 3, node) if args else eng.unknown(node, "cbrt()")


def h_square(eng, node, args, kwargs, env):
    return eng.power(args[0], Q(D0, Lin.const(2)), node) if args else eng.unknown(node, "square()")


def h_dimless(eng, node, args, kwargs, env):
    if not args:
        return eng.unknown(node, "no argument")
    return eng.dimensionless(args[0], node, pf.src(node.func))


def h_join(eng, node, args, kwargs, env):
    if len(args) < 2:
        return eng.unknown(node, "needs two operands")
    kind = pf.src(node.func)
    out = args[0]
    for a in args[1:]:
        if isinstance(a, K):
            continue
        out = eng.unify(out, a, node, True, kind)
    return Q(out.deg) if isinstance(out, Q) and not out.is_rows else out


def h_where(eng, node, args, kwargs, env):
    if len(args) != 3:
        return eng.unknown(node, "np.where with one argument")
    r = eng.unify(args[1], args[2], node, True, "np.where")
    return Q(r.deg) if isinstance(r, Q) and not r.is_rows else r


def h_product(eng, node, args, kwargs, env):
    ops = [a for a in args if not isinstance(a, K)]
    if pf.src(node.func).endswith("einsum") and args and not isinstance(args[0], Q):
        ops = [a for a in args[1:] if not isinstance(a, K)]      # first argument is the subscript string
    if not ops:
        return eng.unknown(node, "no operands")
    out = ops[0]
    if isinstance(out, Q) and out.is_rows:
        out = eng._collapse(out, node)
    for a in ops[1:]:
        if isinstance(a, Q) and a.is_rows:
            a = eng._collapse(a, node)
        out = eng.mul(out, a, node, 1)
    return Q(out.deg) if isinstance(out, Q) and not out.is_rows else out


def h_solve(eng, node, args, kwargs, env):
    if len(args) < 2:
        return eng.unknown(node, "solve")
    return eng.mul(args[1], args[0], node, -1)


def h_concat(eng, node, args, kwargs, env):
    parts = args
    if len(args) >= 1 and isinstance(args[0], Tup) and args[0].items and all(
            isinstance(x, (Tup, Q)) for x in args[0].items) and any(isinstance(x, Tup) for x in args[0].items) \
            and pf.src(node.func) != "np.append":
        parts = args[0].items
    if pf.src(node.func) in ("np.append", "np.concatenate", "np.hstack") and parts and all(
            isinstance(p, Tup) and all(isinstance(x, Q) and not x.is_rows for x in p.items) for p in parts
            if not isinstance(p, K)):
        flat = []
        for p in parts:
            if isinstance(p, Tup):
                flat += p.items
        return h_array(eng, node, [Tup(flat, True)], {}, env)
    if pf.src(node.func) in ("np.append", "np.concatenate", "np.hstack"):
        ps = [p for p in parts if not isinstance(p, K)]
        if ps and all(isinstance(p, Tup) or (isinstance(p, Q) and p.n is not None and (not p.is_rows or p.axis == 0))
                      for p in ps):
            flat = []
            for p in ps:
                flat += p.items if isinstance(p, Tup) else [p.row(i) if p.is_rows else Q(p.deg) for i in range(p.n)]
            if all(isinstance(x, Q) and not x.is_rows for x in flat):
                return h_array(eng, node, [Tup(flat, True)], {}, env)
        if any(isinstance(p, Q) and p.is_rows for p in ps):
            return eng.unknown(node, "concatenation of row-typed arrays of unknown length")
    vals = []
    for a in args:
        if isinstance(a, K):
            continue
        if isinstance(a, (Tup, Seq)):
            e = eng._elem(a, node)
            if e is not None:
                vals.append(h_array(eng, node, [e], {}, env) if isinstance(e, (Tup, Seq)) else e)
        else:
            vals.append(a)
    if not vals:
        return Q(ANY)
    out = vals[0]
    for v in vals[1:]:
        out = eng.unify(out, v, node, False, "concatenate")
    if isinstance(out, Alt):
        return eng.unknown(node, "concatenation of arrays of different degree")
    return out


def h_len(eng, node, args, kwargs, env):
    v = args[0] if args else None
    if isinstance(v, Tup):
        return Q(D0, Lin.const(len(v.items)))
    if isinstance(v, Map):
        return Q(D0, Lin.const(len(v.d)))
    return Q(D0)


def h_range(eng, node, args, kwargs, env):
    ks = [eng.int_of(a) for a in args]
    if ks and all(k is not None for k in ks):
        r = list(range(*ks))
        if len(r) <= 64:
            return Tup([Q(D0, Lin.const(i)) for i in r], True)
    return Seq(Q(D0))


def h_enumerate(eng, node, args, kwargs, env):
    it = eng.iterate(args[0], node) if args else None
    st = args[1] if len(args) > 1 else kwargs.get("start")
    s0 = eng.int_of(st) if st is not None else 0
    if isinstance(it, list) and s0 is not None:
        return Tup([Tup([Q(D0, Lin.const(i + s0)), x]) for i, x in enumerate(it)], True)
    if isinstance(it, list):
        return Seq(Tup([Q(D0), eng._elem(Tup(it), node) or Unk("empty")]))
    if it is None or isinstance(it, Unk):
        return Seq(Unk("enumerate"))
    return Seq(Tup([Q(D0), it]))


def h_zip(eng, node, args, kwargs, env):
    its = [eng.iterate(a, node) for a in args]
    if its and all(isinstance(i, list) for i in its):
        n = min(len(i) for i in its)
        return Tup([Tup([i[j] for i in its]) for j in range(n)], True)
    if any(isinstance(i, list) and not i for i in its):
        return Tup([], True)
    elems = []
    for i in its:
        if isinstance(i, list):
            e = eng._elem(Tup(i), node)
            elems.append(e if e is not None else Unk("empty"))
        else:
            elems.append(i)
    return Seq(Tup(elems))


def h_list(eng, node, args, kwargs, env):
    if not args:
        return Tup([], True)
    v = args[0]
    if isinstance(v, Tup):
        return Tup(v.items, pf.src(node.func) == "list")
    if isinstance(v, Map):
        return Tup([eng._unkey(k) for k in v.d], True)
    return v if isinstance(v, (Seq, Unk)) else eng.unknown(node, "list() of %s" % type(v).__name__)


def h_sorted(eng, node, args, kwargs, env):
    v = h_list(eng, node, args, kwargs, env)
    if isinstance(v, Tup):
        ks = [eng._key(x) for x in v.items]
        if all(isinstance(k, Fraction) for k in ks) or all(isinstance(k, str) for k in ks):
            return Tup([x for _, x in sorted(zip(ks, v.items), key=lambda p: p[0])], True)
        return Seq(eng._elem(v, node))
    return v


def h_bool(eng, node, args, kwargs, env):
    return B(None)


def h_minmax(eng, node, args, kwargs, env):
    if len(args) == 1:
        return h_preserve(eng, node, args, kwargs, env)
    ks = [eng.num_of(a) for a in args]
    r = h_join(eng, node, args, kwargs, env)
    if all(k is not None for k in ks) and isinstance(r, Q):
        f = min if pf.src(node.func) == "min" else max
        return Q(r.deg, Lin.const(f(ks)))
    return r


def h_unk(eng, node, args, kwargs, env):
    return Unk("opaque call %s" % pf.src(node.func))


def h_none(eng, node, args, kwargs, env):
    return K(None)


def h_dict(eng, node, args, kwargs, env):
    if not args:
        return Map(dict(kwargs))
    return eng.unknown(node, "dict(...)")


NUMPY_CALLS = {}
for _n in ("asarray", "array", "ascontiguousarray", "asfortranarray", "abs", "absolute", "copy", "squeeze",
           "real", "imag", "flip", "sum", "mean", "cumsum", "max", "min", "amax", "amin", "float64", "ravel",
           "negative", "conj", "trace", "diag", "nan_to_num", "atleast_1d", "atleast_2d"):
    NUMPY_CALLS["np." + _n] = h_preserve
for _n in ("zeros", "zeros_like", "empty", "empty_like"):
    NUMPY_CALLS["np." + _n] = h_any
for _n in ("ones", "ones_like", "identity", "eye", "arange", "linspace", "sign"):
    NUMPY_CALLS["np." + _n] = h_one
for _n in ("exp", "log", "log1p", "expm1", "cos", "sin", "tan", "tanh", "sinh", "cosh", "arctan", "arcsinh",
           "log10", "erf"):
    NUMPY_CALLS["np." + _n] = h_dimless
for _n in ("gamma_func", "gamma", "erf", "erfc", "math.exp", "math.log", "scipy.special.erf"):
    NUMPY_CALLS[_n] = h_dimless
for _n in ("maximum", "minimum", "fmax", "fmin", "clip", "hypot"):
    NUMPY_CALLS["np." + _n] = h_join
for _n in ("np.einsum", "pyscflib.einsum", "lib.einsum", "np.dot", "pyscflib.dot", "lib.dot", "np.outer",
           "np.matmul", "np.multiply", "np.tensordot", "np.vdot", "np.inner"):
    NUMPY_CALLS[_n] = h_product
for _n in ("np.append", "np.concatenate", "np.hstack", "np.vstack", "np.stack"):
    NUMPY_CALLS[_n] = h_concat
def h_cho_solve(eng, node, args, kwargs, env):
    """cho_solve(cho_factor(A), b) -> b / A   (cho_factor(A) is represented by A itself)"""
    if len(args) < 2:
        return eng.unknown(node, "cho_solve")
    a = args[0].items[0] if isinstance(args[0], Tup) and args[0].items else args[0]
    return eng.mul(args[1], a, node, -1)


for _n in ("cholesky", "np.linalg.cholesky", "scipy.linalg.cholesky", "sqrtm"):
    NUMPY_CALLS[_n] = h_sqrt
for _n in ("cho_factor", "scipy.linalg.cho_factor"):
    NUMPY_CALLS[_n] = h_preserve
for _n in ("cho_solve", "scipy.linalg.cho_solve"):
    NUMPY_CALLS[_n] = h_cho_solve
for _n in ("solve_triangular", "scipy.linalg.solve_triangular", "np.linalg.lstsq"):
    NUMPY_CALLS[_n] = h_solve
def h_power(eng, node, args, kwargs, env):
    if len(args) < 2:
        return eng.unknown(node, "power")
    return eng.power(args[0], args[1], node)


NUMPY_CALLS["np.power"] = h_power
NUMPY_CALLS["pow"] = h_power
NUMPY_CALLS.update({
    "np.sqrt": h_sqrt, "math.sqrt": h_sqrt, "np.cbrt": h_cbrt, "np.square": h_square, "np.where": h_where,
    "np.linalg.solve": h_solve, "float": h_preserve, "int": h_preserve, "abs": h_preserve, "sum": h_preserve,
    "len": h_len, "range": h_range, "enumerate": h_enumerate, "zip": h_zip, "list": h_list, "tuple": h_list,
    "sorted": h_sorted, "isinstance": h_bool, "hasattr": h_bool, "callable": h_bool, "min": h_minmax,
    "max": h_minmax, "print": h_none, "dict": h_dict, "np.divide": lambda e, n, a, k, env: e.mul(a[0], a[1], n, -1)
    if len(a) > 1 else e.unknown(n, "divide"),
})

METHODS_PRESERVE = {"copy", "item", "astype", "sum", "mean", "max", "min", "conj", "conjugate", "flatten", "ravel",
                    "squeeze", "cumsum", "tolist", "real", "view", "__abs__"}
METHODS_SHAPE = {"reshape", "transpose", "swapaxes"}


class _CallMixin:
    def _e_Call(self, n, env):
        if any(isinstance(a, ast.Starred) for a in n.args) or any(k.arg is None for k in n.keywords):
            star = True
        else:
            star = False
        fn = self.hooks.resolve_call(self, n, env)
        name = _dotted(n.func)
        if fn is None and isinstance(n.func, ast.Name) and n.func.id in env:
            fv = env[n.func.id]
            if isinstance(fv, (Fn, ClsRef)):
                fn = fv
        if star:
            # f(*t, **d): expanded when t is a sequence of known length / d a literal dict
            args, kwargs, ok = [], {}, True
            for a in n.args:
                if isinstance(a, ast.Starred):
                    v = self.eval_expr(a.value, env)
                    if isinstance(v, Tup):
                        args.extend(v.items)
                    else:
                        ok = False
                else:
                    args.append(self.eval_expr(a, env))
            for k in n.keywords:
                v = self.eval_expr(k.value, env)
                if k.arg is not None:
                    kwargs[k.arg] = v
                elif isinstance(v, Map) and all(isinstance(x, str) for x in v.d):
                    kwargs.update(v.d)
                else:
                    ok = False
            if not ok:
                return self.unknown(n, "call with *args/**kwargs of unknown length")
        else:
            args = [self.eval_expr(a, env) for a in n.args]
            kwargs = {k.arg: self.eval_expr(k.value, env) for k in n.keywords}
        for ob in self.call_observers:
            ob(n, name or (n.func.attr if isinstance(n.func, ast.Attribute) else ""), args, kwargs)
        if isinstance(fn, ClsRef):
            return self.instantiate(fn, args, kwargs, n)
        if isinstance(fn, Fn):
            return self.call_function(fn, args, kwargs, n)
        if name in self.calls:
            return self.calls[name](self, n, args, kwargs, env)
        if isinstance(n.func, ast.Attribute):
            base = self.eval_expr(n.func.value, env)
            return self.method(base, n.func.attr, args, kwargs, n, env)
        return self.unknown(n, "call of unknown function %s" % (name or pf.src(n.func)[:40]))

    def method(self, base, attr, args, kwargs, n, env):
        if isinstance(base, Unk):
            return base
        if isinstance(base, Q):
            if attr == "sum" and base.shape is not None and isinstance(base.shape, Tup):
                ax = args[0] if args else kwargs.get("axis")
                k = self.int_of(ax) if ax is not None else None
                if k is not None and 0 <= k < len(base.shape.items) and isinstance(base.shape.items[k], Q) \
                        and base.shape.items[k].deg not in (D0, ANY):
                    # sum of L equally-typed slices along an axis of (typed) length L
                    inner = self.method(Q(base.deg, None, base.axis, base.rows, base.n), attr, args, kwargs, n, env)
                    return self.mul(inner, Q(base.shape.items[k].deg), n, 1)
            if attr in METHODS_PRESERVE:
                if base.is_rows and attr in ("sum", "mean", "max", "min", "flatten", "ravel", "cumsum"):
                    ax = args[0] if args else kwargs.get("axis")
                    k = self.int_of(ax) if ax is not None else None
                    if k is not None and k < base.axis:
                        return Q(base.deg, None, base.axis - 1, dict(base.rows))
                    if k is not None and k > base.axis:
                        return base
                    return self._collapse(base, n)
                if base.is_rows:
                    return base
                r = Q(base.deg, base.num if attr in ("item", "copy", "astype", "view") else None,
                      n=base.n if attr in ("copy", "astype", "view", "conj") else None)
                if attr in ("copy", "astype", "view", "conj", "conjugate"):
                    r.shape = base.shape
                return r
            if attr in METHODS_SHAPE:
                return Q(base.deg) if not base.is_rows else self.unknown(n, "%s of a row-typed array" % attr)
            if attr == "dot":
                return self.mul(base, args[0], n, 1) if args else self.unknown(n, "dot()")
            if attr == "fill":
                return K(None)
        if isinstance(base, Tup) or isinstance(base, Seq):
            if attr == "append" and args:
                if isinstance(base, Tup):
                    base.items.append(args[0])
                else:
                    base.elem = args[0] if base.elem is None else self.unify(base.elem, args[0], n, False, "append")
                return K(None)
            if attr == "extend" and args and isinstance(base, Tup) and isinstance(args[0], Tup):
                base.items.extend(args[0].items)
                return K(None)
            if attr == "copy":
                return clone(base, {})
            if attr == "index":
                return Q(D0)
        if isinstance(base, Map):
            if attr == "items":
                return Tup([Tup([self._unkey(k), v]) for k, v in base.d.items()], True)
            if attr == "keys":
                return Tup([self._unkey(k) for k in base.d], True)
            if attr == "values":
                return Tup(list(base.d.values()), True)
            if attr == "get" and args:
                k = self._key(args[0])
                if k is not None:
                    return base.d.get(k, args[1] if len(args) > 1 else K(None))
            if attr == "update" and args and isinstance(args[0], Map):
                base.d.update(args[0].d)
                return K(None)
        if isinstance(base, K) and isinstance(base.value, str):
            return K("<str>")
        return self.unknown(n, "method .%s of %s" % (attr, type(base).__name__))

    # -- interprocedural ------------------------------------------------------
    def instantiate(self, cref, args, kwargs, node):
        obj = Obj(cref.cls, cref.mod)
        init = self.hooks.find_init(cref) if hasattr(self.hooks, "find_init") else None
        if init is None:
            if args or kwargs:
                return self.unknown(node, "constructor of %s not found" % cref.cls.name)
            return obj
        self.call_function(Fn(init[0], init[1], obj), args, kwargs, node)
        return obj

    def call_function(self, fn, args, kwargs, node):
        fdef = fn.fdef
        if len(self.frames) >= self.MAX_DEPTH or sum(1 for f in self.frames if f.fdef is fdef) >= 2:
            return self.unknown(node, "recursion / call depth limit")
        a = fdef.args
        if a.vararg or a.kwarg or a.posonlyargs:
            return self.unknown(node, "callee with *args/**kwargs")
        params = [p.arg for p in a.args]
        is_static = any(pf.src(d) == "staticmethod" for d in fdef.decorator_list)
        is_cls = any(pf.src(d) == "classmethod" for d in fdef.decorator_list)
        env = Env()
        env.closure = fn.closure
        pos = list(args)
        if fn.self_val is not None and not is_static:
            pos = [fn.self_val if not is_cls else ClsRef(fn.self_val.cls, fn.self_val.mod)
                   if isinstance(fn.self_val, Obj) else fn.self_val] + pos
        if len(pos) > len(params):
            return self.unknown(node, "too many positional arguments for %s" % fdef.name)
        for p, v in zip(params, pos):
            env[p] = v
        allowed = set(params) | {k.arg for k in a.kwonlyargs}
        for k, v in kwargs.items():
            if k not in allowed:
                return self.unknown(node, "unexpected keyword %s for %s" % (k, fdef.name))
            env[k] = v
        self.frames.append(Frame(fdef, fn.mod))
        self.frames[-1].fork0 = self.fork_depth
        self.visited.add((self.frames[-1].rel, self.frames[-1].name))
        try:
            defaults = dict(zip(params[len(params) - len(a.defaults):], a.defaults))
            defaults.update({k.arg: d for k, d in zip(a.kwonlyargs, a.kw_defaults) if d is not None})
            for p in list(params) + [k.arg for k in a.kwonlyargs]:
                if p not in env:
                    if p in defaults:
                        env[p] = self.eval_expr(defaults[p], Env())
                    else:
                        env[p] = self.hooks.default_param(self, fdef, p)
            fr = self.frames[-1]
            fr.env = env
            if len(self.frames) == 1:
                self._top_env = env
            self.exec_block(fdef.body, env)
            return self._result(fr, node)
        finally:
            self.frames.pop()

    def _result(self, fr, node):
        if fr.yields and not fr.yields_abstract:
            return Tup(list(fr.yields), True)
        if fr.yields:
            out = None
            for y in fr.yields:
                out = y if out is None else self.unify(out, y, node, False, "yield")
            return Seq(out)
        if any(isinstance(x, (ast.Yield, ast.YieldFrom)) for x in pf.walk_no_nested(fr.fdef)):
            return Tup([], True) if not fr.yields_abstract else Seq(None)
        if not fr.returns:
            return K(None)
        out = fr.returns[0]
        for r in fr.returns[1:]:
            out = self.unify(out, r, node if node is not None else fr.fdef, False, "return")
        return out

    def run_function(self, fdef, args=None, mod=None, self_val=None, kwargs=None):
        m0, u0, c0 = len(self.mismatches), len(self.unknowns), len(self.conflicts)
        if isinstance(args, dict):
            kw = dict(args)
            kw.update(kwargs or {})
            pos = []
        else:
            pos, kw = list(args or []), dict(kwargs or {})
        fn = Fn(fdef, mod, self_val)
        self._top_env = Env()
        value = self.call_function(fn, pos, kw, fdef)
        return Result(value, self._top_env, self.mismatches[m0:], self.unknowns[u0:], self.conflicts[c0:])


# ----------------------------------------------------------------------------
# statements
# ----------------------------------------------------------------------------
class _StmtMixin:
    def exec_block(self, stmts, env):
        for st in stmts:
            m = getattr(self, "_s_" + type(st).__name__, None)
            if m is None:
                self.unknown(st, "unsupported statement %s" % type(st).__name__)
                continue
            r = m(st, env)
            if r:
                return r
        return NORMAL

    def bind(self, t, v, env, node):
        if isinstance(t, ast.Name):
            env[t.id] = v
        elif isinstance(t, (ast.Tuple, ast.List)):
            n = len(t.elts)
            if isinstance(v, Tup) and len(v.items) == n:
                for tt, vv in zip(t.elts, v.items):
                    self.bind(tt, vv, env, node)
            elif isinstance(v, Seq):
                for tt in t.elts:
                    self.bind(tt, v.elem if v.elem is not None else Unk("empty sequence"), env, node)
            elif isinstance(v, Q) and not v.is_rows:
                for tt in t.elts:
                    self.bind(tt, Q(v.deg), env, node)
            elif isinstance(v, Q) and v.axis == 0:
                for i, tt in enumerate(t.elts):
                    self.bind(tt, v.row(i), env, node)
            else:
                u = v if isinstance(v, Unk) else self.unknown(node, "cannot unpack %s into %d names" % (
                    type(v).__name__, n))
                for tt in t.elts:
                    self.bind(tt, u, env, node)
        elif isinstance(t, ast.Attribute):
            base = self.eval_expr(t.value, env)
            if isinstance(base, Obj):
                base.attrs[t.attr] = v
            d = _dotted(t)
            if d in env:
                env[d] = v
        elif isinstance(t, ast.Subscript):
            self.store_sub(t, v, env, node, "assign")
        else:
            self.unknown(node, "assignment target %s" % type(t).__name__)

    def _s_Assign(self, st, env):
        v = self.eval_expr(st.value, env)
        for t in st.targets:
            self.bind(t, v, env, st)

    def _s_AnnAssign(self, st, env):
        if st.value is not None:
            self.bind(st.target, self.eval_expr(st.value, env), env, st)

    def _s_AugAssign(self, st, env):
        v = self.eval_expr(st.value, env)
        mode = {ast.Add: "add", ast.Sub: "add", ast.Mult: "mul", ast.Div: "div", ast.Pow: "pow",
                ast.MatMult: "mul"}.get(type(st.op))
        t = st.target
        if mode is None:
            if isinstance(t, ast.Name):
                env[t.id] = self.unknown(st, "augmented operator %s" % type(st.op).__name__)
            return
        if isinstance(t, ast.Subscript):
            self.store_sub(t, v, env, st, mode)
            return
        cur = self.eval_expr(t, env)
        if isinstance(cur, (Tup, Seq)) and mode == "add" and isinstance(st.op, ast.Add) and isinstance(v, (Tup, Seq)):
            new = self._e_BinOp(ast.copy_location(ast.BinOp(t, ast.Add(), st.value), st), env)
            self.bind(t, new, env, st)
            return
        if mode == "add":
            new = self.unify(cur, v, st, True, "augmented add") if isinstance(cur, Q) and isinstance(v, Q) else (
                cur if isinstance(cur, Unk) else v if isinstance(v, Unk) else self.unknown(st, "augmented add"))
            if isinstance(new, Q) and not new.is_rows and isinstance(cur, Q) and isinstance(v, Q) \
                    and cur.num is not None and v.num is not None and not cur.is_rows and not v.is_rows:
                new = Q(new.deg, cur.num + v.num if isinstance(st.op, ast.Add) else cur.num - v.num)
        else:
            new = self.combine(cur, v, mode, st, True)
        scalar = isinstance(cur, Q) and cur.num is not None
        if isinstance(cur, Q) and isinstance(new, Q) and not scalar and isinstance(t, ast.Name):
            cur.set_from(new)          # in-place array update keeps aliases
        else:
            self.bind(t, new, env, st)

    def _s_Expr(self, st, env):
        if isinstance(st.value, ast.Constant):
            return
        if isinstance(st.value, (ast.Yield, ast.YieldFrom)):
            y = st.value
            v = self.eval_expr(y.value, env) if y.value is not None else K(None)
            if isinstance(y, ast.YieldFrom):
                it = self.iterate(v, st)
                v = self._elem(Tup(it), st) if isinstance(it, list) else it
                if v is None:
                    return
            self.fr.yields.append(v)
            if self.fork_depth > self.fr.fork0:
                self.fr.yields_abstract = True
            return
        self.eval_expr(st.value, env)

    def _s_Return(self, st, env):
        self.fr.returns.append(self.eval_expr(st.value, env) if st.value is not None else K(None))
        return FUNCX

    def _s_Raise(self, st, env):
        return FUNCX

    def _s_Break(self, st, env):
        return BRKX

    def _s_Continue(self, st, env):
        return LOOPX

    def _s_Pass(self, st, env):
        return

    _s_Assert = _s_Import = _s_ImportFrom = _s_Global = _s_Nonlocal = _s_Delete = _s_Pass

    def _s_FunctionDef(self, st, env):
        env[st.name] = Fn(st, self.fr.mod, closure=env)

    def _s_With(self, st, env):
        return self.exec_block(st.body, env)

    def _s_Try(self, st, env):
        r = self.exec_block(st.body, env)
        live = []
        for h in st.handlers:
            if not (h.body and isinstance(h.body[-1], ast.Raise)):
                live.append(h.body)
        for body in live:
            self._fork(env, [lambda e, b=body: self.exec_block(b, e), lambda e: NORMAL])
        if not r and st.orelse:
            r = self.exec_block(st.orelse, env)
        if st.finalbody:
            r2 = self.exec_block(st.finalbody, env)
            r = r or r2
        return r

    def _s_If(self, st, env):
        d = self.decide(st.test, env)
        if d is True:
            return self.exec_block(st.body, env)
        if d is False:
            return self.exec_block(st.orelse, env)
        return self._fork(env, [lambda e: self.exec_block(st.body, e), lambda e: self.exec_block(st.orelse, e)])

    def _fork(self, env, branches):
        """run alternative continuations on copies of env and merge the surviving
        ones back into env *in place* (aliases with the caller's objects are kept)"""
        runs = []
        self.fork_depth += 1
        try:
            for b in branches:
                memo = {}
                e = Env({k: clone(v, memo) for k, v in env.items()})
                e.closure = env.closure
                st = b(e)
                runs.append((e, memo, st))
        finally:
            self.fork_depth -= 1
        live = [(e, memo) for e, memo, st in runs if st == NORMAL]
        if not live:
            return min(st for _, _, st in runs)
        # originals: every object cloned in every live branch
        origs = {}
        self._collect(env, origs)
        for oid, o in origs.items():
            cl = [memo.get(oid) for _, memo in live]
            if any(c is None for c in cl):
                continue
            self._merge_into(o, cl)
        keys = set()
        for e, _ in live:
            keys |= set(e)
        for k in keys:
            vals = []
            for e, memo in live:
                if k not in e:
                    vals.append(None)
                    continue
                v = e[k]
                inv = next((origs[oid] for oid, c in memo.items() if c is v and oid in origs), None)
                vals.append(inv if inv is not None else v)
            if any(v is None for v in vals):
                # defined on some paths only: keep the defined value (possibly-undefined is not our concern)
                vals = [v for v in vals if v is not None]
            out = vals[0]
            for v in vals[1:]:
                out = self.unify(out, v, ast.Constant(value=k), False, "branch join of %s" % k)
            env[k] = out
        return NORMAL

    def _collect(self, env, out):
        todo = list(env.values())
        while todo:
            v = todo.pop()
            if id(v) in out or not isinstance(v, (Q, Tup, Seq, Map, Obj)):
                continue
            out[id(v)] = v
            if isinstance(v, Q) and v.rows:
                todo.extend(v.rows.values())
            elif isinstance(v, Tup):
                todo.extend(v.items)
            elif isinstance(v, Seq) and v.elem is not None:
                todo.append(v.elem)
            elif isinstance(v, Map):
                todo.extend(v.d.values())
            elif isinstance(v, Obj):
                todo.extend(v.attrs.values())

    def _merge_into(self, o, clones):
        node = ast.Constant(value="<merge>")
        if isinstance(o, Q):
            m = clones[0]
            for c in clones[1:]:
                m = self.unify(m, c, node, False, "branch join")
            if isinstance(m, Q):
                o.set_from(m)
            else:
                o.set_from(Q(ANY))
                o.rows = None
        elif isinstance(o, Tup):
            if all(len(c.items) == len(clones[0].items) for c in clones):
                items = []
                for i in range(len(clones[0].items)):
                    m = clones[0].items[i]
                    for c in clones[1:]:
                        m = self.unify(m, c.items[i], node, False, "branch join")
                    items.append(m)
                o.items = items
            else:
                e = None
                for c in clones:
                    ce = self._elem(c, node)
                    e = ce if e is None else (e if ce is None else self.unify(e, ce, node, False, "branch join"))
                o.items = [e] if e is not None else []
                o.ragged = True
        elif isinstance(o, Seq):
            e = None
            for c in clones:
                e = c.elem if e is None else (e if c.elem is None else self.unify(e, c.elem, node, False, "join"))
            o.elem = e
        elif isinstance(o, Map):
            keys = set()
            for c in clones:
                keys |= set(c.d)
            for k in keys:
                vs = [c.d[k] for c in clones if k in c.d]
                m = vs[0]
                for v in vs[1:]:
                    m = self.unify(m, v, node, False, "branch join")
                o.d[k] = m
        elif isinstance(o, Obj):
            keys = set()
            for c in clones:
                keys |= set(c.attrs)
            for k in keys:
                vs = [c.attrs[k] for c in clones if k in c.attrs]
                m = vs[0]
                for v in vs[1:]:
                    m = self.unify(m, v, node, False, "branch join")
                o.attrs[k] = m

    def _s_For(self, st, env):
        it = self.iterate(self.eval_expr(st.iter, env), st.iter)
        if isinstance(it, list):
            for x in it:
                self.bind(st.target, x, env, st)
                r = self.exec_block(st.body, env)
                if r == FUNCX:
                    return r
                if r == BRKX:
                    break
            if st.orelse:
                return self.exec_block(st.orelse, env)
            return NORMAL

        def body(e):
            self.bind(st.target, it, e, st)
            r = self.exec_block(st.body, e)
            return NORMAL if r in (LOOPX, BRKX) else r
        for _ in range(2):
            self._fork(env, [body, lambda e: NORMAL])
        if st.orelse:
            return self.exec_block(st.orelse, env)
        return NORMAL

    def _s_While(self, st, env):
        def body(e):
            r = self.exec_block(st.body, e)
            return NORMAL if r in (LOOPX, BRKX) else r
        for _ in range(2):
            self._fork(env, [body, lambda e: NORMAL])
        return NORMAL


class Engine(_ExprMixin, _SubMixin, _CallMixin, _StmtMixin, Engine):
    pass


# ----------------------------------------------------------------------------
# ready-made hooks over sa.pyfacts.Program
# ----------------------------------------------------------------------------
class ProgramHooks(Hooks):
    """Resolves names, functions, classes, methods, properties and super() through a
    pyfacts.Program.  attr_default: what an instance attribute nobody assigned evaluates to:
    "symbol" -> dimensionless scalar with numeric value Lin.sym("self.<attr>") (linear forms in
    instance attributes), "unknown" -> Unk."""

    def __init__(self, prog, attr_default="unknown", calls=None):
        self.prog = prog
        self.attr_default = attr_default
        self.calls = dict(calls or {})
        self.calls.setdefault("super", self.h_super)
        self.calls.setdefault("hasattr", self.h_hasattr)
        self._globals = {}

    # -- construction helpers -------------------------------------------------
    def cls(self, rel, name):
        m = self.prog.module(rel)
        return ClsRef(m.cls(name), m)

    def new_obj(self, rel, name, **attrs):
        c = self.cls(rel, name)
        return Obj(c.cls, c.mod, attrs)

    def find_init(self, cref):
        r = self.prog.find_method(cref.mod, cref.cls, "__init__")
        return (r[2], r[0]) if r else None

    def func(self, rel, name):
        m = self.prog.module(rel)
        return Fn(m.func(name), m)

    def _find(self, obj, name):
        after = getattr(obj, "after", None)
        if after is None:
            return self.prog.find_method(obj.mod, obj.cls, name)
        mro = self.prog.mro(obj.mod, obj.cls)
        idx = next((i for i, (m, c) in enumerate(mro) if c is after), None)
        if idx is None:
            return None
        for m, c in mro[idx + 1:]:
            ms = pf.methods(c)
            if name in ms:
                return m, c, ms[name]
        return None

    def method_of(self, obj, name):
        r = self._find(obj, name)
        if r is None:
            return None
        return Fn(r[2], r[0], getattr(obj, "obj", obj))

    def h_hasattr(self, eng, node, args, kwargs, env):
        if len(args) == 2 and isinstance(args[0], Obj) and isinstance(args[1], K) and isinstance(args[1].value, str):
            o, a = args[0], args[1].value
            if a in o.attrs or (o.cls is not None and (self._find(o, a) is not None
                                                      or self.prog.find_class_attr(o.mod, o.cls, a) is not None)):
                return B(True)
        return B(None)

    def h_super(self, eng, node, args, kwargs, env):
        selfv = args[1] if len(args) > 1 else env.get("self")
        cur = args[0].cls if args and isinstance(args[0], ClsRef) else (
            pf.enclosing_class(eng.fr.fdef) if eng.fr.fdef is not None else None)
        if isinstance(selfv, Obj) and cur is not None:
            return SuperObj(getattr(selfv, "obj", selfv), cur)
        return eng.unknown(node, "super() outside a method of a known object")

    # -- hooks ------------------------------------------------------------------
    def _lookup_global(self, eng, mod, name):
        key = (mod.rel, name)
        if key in self._globals:
            return self._globals[key]
        v = None
        if name in mod.functions:
            v = Fn(mod.functions[name], mod)
        elif name in mod.classes:
            v = ClsRef(mod.classes[name], mod)
        elif name in mod.assigns:
            self._globals[key] = Unk("recursive global")
            eng.frames.append(Frame(None, mod))
            try:
                v = eng.eval_expr(mod.assigns[name], Env())
            finally:
                eng.frames.pop()
        elif name in mod.imports:
            m, n = mod.imports[name]
            rel = self.prog._modname.get(m)
            if rel is None and m:
                # a repo module that was not listed: load it on demand (constants / helpers may live anywhere)
                for cand in (m.replace(".", "/") + ".py", m.replace(".", "/") + "/__init__.py"):
                    if self.prog.tree.exists(cand):
                        try:
                            self.prog.modules[cand] = pf.Module(self.prog.tree, cand)
                            self.prog._modname[m] = rel = cand
                        except Exception:
                            rel = None
                        break
            if rel is not None and n is not None:
                v = self._lookup_global(eng, self.prog.modules[rel], n)
        if v is not None:
            self._globals[key] = v
        else:
            self._globals.pop(key, None)
        return v

    def global_name(self, eng, name, env):
        mod = eng.fr.mod
        if mod is None:
            return None
        return self._lookup_global(eng, mod, name)

    def _is_property(self, fdef):
        return any(pf.src(d) in ("property", "functools.cached_property", "cached_property")
                   for d in fdef.decorator_list)

    def attribute(self, eng, base, node, env):
        attr = node.attr
        if isinstance(base, Obj):
            if attr in base.attrs:
                return base.attrs[attr]
            if base.cls is None:
                return None
            r = self._find(base, attr)
            real = getattr(base, "obj", base)
            if r is not None:
                m, c, fdef = r
                if self._is_property(fdef):
                    return eng.call_function(Fn(fdef, m, real), [], {}, node)
                return Fn(fdef, m, real)
            ca = self.prog.find_class_attr(base.mod, base.cls, attr)
            if ca is not None:
                eng.frames.append(Frame(None, ca[0]))
                try:
                    return eng.eval_expr(ca[2], Env())
                finally:
                    eng.frames.pop()
            if self.attr_default == "symbol":
                v = Q(D0, Lin.sym("self." + attr))
                base.attrs[attr] = v
                return v
            return None
        if isinstance(base, ClsRef):
            r = self.prog.find_method(base.mod, base.cls, attr)
            if r is not None:
                return Fn(r[2], r[0], None)
            ca = self.prog.find_class_attr(base.mod, base.cls, attr)
            if ca is not None:
                eng.frames.append(Frame(None, ca[0]))
                try:
                    return eng.eval_expr(ca[2], Env())
                finally:
                    eng.frames.pop()
        return None

    def resolve_call(self, eng, node, env):
        f = node.func
        if isinstance(f, ast.Name):
            if f.id in env or f.id in eng.calls:
                v = env.get(f.id)
                return v if isinstance(v, (Fn, ClsRef)) else None
            v = self.global_name(eng, f.id, env)
            return v if isinstance(v, (Fn, ClsRef)) else None
        if isinstance(f, ast.Attribute):
            b = f.value
            if _dotted(f) in eng.calls:
                return None
            base = eng.eval_expr(b, env) if not (isinstance(b, ast.Name) and b.id not in env
                                                 and b.id in ("np", "numpy", "math", "ctypes", "pyscflib",
                                                              "lib", "scipy")) else None
            if isinstance(base, Obj) and f.attr not in base.attrs:
                fn = self.method_of(base, f.attr)
                if fn is not None and not self._is_property(fn.fdef):
                    return fn
            if isinstance(base, Obj) and isinstance(base.attrs.get(f.attr), (Fn, ClsRef)):
                return base.attrs[f.attr]
            if isinstance(base, ClsRef):
                r = self.prog.find_method(base.mod, base.cls, f.attr)
                if r is not None:
                    return Fn(r[2], r[0], None)
        return None


# ----------------------------------------------------------------------------
# convenience wrapper used by the property drivers
# ----------------------------------------------------------------------------
def num(v):
    return Q(D0, Lin.const(v))


def sym(name):
    return Q(D0, Lin.sym(name))


def lst(*items):
    return Tup(list(items), True)


class Session:
    """Program + hooks + engine.  `new` runs a repo constructor abstractly, `call` runs a
    method/function and returns a Result."""

    def __init__(self, tree, rels, attr_default="unknown", poly_names=POLY_NAMES, calls=None, hooks_cls=ProgramHooks):
        self.prog = pf.Program(tree, rels)
        self.hooks = hooks_cls(self.prog, attr_default=attr_default, calls=calls)
        self.eng = Engine(self.hooks, poly_names=poly_names)

    def new(self, rel, cls, *args, **kwargs):
        c = self.hooks.cls(rel, cls)
        self.eng.frames.append(Frame(None, c.mod))
        try:
            return self.eng.instantiate(c, list(args), kwargs, c.cls)
        finally:
            self.eng.frames.pop()

    def obj(self, rel, cls, **attrs):
        return self.hooks.new_obj(rel, cls, **attrs)

    def call(self, target, name=None, args=(), kwargs=None):
        """target: Obj (with method `name`) or rel path (with function `name`)"""
        if isinstance(target, Obj):
            fn = self.hooks.method_of(target, name)
            if fn is None:
                from sa.core import AnalysisError
                raise AnalysisError("method %s.%s vanished" % (target.cls.name, name))
            return self.eng.run_function(fn.fdef, list(args), mod=fn.mod, self_val=target, kwargs=kwargs)
        mod = self.prog.module(target)
        return self.eng.run_function(mod.func(name), list(args), mod=mod, kwargs=kwargs)

    def global_value(self, rel, name):
        mod = self.prog.module(rel)
        v = self.hooks._lookup_global(self.eng, mod, name)
        if v is None:
            from sa.core import AnalysisError
            raise AnalysisError("module-level name %s vanished from %s" % (name, rel))
        return v


def items_of(v):
    """python list of per-index values of a Tup / row-typed array@0 / homogeneous Q(n unknown) -> list|None"""
    if isinstance(v, Tup):
        return list(v.items)
    if isinstance(v, Q) and v.is_rows and v.axis == 0:
        n = v.n if v.n is not None else ((max(v.rows) + 1) if v.rows else 0)
        return [v.row(i) for i in range(n)]
    if isinstance(v, Q) and not v.is_rows and v.n is not None:
        return [Q(v.deg) for _ in range(v.n)]
    return None
