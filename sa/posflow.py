"""Flow of atomic positions through Python set-up code (C06: rigid-motion invariance of quantities
derived from `mol.atom_coords()`).

Abstract kinds of a value:
  POS   array of absolute positions (last axis = Cartesian axis), possibly restricted to some atoms
  DIFF  difference of positions (translation invariant, still a vector)
  SQ    element-wise product of two DIFFs (to be summed over the Cartesian axis)
  INV   rotation- and translation-invariant number(s): norm / dot / sum of squares over the Cartesian
        axis of a DIFF, cdist/pdist of POS, and anything computed from INV and position-free values
  FD    frame dependent: a single Cartesian component, a component-wise reduction over atoms (max/min/
        ptp/abs/sort... along the atom axis, or over all entries), a norm of absolute positions, ...
  None  unrelated to positions

A finding is an FD value that *reaches* something: a call argument (other than printing/logging), a return
value, an attribute/subscript store or a branch condition.  Whole coordinate arrays handed to C
(`.ctypes`) or to other libraries are not followed (the C side is checked separately).
"""
import ast

from sa import pyfacts as pf
from sa.core import AnalysisError

SOURCES = {"atom_coords": 2, "atom_coord": 1}
WRAP = {"ascontiguousarray", "asfortranarray", "asarray", "array", "copy", "astype", "require", "float64"}
ATOM_REDUCE_COVARIANT = {"mean", "sum", "average"}  # over the atom axis: centroid-like, still a vector
FD_REDUCE = {"max", "min", "amax", "amin", "ptp", "argmax", "argmin", "sort", "argsort", "median", "nanmax",
             "nanmin", "abs", "absolute", "fabs", "prod", "cumsum", "std", "var", "sign", "floor", "ceil", "round",
             "maximum", "minimum", "clip", "unique"}
SCALAR_FUNCS = {"sqrt", "exp", "log", "log10", "power", "square", "int", "float", "max", "min", "amax", "amin",
                "abs", "sum", "mean", "ceil", "floor", "round", "maximum", "minimum", "argmax", "argmin", "sort",
                "median", "len", "array", "asarray", "any", "all", "nanmax", "nanmin"}
QUIET_CALLS = {"print", "logger.info", "logger.debug", "logger.warn", "logger.note", "warnings.warn", "repr", "str"}


class V:
    __slots__ = ("kind", "ndim", "origin", "why")

    def __init__(self, kind, ndim=None, origin=None, why=None):
        self.kind, self.ndim, self.origin, self.why = kind, ndim, origin, why

    def __repr__(self):
        return "V(%s,%s)" % (self.kind, self.ndim)


NONE = V(None)
RANK = {None: 0, "INV": 1, "SQ": 2, "DIFF": 3, "POS": 4, "FD": 5}


def join(a, b):
    if a is None:
        return b
    if b is None:
        return a
    if RANK[a.kind] >= RANK[b.kind]:
        hi, lo = a, b
    else:
        hi, lo = b, a
    nd = hi.ndim if hi.ndim == lo.ndim or lo.kind is None else (hi.ndim if lo.kind in (None, "INV") else None)
    return V(hi.kind, nd, hi.origin, hi.why)


class FunctionFlow:
    def __init__(self, rel, fn, param_sources=()):
        self.rel, self.fn = rel, fn
        self.env = {}
        self.findings = []  # (origin node, why, sink node, sink description)
        self.sources = []
        self.invariants = []  # nodes where POS/DIFF was reduced to INV
        for a in fn.args.args + fn.args.kwonlyargs:
            if a.arg in param_sources:
                self.env[a.arg] = V("POS", None)

    # ---- helpers -----------------------------------------------------------------------------
    def fd(self, node, why, ndim=None):
        return V("FD", ndim, node, why)

    @staticmethod
    def _axis_arg(call, pos):
        for kw in call.keywords:
            if kw.arg == "axis":
                return kw.value
        if len(call.args) > pos:
            return call.args[pos]
        return None

    @staticmethod
    def _const_axis(node):
        if node is None:
            return None
        try:
            v = pf.literal(node)
        except pf.NotLiteral:
            return "?"
        return v

    def _is_cart_axis(self, ax, ndim):
        """is `ax` the Cartesian (last) axis"""
        if ax == -1:
            return True
        if isinstance(ax, int) and ndim is not None and ax == ndim - 1:
            return True
        return False

    # ---- expressions -------------------------------------------------------------------------
    def ev(self, e):
        if e is None:
            return NONE
        if isinstance(e, ast.Name):
            return self.env.get(e.id, NONE)
        if isinstance(e, ast.Constant):
            return NONE
        if isinstance(e, ast.Attribute):
            base = self.ev(e.value)
            if e.attr == "atom_coords" and not isinstance(pf.parent(e), ast.Call):
                self.sources.append(e)
                return V("POS", 2)
            if isinstance(pf.parent(e), ast.Call) and pf.parent(e).func is e:
                return base  # method; handled by the call
            if base.kind in ("POS", "DIFF", "SQ", "FD", "INV"):
                if e.attr == "T":
                    return V(base.kind, None, base.origin, base.why) if base.kind != "INV" else base
                if e.attr in ("shape", "size", "ndim", "dtype", "flags", "ctypes", "nbytes", "strides"):
                    return NONE
                if e.attr in ("real", "imag"):
                    return base
            return NONE
        if isinstance(e, ast.Subscript):
            return self.subscript(e)
        if isinstance(e, ast.BinOp):
            return self.binop(e)
        if isinstance(e, ast.UnaryOp):
            return self.ev(e.operand)
        if isinstance(e, ast.Compare):
            vals = [self.ev(e.left)] + [self.ev(c) for c in e.comparators]
            for v in vals:
                if v.kind in ("POS", "DIFF", "SQ"):
                    return self.fd(e, "comparison of vector components")
                if v.kind == "FD":
                    return v
            return join(vals[0], vals[1]) if any(v.kind == "INV" for v in vals) else NONE
        if isinstance(e, ast.BoolOp):
            out = NONE
            for v in e.values:
                out = join(out, self.ev(v))
            return out
        if isinstance(e, ast.IfExp):
            t = self.ev(e.test)
            out = join(self.ev(e.body), self.ev(e.orelse))
            return t if t.kind == "FD" else out
        if isinstance(e, (ast.Tuple, ast.List, ast.Set)):
            out = NONE
            for x in e.elts:
                out = join(out, self.ev(x))
            return V(out.kind, None, out.origin, out.why) if out.kind else NONE
        if isinstance(e, ast.Call):
            return self.call(e)
        if isinstance(e, (ast.ListComp, ast.GeneratorExp, ast.SetComp)):
            saved = dict(self.env)
            for g in e.generators:
                self.bind_iter(g.target, g.iter)
            out = self.ev(e.elt)
            self.env = saved
            return V(out.kind, None, out.origin, out.why) if out.kind else NONE
        if isinstance(e, ast.Starred):
            return self.ev(e.value)
        if isinstance(e, ast.JoinedStr):
            return NONE
        out = NONE
        for ch in ast.iter_child_nodes(e):
            if isinstance(ch, ast.expr):
                out = join(out, self.ev(ch))
        return out

    def subscript(self, e):
        base = self.ev(e.value)
        if base.kind in (None,):
            # evaluate the index for sinks
            return NONE
        if base.kind in ("INV", "FD"):
            return base
        idx = e.slice
        elts = list(idx.elts) if isinstance(idx, ast.Tuple) else [idx]
        n_none = sum(1 for x in elts if isinstance(x, ast.Constant) and x.value is None)
        has_ell = any(isinstance(x, ast.Constant) and x.value is Ellipsis for x in elts)
        real = [x for x in elts if not (isinstance(x, ast.Constant) and (x.value is None or x.value is Ellipsis))]
        nd = base.ndim

        def full(x):
            return isinstance(x, ast.Slice) and x.lower is None and x.upper is None and x.step is None

        touches_last = None
        if has_ell:
            last = elts[-1]
            touches_last = not (isinstance(last, ast.Constant) and last.value is Ellipsis) and not full(last) \
                and not (isinstance(last, ast.Constant) and last.value is None)
        elif nd is not None:
            if len(real) > nd:
                raise AnalysisError("%s:%d too many indices for a position array" % (self.rel, e.lineno))
            touches_last = len(real) == nd and not full(real[-1])
        else:
            if len(real) <= 1:
                touches_last = False  # a position array has at least (atoms, xyz)
            elif full(real[-1]):
                touches_last = False
            else:
                raise AnalysisError("%s:%d cannot tell whether %s selects a Cartesian component (rank unknown)" % (
                    self.rel, e.lineno, pf.src(e)))
        if touches_last:
            return self.fd(e, "selects a single Cartesian component of %s" % (
                "positions" if base.kind == "POS" else "a position difference"))
        new_nd = None
        if nd is not None and not has_ell:
            dropped = sum(1 for x in real if not isinstance(x, ast.Slice) and not self._is_array_index(x))
            new_nd = nd - dropped + n_none
        return V(base.kind, new_nd, base.origin, base.why)

    def _is_array_index(self, x):
        # fancy / boolean index keeps the axis; a plain name or integer drops it.  Names are ambiguous: assume
        # scalar index unless it is obviously a list/array expression
        return isinstance(x, (ast.List, ast.Tuple, ast.Compare, ast.Call))

    def binop(self, e):
        a, b = self.ev(e.left), self.ev(e.right)
        ka, kb = a.kind, b.kind
        if ka == "FD":
            return a
        if kb == "FD":
            return b
        op = e.op
        vec = ("POS", "DIFF")
        if ka in vec and kb in vec:
            nd = max(a.ndim, b.ndim) if a.ndim is not None and b.ndim is not None else None
            if isinstance(op, ast.Sub):
                if ka == "POS" and kb == "POS":
                    return V("DIFF", nd)
                if ka == "DIFF" and kb == "DIFF":
                    return V("DIFF", nd)
                return V("POS", nd)
            if isinstance(op, ast.Add):
                return V("DIFF" if (ka == "DIFF" and kb == "DIFF") else "POS", nd)
            if isinstance(op, ast.Mult):
                if ka == "DIFF" and kb == "DIFF":
                    return V("SQ", nd)
                return self.fd(e, "element-wise product involving absolute positions")
            if isinstance(op, ast.MatMult):
                if ka == "DIFF" and kb == "DIFF" and a.ndim == 1 and b.ndim == 1:
                    self.invariants.append(e)
                    return V("INV")
                return self.fd(e, "matrix product of position arrays")
            return self.fd(e, "operator %s between position arrays" % type(op).__name__)
        for x, y in ((a, b), (b, a)):
            if x.kind in vec or x.kind == "SQ":
                # scaling / shifting by a position-free or invariant scalar
                if isinstance(op, ast.Pow) and x is a:
                    try:
                        p = pf.literal(e.right)
                    except pf.NotLiteral:
                        p = None
                    if p == 2 and x.kind == "DIFF":
                        return V("SQ", x.ndim)
                    return self.fd(e, "power of vector components")
                if isinstance(op, (ast.Mult, ast.Div)) and not (isinstance(op, ast.Div) and x is b):
                    return V(x.kind, x.ndim)
                if isinstance(op, (ast.Add, ast.Sub)) and y.kind is None and x.kind == "POS":
                    return V("POS", x.ndim)  # shift by a constant vector: still a position
                return self.fd(e, "arithmetic on vector components")
        if ka == "INV" or kb == "INV":
            return V("INV")
        return NONE

    def call(self, e):
        name = pf.call_name(e) or ""
        short = name.split(".")[-1]
        # sources
        if isinstance(e.func, ast.Attribute) and e.func.attr in SOURCES:
            self.sources.append(e)
            return V("POS", SOURCES[e.func.attr])
        args = [self.ev(a) for a in e.args]
        kws = {k.arg: self.ev(k.value) for k in e.keywords}
        recv = self.ev(e.func.value) if isinstance(e.func, ast.Attribute) else NONE
        is_np = name.startswith(("np.", "numpy.", "scipy.")) or short in ("cdist", "pdist", "norm")
        method_on_vec = recv.kind in ("POS", "DIFF", "SQ", "FD", "INV") and not name.startswith(("np.", "numpy."))
        subject = recv if method_on_vec else (args[0] if args else NONE)
        others = (args if method_on_vec else args[1:]) + list(kws.values())
        # anything frame dependent stays frame dependent through numpy / arithmetic helpers
        for v in [subject] + others:
            if v.kind == "FD" and (is_np or method_on_vec or short in SCALAR_FUNCS):
                return v
        if short in ("ctypes", "data_as"):
            return NONE
        if subject.kind in ("POS", "DIFF", "SQ"):
            axpos = 0 if method_on_vec else 1
            ax = self._const_axis(self._axis_arg(e, axpos))
            nd = subject.ndim
            if short in WRAP or short in ("reshape", "ravel", "flatten", "squeeze", "transpose", "swapaxes", "view",
                                          "tolist", "repeat", "tile", "broadcast_to", "stack", "vstack", "concatenate",
                                          "append"):
                keep = short in WRAP
                return V(subject.kind, nd if keep else None)
            if short == "norm":
                if subject.kind == "DIFF" and (ax is None or self._is_cart_axis(ax, nd)) and ax != "?":
                    self.invariants.append(e)
                    return V("INV")
                if subject.kind == "POS":
                    return self.fd(e, "norm of absolute positions (depends on the origin)")
                if ax == "?" or (nd is None and isinstance(ax, int) and ax >= 0):
                    raise AnalysisError("%s:%d cannot tell which axis %s reduces" % (self.rel, e.lineno, pf.src(e)))
                return self.fd(e, "norm over the atom axis of a position difference (component-wise)")
            if short in ("cdist", "pdist"):
                if all(v.kind == "POS" for v in args if v.kind):
                    self.invariants.append(e)
                    return V("INV")
            if short in ("dot", "vdot", "inner"):
                vs = [v for v in args if v.kind]
                if len(vs) == 2 and all(v.kind == "DIFF" and v.ndim == 1 for v in vs):
                    self.invariants.append(e)
                    return V("INV")
                return self.fd(e, "dot product not between two difference vectors")
            if short == "cross":
                return V("DIFF", nd)
            if short == "einsum":
                return self.einsum(e, args)
            if short in ATOM_REDUCE_COVARIANT:
                if subject.kind == "SQ":
                    if ax is None or (ax != "?" and self._is_cart_axis(ax, nd)):
                        self.invariants.append(e)
                        return V("INV")
                    if ax == "?" or nd is None:
                        raise AnalysisError("%s:%d cannot tell which axis %s reduces" % (self.rel, e.lineno, pf.src(e)))
                    return self.fd(e, "sum of squared components over atoms, per Cartesian axis")
                if ax is None:
                    return self.fd(e, "%s over all components of a position array" % short)
                if ax == "?" or (nd is None and not (isinstance(ax, int) and ax == 0)):
                    raise AnalysisError("%s:%d cannot tell which axis %s reduces" % (self.rel, e.lineno, pf.src(e)))
                if self._is_cart_axis(ax, nd):
                    return self.fd(e, "%s over the Cartesian axis (x+y+z)" % short)
                return V(subject.kind, None if nd is None else nd - 1)
            if short in FD_REDUCE:
                return self.fd(e, "component-wise %s of %s" % (short, "positions" if subject.kind == "POS" else
                                                              "position differences"))
            if short in ("sqrt", "exp", "log", "square", "power"):
                if short == "square" and subject.kind == "DIFF":
                    return V("SQ", nd)
                return self.fd(e, "%s of vector components" % short)
            if short in ("len", "shape", "range", "enumerate", "zip", "isinstance", "print"):
                return NONE
            # handed to another routine as a whole array: not followed
            return NONE
        if any(v.kind in ("POS", "DIFF", "SQ") for v in others):
            if short in ("cdist",) and all(v.kind == "POS" for v in args if v.kind):
                self.invariants.append(e)
                return V("INV")
            if short == "einsum":
                return self.einsum(e, args)
            return NONE  # whole arrays passed on
        if any(v.kind == "INV" for v in [subject] + others) and (is_np or short in SCALAR_FUNCS or method_on_vec):
            return V("INV")
        return NONE

    def einsum(self, e, args):
        if not e.args or not isinstance(e.args[0], ast.Constant) or not isinstance(e.args[0].value, str):
            return self.fd(e, "einsum with a non-literal subscript string on position arrays")
        spec = e.args[0].value.replace(" ", "")
        if "->" not in spec:
            return self.fd(e, "implicit-output einsum on position arrays")
        ins, out = spec.split("->")
        ins = ins.split(",")
        ops = args[1:]
        if len(ins) != len(ops):
            return self.fd(e, "einsum operand count")
        cart = set()
        n = 0
        for sub, v in zip(ins, ops):
            if v.kind in ("POS", "DIFF", "SQ"):
                if v.kind != "DIFF" or not sub:
                    return self.fd(e, "einsum over absolute positions")
                cart.add(sub[-1])
                n += 1
        if n == 2 and len(cart) == 1 and next(iter(cart)) not in out:
            self.invariants.append(e)
            return V("INV")
        return self.fd(e, "einsum that does not contract the Cartesian axis of two difference vectors")

    # ---- statements --------------------------------------------------------------------------
    def bind(self, target, v):
        if isinstance(target, ast.Name):
            self.env[target.id] = v
        elif isinstance(target, (ast.Tuple, ast.List)):
            if v.kind in ("POS", "DIFF") and (v.ndim == 1 or (v.ndim is None and len(target.elts) == 3)):
                if v.ndim == 1:
                    for t in target.elts:
                        self.bind(t, self.fd(target, "unpacks the Cartesian components of a position"))
                    return
            for t in target.elts:
                self.bind(t, V(v.kind, None, v.origin, v.why) if v.kind else NONE)
        elif isinstance(target, (ast.Attribute, ast.Subscript)):
            self.sink(v, target, "stored into %s" % pf.src(target))
        elif isinstance(target, ast.Starred):
            self.bind(target.value, v)

    def bind_iter(self, target, it):
        v = self.ev(it)
        if isinstance(it, ast.Call) and pf.call_name(it) in ("enumerate", "zip") and isinstance(target, ast.Tuple):
            vs = [self.ev(a) for a in it.args]
            if pf.call_name(it) == "enumerate":
                vs = [NONE] + vs
            for t, x in zip(target.elts, vs):
                self.bind(t, self._row(x))
            return
        self.bind(target, self._row(v))

    @staticmethod
    def _row(v):
        if v.kind in ("POS", "DIFF", "SQ"):
            return V(v.kind, None if v.ndim is None else v.ndim - 1, v.origin, v.why)
        return v

    def sink(self, v, node, what):
        if v is not None and v.kind == "FD" and v.origin is not None:
            self.findings.append((v.origin, v.why, node, what))

    def scan_sinks(self, e):
        """call arguments inside an expression statement / right-hand side"""
        for n in ast.walk(e):
            if isinstance(n, ast.Call):
                name = pf.call_name(n) or ""
                if name in QUIET_CALLS or name.split(".")[0] in ("logger", "logging", "warnings"):
                    continue
                short = name.split(".")[-1]
                is_np = name.startswith(("np.", "numpy.", "scipy.")) or short in SCALAR_FUNCS
                if is_np:
                    continue  # propagates, handled by ev()
                if isinstance(n.func, ast.Attribute) and self.ev(n.func.value).kind in ("FD", "POS", "DIFF", "SQ", "INV"):
                    continue  # method of the array itself
                for a in list(n.args) + [k.value for k in n.keywords]:
                    self.sink(self.ev(a), n, "passed to %s(...)" % (name or pf.src(n.func)))

    def stmt(self, st):
        if isinstance(st, (ast.FunctionDef, ast.AsyncFunctionDef, ast.ClassDef)):
            return
        if isinstance(st, ast.Assign):
            self.scan_sinks(st.value)
            v = self.ev(st.value)
            for t in st.targets:
                self.bind(t, v)
        elif isinstance(st, ast.AnnAssign) and st.value is not None:
            self.scan_sinks(st.value)
            self.bind(st.target, self.ev(st.value))
        elif isinstance(st, ast.AugAssign):
            self.scan_sinks(st.value)
            cur = self.ev(st.target) if isinstance(st.target, ast.Name) else NONE
            fake = ast.BinOp(left=st.target, op=st.op, right=st.value)
            ast.copy_location(fake, st)
            v = self.binop(fake)
            if isinstance(st.target, ast.Name):
                self.env[st.target.id] = join(cur, v) if v.kind is None else v
            else:
                self.sink(v, st.target, "accumulated into %s" % pf.src(st.target))
        elif isinstance(st, ast.Return):
            if st.value is not None:
                self.scan_sinks(st.value)
                self.sink(self.ev(st.value), st, "returned")
        elif isinstance(st, ast.Expr):
            self.scan_sinks(st.value)
            self.ev(st.value)
        elif isinstance(st, (ast.If, ast.While)):
            self.scan_sinks(st.test)
            self.sink(self.ev(st.test), st, "decides a branch")
            before = dict(self.env)
            for s in st.body:
                self.stmt(s)
            a = self.env
            self.env = dict(before)
            for s in st.orelse:
                self.stmt(s)
            b = self.env
            self.env = {k: join(a.get(k, NONE), b.get(k, NONE)) for k in set(a) | set(b)}
        elif isinstance(st, ast.For):
            self.scan_sinks(st.iter)
            for _ in range(2):
                self.bind_iter(st.target, st.iter)
                before = dict(self.env)
                for s in st.body:
                    self.stmt(s)
                self.env = {k: join(before.get(k, NONE), self.env.get(k, NONE)) for k in set(before) | set(self.env)}
            for s in st.orelse:
                self.stmt(s)
        elif isinstance(st, ast.With):
            for it in st.items:
                self.scan_sinks(it.context_expr)
            for s in st.body:
                self.stmt(s)
        elif isinstance(st, ast.Try):
            for blk in (st.body, st.orelse, st.finalbody):
                for s in blk:
                    self.stmt(s)
            for h in st.handlers:
                for s in h.body:
                    self.stmt(s)
        elif isinstance(st, ast.Assert):
            self.ev(st.test)
        else:
            for ch in ast.iter_child_nodes(st):
                if isinstance(ch, ast.expr):
                    self.scan_sinks(ch)
                    self.ev(ch)

    def run(self):
        for st in self.fn.body:
            self.stmt(st)
        # de-duplicate
        seen, out = set(), []
        for f in self.findings:
            k = (id(f[0]), id(f[2]))
            if k not in seen:
                seen.add(k)
                out.append(f)
        self.findings = out
        self.sources = list({id(s): s for s in self.sources}.values())
        self.invariants = list({id(s): s for s in self.invariants}.values())
        return self
