import sys, os, traceback
sys.path.insert(0, os.path.dirname(__file__))
import cider_env; cider_env.install()
import numpy as np
from pyscf import gto, dft
from ciderpress.pyscf.gen_cider_grid import CiderGrids
from ciderpress.pyscf.nldf_convolutions import PyscfNLDFGenerator
from ciderpress.dft.settings import *
mol = gto.M(atom="He 0 0 0; H 0 0 1.2", basis="sto-3g", verbose=0, charge=1)
g = CiderGrids(mol, lmax=4); g.level=0; g.build()
dm = dft.RKS(mol).get_init_guess()
ao = dft.numint.eval_ao(mol, g.coords, deriv=1)
rho = dft.numint.eval_rho(mol, ao, dm, xctype="MGGA", with_lapl=False)
dm2 = dm + 0.05*np.array([[0.3,0.2],[0.2,-0.1]])
drho = dft.numint.eval_rho(mol, ao, dm2-dm, xctype="MGGA", with_lapl=False)
th=[1.0,0.0,0.03]
s = NLDFSettingsVI("MGGA", th, "one", [], ["se_grad","se_rvec"], [(0,0),(-1,0),(1,0)])
gen = PyscfNLDFGenerator.from_mol_and_settings(mol, g.grids_indexer, 1, s, plan_type="gaussian", aux_lambd=2.0, alpha_max=1000)
gen.interpolator.set_coords(g.coords)
rng = np.random.default_rng(0)
c = rng.normal(size=(s.nfeat,1))*np.ones((1,g.weights.size))
def F(r): return np.sum(g.weights * c * gen.get_features(r))
h=1e-4
fd = (F(rho+h*drho)-F(rho-h*drho))/(2*h)
gen.get_features(rho)
out = gen.get_potential(c*g.weights)
vr = out[0] if isinstance(out, tuple) else out
print(type(out), np.shape(vr))
print("fd", fd, "an(w/ weights in vfeat)", np.sum(vr*drho))
out = gen.get_potential(c*np.ones_like(g.weights))
vr = out[0] if isinstance(out, tuple) else out
print("an2", np.sum(vr*drho*g.weights))
