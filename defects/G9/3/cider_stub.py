"""
Helper for the demos: compile ciderpress/lib/mod_cider/model_utils.c (self
contained) into a temporary libmcider.so and hand it to the real Python
wrappers through a patched numpy.ctypeslib.load_library. Every other C
library is replaced by a MagicMock (not used by the demos).
"""
import ctypes
import importlib.util
import os
import subprocess
import tempfile
from unittest.mock import MagicMock

import numpy


def install():
    spec = importlib.util.find_spec("ciderpress")
    pkgdir = os.path.dirname(spec.origin)
    src = os.path.join(pkgdir, "lib", "mod_cider", "model_utils.c")
    tmpdir = tempfile.mkdtemp(prefix="cider_demo_")
    so = os.path.join(tmpdir, "libmcider_demo.so")
    subprocess.check_call(
        ["gcc", "-O2", "-fopenmp", "-shared", "-fPIC", "-std=gnu99", src, "-o", so, "-lm"]
    )
    lib = ctypes.CDLL(so)

    def fake_load_library(libname, loader_path):
        if "mcider" in libname:
            return lib
        return MagicMock()

    numpy.ctypeslib.load_library = fake_load_library
    return lib
