"""Patch numpy.ctypeslib.load_library so that ciderpress finds scratch-built C libs."""
import os, ctypes
from unittest import mock
import numpy
LIBDIR = os.path.join(os.path.dirname(os.path.abspath(__file__)), "..", "lib")
_orig = numpy.ctypeslib.load_library
def _load(libname, loader_path):
    p = os.path.join(LIBDIR, libname + ".so")
    if os.path.exists(p):
        return ctypes.CDLL(p)
    try:
        return _orig(libname, loader_path)
    except OSError:
        return mock.MagicMock()
numpy.ctypeslib.load_library = _load
