"""C18 demo: ConvolutionCollection.multiply_atc_integrals (and the version-k twin)
check shape and contiguity of `input`/`output` but not their dtype.  A float32 array of
the right shape is accepted; the C routine treats it as float64 and so reads / writes
twice as many bytes as the array owns."""
import os
import sys

sys.path.insert(0, os.path.dirname(os.path.abspath(__file__)))
import cider_env  # noqa: E402

cider_env.install()

import numpy as np  # noqa: E402

from ciderpress.dft.lcao_convolutions import (  # noqa: E402
    ATCBasis,
    ConvolutionCollection,
    ConvolutionCollectionK,
    get_convolution_expnts_from_expnts,
    get_gamma_lists_from_etb_list,
)

etb = [[(0, 3, 0.5, 2.0), (1, 2, 0.5, 2.0)]]
dat = get_gamma_lists_from_etb_list(etb)
atco_inp = ATCBasis(*dat)
alphas = 0.25 * 2.0 ** np.arange(6)
norms = (np.pi / (2 * alphas)) ** -0.75
dat2 = get_convolution_expnts_from_expnts(alphas, dat[0], dat[1], dat[2], dat[4], gbuf=4.0)
atco_out = ATCBasis(*dat2)
rng = np.random.default_rng(0)
fails = 0


def check(tag, ccl, n_in, n_out, ncol_in, ncol_out):
    global fails
    x = rng.normal(size=(n_in, ncol_in))
    ref = ccl.multiply_atc_integrals(x, output=np.zeros((n_out, ncol_out)), fwd=True)
    # ---- float32 output of the right shape, embedded in a guarded block
    nel = n_out * ncol_out
    block = np.full(2 * nel + 64, 7.0, dtype=np.float32)
    out32 = block[:nel].reshape(n_out, ncol_out)
    out32[:] = 0
    assert out32.flags.c_contiguous
    try:
        ccl.multiply_atc_integrals(x, output=out32, fwd=True)
    except (AssertionError, ValueError, TypeError) as e:
        print("ok   %s: float32 output rejected (%s)" % (tag, type(e).__name__))
    else:
        dirty = int(np.sum(block[nel:] != 7.0))
        print("FAIL %s: float32 output accepted; %d float32 slots BEHIND the array were "
              "overwritten, result in array matches reference: %s"
              % (tag, dirty, np.allclose(out32, ref)))
        fails += 1
    # ---- float32 input of the right shape
    nel = n_in * ncol_in
    block = np.zeros(2 * nel + 64, dtype=np.float32)
    in32 = block[:nel].reshape(n_in, ncol_in)
    in32[:] = x
    try:
        o1 = ccl.multiply_atc_integrals(in32, output=np.zeros((n_out, ncol_out)), fwd=True)
        block[nel:] = 3.0  # only memory behind the input changes
        o2 = ccl.multiply_atc_integrals(in32, output=np.zeros((n_out, ncol_out)), fwd=True)
    except (AssertionError, ValueError, TypeError) as e:
        print("ok   %s: float32 input rejected (%s)" % (tag, type(e).__name__))
    else:
        same = np.array_equal(o1, o2, equal_nan=True)
        print("FAIL %s: float32 input accepted; max|out - reference| = %.3e; result "
              "depends on memory behind the input: %s"
              % (tag, np.nanmax(np.abs(o1 - ref)), not same))
        fails += 1


ccl = ConvolutionCollection(atco_inp, atco_out, alphas, norms, has_vj=True, ifeat_ids=[])
ccl.compute_integrals_()
ccl.solve_projection_coefficients()
check("ConvolutionCollection ", ccl, atco_inp.nao, atco_out.nao, ccl.nalpha, ccl.nbeta)
cclk = ConvolutionCollectionK(atco_inp, atco_out, alphas, norms)
cclk.compute_integrals_()
cclk.solve_projection_coefficients()
check("ConvolutionCollectionK", cclk, atco_inp.nao, atco_out.nao, cclk.nalpha, cclk.nalpha)
print("failures:", fails)
sys.exit(1 if fails else 0)
