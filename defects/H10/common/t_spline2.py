import sys, os
sys.path.insert(0, os.path.dirname(__file__))
import cider_env; cider_env.install()
import numpy as np
from interpolation.splines import filter_cubic, UCGrid
from ciderpress.dft.xc_evaluator import SplineSetEvaluator
g2 = UCGrid((0.0,1.0,10),(0.0,2.0,7))
print(g2)
x=np.linspace(0,1,10); y=np.linspace(0,2,7)
c2 = filter_cubic(g2, np.sin(3*x)[:,None]*np.cos(y)[None,:])
g3 = UCGrid((0.0,1.0,5),(0.0,2.0,6),(0.,1.,4))
c3 = filter_cubic(g3, np.ones((5,6,4)))
ev = SplineSetEvaluator([1.0, 2.0], [[0,1],[2,0,1]], [g2,g3], [c2,c3], const=0.5)
X = np.random.default_rng(0).uniform(size=(5,3))
print(ev(X)[0], np.sin(3*X[:,0])*np.cos(X[:,1]) + 2 + 0.5)
d = ev.to_dict(); ev2 = SplineSetEvaluator.from_dict(d); print(np.allclose(ev2(X)[0], ev(X)[0]))
