#include "fftw3.h"
#include <math.h>
#include <stdlib.h>
#include <string.h>

struct fftw_shim_plan_s {
    int kind; /* 0 c2c, 1 r2c, 2 c2r */
    int rank;
    int *n;
    int howmany;
    void *in, *out;
    int istride, idist, ostride, odist;
    int sign;
};

int fftw_init_threads(void) { return 1; }
void fftw_plan_with_nthreads(int n) { (void)n; }
void *fftw_malloc(size_t n) { return malloc(n); }
void fftw_free(void *p) { free(p); }

static fftw_plan mk(int kind, int rank, const int *n, int howmany, void *in,
                    const int *inembed, int istride, int idist, void *out,
                    const int *onembed, int ostride, int odist, int sign) {
    if (inembed != NULL || onembed != NULL)
        abort(); /* not needed by cider_fft.c */
    fftw_plan p = malloc(sizeof(*p));
    p->kind = kind;
    p->rank = rank;
    p->n = malloc(rank * sizeof(int));
    memcpy(p->n, n, rank * sizeof(int));
    p->howmany = howmany;
    p->in = in;
    p->out = out;
    p->istride = istride;
    p->idist = idist;
    p->ostride = ostride;
    p->odist = odist;
    p->sign = sign;
    return p;
}

fftw_plan fftw_plan_many_dft(int rank, const int *n, int howmany,
                             fftw_complex *in, const int *inembed, int istride,
                             int idist, fftw_complex *out, const int *onembed,
                             int ostride, int odist, int sign, unsigned flags) {
    return mk(0, rank, n, howmany, in, inembed, istride, idist, out, onembed,
              ostride, odist, sign);
}
fftw_plan fftw_plan_many_dft_r2c(int rank, const int *n, int howmany,
                                 double *in, const int *inembed, int istride,
                                 int idist, fftw_complex *out,
                                 const int *onembed, int ostride, int odist,
                                 unsigned flags) {
    return mk(1, rank, n, howmany, in, inembed, istride, idist, out, onembed,
              ostride, odist, FFTW_FORWARD);
}
fftw_plan fftw_plan_many_dft_c2r(int rank, const int *n, int howmany,
                                 fftw_complex *in, const int *inembed,
                                 int istride, int idist, double *out,
                                 const int *onembed, int ostride, int odist,
                                 unsigned flags) {
    return mk(2, rank, n, howmany, in, inembed, istride, idist, out, onembed,
              ostride, odist, FFTW_BACKWARD);
}
void fftw_destroy_plan(fftw_plan p) {
    if (p == NULL)
        return;
    free(p->n);
    free(p);
}

/* separable naive DFT on a dense row-major complex array of dims n */
static void dense_dft(double complex *x, int rank, const int *n, int sign) {
    size_t N = 1;
    for (int d = 0; d < rank; d++)
        N *= n[d];
    double complex *tmp = malloc(N * sizeof(double complex));
    size_t inner = 1;
    for (int d = rank - 1; d >= 0; d--) {
        int nd = n[d];
        size_t outer = N / (inner * nd);
        for (size_t o = 0; o < outer; o++)
            for (size_t i = 0; i < inner; i++) {
                double complex *base = x + o * nd * inner + i;
                for (int k = 0; k < nd; k++) {
                    double complex s = 0;
                    for (int j = 0; j < nd; j++) {
                        double ang =
                            sign * 2.0 * M_PI * (double)(((long)j * k) % nd) / nd;
                        s += base[j * inner] * (cos(ang) + I * sin(ang));
                    }
                    tmp[o * nd * inner + i + k * inner] = s;
                }
            }
        memcpy(x, tmp, N * sizeof(double complex));
        inner *= nd;
    }
    free(tmp);
}

void fftw_execute(const fftw_plan p) {
    int rank = p->rank;
    const int *n = p->n;
    size_t N = 1;
    for (int d = 0; d < rank; d++)
        N *= n[d];
    int nl = n[rank - 1];
    int nlc = nl / 2 + 1;
    size_t Nrow = N / nl;
    int inplace = (p->in == p->out);
    /* physical last dim of real array with nembed == NULL */
    int nlr_phys = inplace ? 2 * nlc : nl;
    /* gather everything first (in-place safety) */
    double complex *all = malloc((size_t)p->howmany * N * sizeof(double complex));
    for (int t = 0; t < p->howmany; t++) {
        double complex *x = all + (size_t)t * N;
        if (p->kind == 0) {
            fftw_complex *in = (fftw_complex *)p->in + (size_t)t * p->idist;
            for (size_t j = 0; j < N; j++)
                x[j] = in[j * p->istride];
        } else if (p->kind == 1) {
            double *in = (double *)p->in + (size_t)t * p->idist;
            for (size_t r = 0; r < Nrow; r++)
                for (int j = 0; j < nl; j++)
                    x[r * nl + j] = in[(r * nlr_phys + j) * p->istride];
        } else {
            fftw_complex *in = (fftw_complex *)p->in + (size_t)t * p->idist;
            /* half-complex input; complete by Hermitian symmetry */
            for (size_t r = 0; r < Nrow; r++) {
                /* index of the row with all leading indices negated */
                size_t rr = 0, rem = r, mul = 1;
                size_t strides[16];
                size_t s = 1;
                for (int d = rank - 2; d >= 0; d--) {
                    strides[d] = s;
                    s *= n[d];
                }
                (void)mul;
                for (int d = 0; d < rank - 1; d++) {
                    size_t id = rem / strides[d];
                    rem -= id * strides[d];
                    size_t nid = (n[d] - id) % n[d];
                    rr += nid * strides[d];
                }
                for (int j = 0; j < nl; j++) {
                    if (j < nlc)
                        x[r * nl + j] = in[(r * nlc + j) * p->istride];
                    else
                        x[r * nl + j] =
                            conj(in[(rr * nlc + (nl - j)) * p->istride]);
                }
            }
        }
        dense_dft(x, rank, n, p->sign);
    }
    for (int t = 0; t < p->howmany; t++) {
        double complex *x = all + (size_t)t * N;
        if (p->kind == 0) {
            fftw_complex *out = (fftw_complex *)p->out + (size_t)t * p->odist;
            for (size_t j = 0; j < N; j++)
                out[j * p->ostride] = x[j];
        } else if (p->kind == 1) {
            fftw_complex *out = (fftw_complex *)p->out + (size_t)t * p->odist;
            for (size_t r = 0; r < Nrow; r++)
                for (int j = 0; j < nlc; j++)
                    out[(r * nlc + j) * p->ostride] = x[r * nl + j];
        } else {
            double *out = (double *)p->out + (size_t)t * p->odist;
            for (size_t r = 0; r < Nrow; r++)
                for (int j = 0; j < nl; j++)
                    out[(r * nlr_phys + j) * p->ostride] = creal(x[r * nl + j]);
        }
    }
    free(all);
}
