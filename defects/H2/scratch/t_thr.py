from ref import *
import ref, sys
from ciderpress.pyscf.gen_cider_grid import CiderGrids
from ciderpress.pyscf.nldf_convolutions import PyscfNLDFGenerator
from ciderpress.pyscf import sdmx as sdmx_fast, sdmx_slow
mol = gto.M(atom="O 0 0 0; H 0 0 0.97; H 0.9 0 -0.2", basis="def2-svp", spin=0, verbose=0)
np.random.seed(3)
nao = mol.nao_nr()
A = np.random.normal(size=(nao, 5))
dm = 2*A.dot(A.T)*0.05
dm = dft.RKS(mol).get_init_guess()
grids = CiderGrids(mol, lmax=10); grids.level=1; grids.build(with_non0tab=False)
ni = NumInt()
rho = get_full_rho(ni, mol, dm, grids, 'MGGA')[0]
th=[1.0,0.0,0.03125]; fp=[[2.0,0.0,0.04],[1.0,0.01,0.03],[0.5,0.0,0.02],[2.0,0.0,0.04,2.0]]
l0 = ["se","se_r2","se_apr2","se_ap","se_ap2r2","se_lapl"]
l1 = ["se_grad","se_rvec"]
dots=[(-1,0),(-1,1),(0,1),(0,0),(1,1)]
vij = NLDFSettingsVIJ('MGGA', th, 'one', l0, l1, dots, ["se","se_ar2","se_a2r4","se_erf_rinv"], fp)
vk = NLDFSettingsVK('MGGA', th, 'one', [[1.0,0.0,0.02],[2.0,0.01,0.04]], "exponential")
out = {}
for name, s in [('ij', vij), ('k', vk)]:
    for itype in ['onsite_direct', 'onsite_spline', 'train_gen']:
        for plan in ['gaussian', 'spline']:
            gen = PyscfNLDFGenerator.from_mol_and_settings(mol, grids.grids_indexer, 1, s, plan_type=plan, interpolator_type=itype)
            if itype == 'train_gen':
                gen.interpolator.set_coords(grids.coords[:3000])
                # train_gen path
                f = gen.get_features_and_occ_derivs(rho, np.empty(0), rho[:, :3000], np.empty(0))[0]
            else:
                gen.interpolator.set_coords(grids.coords)
                f = gen.get_features(rho)
                v = gen.get_potential(np.cos(f))
                out['v_%s_%s_%s' % (name, itype, plan)] = v
            out['%s_%s_%s' % (name, itype, plan)] = f
s = SDMXFullSettings({1.0: ([0,1,2], [3,3,3,3]), 2.0: ([0,1], [2,1,1,1])})
for modname, mod in [('fast', sdmx_fast), ('slow', sdmx_slow)]:
    gen = mod.EXXSphGenerator.from_settings_and_mol(s, 1, mol)
    f = gen.get_features(dm, mol, grids.coords[:3000])
    out['sdmx_'+modname] = f
    vm = np.zeros((nao,nao))
    gen.get_vxc_(vm, np.cos(f))
    out['sdmxv_'+modname] = vm
np.savez(sys.argv[1], **out)
