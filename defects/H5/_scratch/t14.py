import cider_build
import numpy as np, sys
from pyscf import gto, dft
from ciderpress.pyscf.gen_cider_grid import CiderGrids
from ciderpress.dft.settings import *
from toy import make_ni

vj_specs = ["se", "se_ar2", "se_a2r4", "se_erf_rinv"]
sl = SemilocalSettings("nst")
mol = gto.M(atom="O 0 0 0; H 0.15 0.85 0.45; F -0.75 -0.35 0.95", basis="def2-svp", verbose=0, spin=0)
ks = dft.RKS(mol); ks.xc = "PBE"; ks.kernel(); dm = ks.make_rdm1()
mo = ks.mo_coeff
P = np.outer(mo[:, 5], mo[:, 13]); P = P + P.T

def fdtest(ni, mol, grids, dm, label):
    fn = ni.nr_rks
    n, e, v = fn(mol, grids, "", dm)
    for d in [1e-3]:
        ep = fn(mol, grids, "", dm + d * P)[1]
        em = fn(mol, grids, "", dm - d * P)[1]
        fd = (ep - em) / (2 * d)
        an = np.sum(v * P)
        print(label, "d=%g" % d, "E=%.10f" % e, "fd=%.10e an=%.10e rel=%.2e" % (fd, an, abs(fd - an) / abs(fd)), flush=True)

grids = CiderGrids(mol, lmax=6); grids.level = 0; grids.build(with_non0tab=True)
for lvl in ["GGA", "MGGA"]:
    n = 2 if lvl == "GGA" else 3
    theta = [1.0, 0.3, 0.03125][:n]
    fp = [[2.0, 0.2, 0.04][:n] for i in range(4)]
    fp[-1].append(2.0)
    for rm in ["one", "expnt"]:
        vij = NLDFSettingsVIJ(lvl, theta, rm, ["se_ap", "se_r2", "se_apr2", "se_ap2r2", "se_lapl", "se"], ["se_grad", "se_rvec"], [(0, 0), (1, -1), (0, 1)], vj_specs, fp)
        vk = NLDFSettingsVK(lvl, theta, rm, [[1.0, 0.1, 0.02][:n], [2.0, 0.0, 0.04][:n]], "exponential")
        for nm, st in [("vij", vij), ("vk", vk)]:
            for pt in ["gaussian", "spline"]:
                ni = make_ni(sl=sl, nldf=st, plan_type=pt)
                fdtest(ni, mol, grids, dm, " ".join([lvl, rm, nm, pt]))
