import cider_build
import numpy as np, sys, ctypes
from pyscf import gto, dft, lib
from ciderpress.pyscf import sdmx, sdmx_slow
from ciderpress.dft.settings import *

mol = gto.M(atom="O 0 0 0; H 0.15 0.85 0.45; F -0.75 -0.35 0.95", basis="def2-svp", verbose=0)
ks = dft.RKS(mol); ks.xc = "PBE"; ks.kernel(); dm = ks.make_rdm1(); mo = ks.mo_coeff
rng = np.random.default_rng(1)
ngrids = 300
coords = rng.normal(size=(ngrids, 3)) * 1.2
nao = mol.nao_nr()
for st in [SADMSettings("smooth"), SADMSettings("exact"), SDMXSettings([0,1,2]), SDMXGSettings([0,1,2], 2), SDMX1Settings([0,1,2], 2), SDMXG1Settings([0,1,2], 2, 3), SDMXFullSettings({1.0: ([0,1,2],[3,2,2,1]), 2.0: ([1,2],[2,1,1,1])})]:
    try:
        gf = sdmx.EXXSphGenerator.from_settings_and_mol(st, 1, mol)
        gs = sdmx_slow.EXXSphGenerator.from_settings_and_mol(st, 1, mol)
        ff = gf.get_features(dm, mol, coords)
        fs = gs.get_features(dm, mol, coords)
        coeffs = mo[:, [3, 7]].T.copy()
        fo, occd = gs.get_feat_and_occd(dm, coeffs, mol, coords)
        c = rng.normal(size=ff.shape)
        vf = np.zeros((nao, nao)); gf.get_vxc_(vf, c); vf = vf + vf.T
        vs = np.zeros((nao, nao)); gs.get_vxc_(vs, c); vs = vs + vs.T
        msgs = ["fast-slow feat %.1e" % (np.abs(ff - fs).max() / np.abs(ff).max()), "occd-feat %.1e" % (np.abs(fo - fs).max() / np.abs(fs).max()),
                "vxc fast-slow %.1e" % (np.abs(vf - vs).max() / np.abs(vf).max())]
        for i in range(2):
            Pm = np.outer(coeffs[i], coeffs[i])
            jv = np.sum(c * occd[i]); vj = np.sum(vf * Pm)
            h = 1e-4
            fd = np.sum(c * (gf.get_features(dm + h * Pm, mol, coords) - gf.get_features(dm - h * Pm, mol, coords))) / (2 * h)
            msgs.append("orb%d jvp %.6e vjp %.6e fd %.6e" % (i, jv, vj, fd))
        print(type(st).__name__, getattr(st, "mode", ""), *msgs, flush=True)
    except Exception as e:
        import traceback; print(type(st).__name__, getattr(st, "mode", ""), "EXC", type(e).__name__, e)
