#!/usr/bin/env python3
"""C02 -- fast nonlocal features reproduce the documented definitions (decided part).

Static rules (DESIGN.md §C02, engine sa/tabchain.py):

 chain-j        every allowed version-j/k spec string is followed  VJ_ID_MAP -> ctypes argument ->
                `switch (featid)` case value -> (spelling: CIDER_FEAT_* macro -> *_LOOP(X) -> FILL_CIDER_X)
                -> the value stored into the coefficient array, in canonical monomial form, which must be
                the documented moment of the Gaussian relative to the plain `se` kernel
                (se_ar2: 3/2 E/(E+A), se_a2r4: 15/4 E^2/(E+A)^2, se_erf_rinv: (1+x E/(E+A))^-1/2).
 chain-j-twin   the _gq and _qg layouts store the same value and the same derivative for every id
 chain-i        every allowed version-i spec string is followed  VI_ID_MAP -> IFEAT_ID_TO_CONTRIB ->
                `if (featid == k)` ladder of generate_atc_integrals_vi -> integral function, whose
                return value (canonical polynomial, callees inlined) must satisfy the relations between
                kernels that docs/features/nldf.rst states (se_ap = a*se, se_apr2 = a*se_r2,
                se_ap2r2 = a^2*se_r2, se_lapl = 4*se_ap2r2 - 2*se_ap, se_grad = a*se_rvec componentwise)
                and `se` itself must be the bare radial Gaussian integral.
 feat-orders    the l-1 / l / l+1 projection selected for a contribution id by
                generate_convolution_collection equals the l-shift of the radial integral that the
                ladder assigns to that id; IFEAT pairs are (l-1 part, l+1 part) in that order;
                POSITION: the element of feat_orders written for i-contribution k (index evaluated
                abstractly: counters, `if (has_vj)` guards, struct fields) is the output position at which
                generate_atc_integrals_all places the integrals of contribution k; ids without an arm
                need an else or a calloc'ed array; the version-j block is 0
 inverse-pair   NLDFSplinePlan: the factor that lays the spline knots on the exponent ladder in _run_setup times the
                factor get_a2q_fast applies to the ladder index is 1 (ratios compared as rational functions of
                nalpha, spline_size); index and derivative are scaled alike; the clip bound is the last knot;
                cider_ind_etb / cider_ind_zexp applied to get_q2a(q) give back q (python formula substituted into
                the C function, one logarithm law: log(b**e) = e log b)
 kernel-derivative  the se_r2 integral function F1 and the se integral F0 satisfy F1/F0 == -d/da log(P F0), P the
                a-dependent prefactor generate_atc_integrals_vi multiplies every integral with (k_se_r2 = -d/da k_se);
                term-by-term differentiation of the normal form, both sides compared as fully expanded rational
                functions of (a, expi, expj, l): pins the closed form of gauss_dida exactly
 result-used    a same-file module-level function that returns a value on every return and does not visibly write
                its arguments is not called as a bare statement (solver result dropped on an "in place" branch)
 symmetric-operand  every matrix expression reaching cholesky / cho_factor / eigh in plans.py (through locals, list
                appends and comprehensions; helper functions inlined) is invariant under exchanging the row and the
                column broadcast of each vector it is built from
 dispatch-siblings  the python functions of pyscf/sdmx.py and pyscf/sdmx_slow.py that select among the same C kernels
                read the same settings attributes (an option one implementation dispatches on or refuses is not
                silently ignored by another)
 unit-vector    (shared with C06) `v[k] /= n`, n = sqrt(sum v[i]^2): guarded against n == 0 in functions reachable
                from python in which n occurs in no other denominator
 layout-aware   plans.py: arithmetic pairing interpolation coefficients (results of get_interpolation_coefficients, ...)
                with an operand broadcast along one explicit axis sits under a coef_order test, uses an operand chosen
                under one, or follows `if coef_order == 'gq': p = p.T` (outer products on both axes are neutral)
 rank-drop      sdmx.py / sdmx_slow.py: the result of a producer that drops its leading axis (`if comp == 1: ao = ao[0]`),
                called with an argument sliced to one element, is reshaped before it is subscripted
 expnt-kind     get_function_to_convolve (inherited): the method of self that supplies the factor for rho_mult='expnt'
                is resolved through the MRO of every plan class; its first result is the exponent (eval_feat_exp), never
                an exponent that went through get_a2q_fast (exponent -> index)
 mole-rebuild   (shared with C06) a pyscf Mole constructed from <mol>.atom also receives unit=<mol>.unit
 delegate-forward  a function of settings.py / plans.py that delegates to a same-module function forwards
                every parameter the two share, unless it uses it itself (get_cider_exponent_gga -> nspin)
 alpha-degree   units-of-measure: degree (in exponent units) of each integral relative to the `se`
                integral, corrected by the l-shift, equals SPEC_USPS[spec]/2; the sums inside the
                kernels are homogeneous
 totality       allowed specs have ids, USPs, contributions of the right arity, C cases/arms that do not
                fall through; Python ueg_vector ladders have a branch for every allowed spec

A consistent renumbering of all tables passes (only end points are compared); when an end point is
wrong the report is placed at the first table whose entry differs from the snapshot taken on the
pinned tree (SNAP, used for localisation only).
"""
import ast
import os
import sys
from fractions import Fraction as Fr

sys.path.insert(0, os.path.dirname(os.path.dirname(os.path.abspath(__file__))))
from sa import core, cfacts, pyfacts as pf, tabchain as tc  # noqa: E402
from sa.tabchain import Poly  # noqa: E402
from sa.selftest import Mutant  # noqa: E402

PROP = "C02"
PLANS = "ciderpress/dft/plans.py"
LCONV = "ciderpress/dft/lcao_convolutions.py"
SETTINGS = "ciderpress/dft/settings.py"
C_COEFS = "mod_cider/cider_coefs.c"
C_CONV = "mod_cider/convolutions.c"
F_COEFS = cfacts.LIB + "/" + C_COEFS
F_CONV = cfacts.LIB + "/" + C_CONV
J_FUNCS = ("cider_coefs_gto_gq", "cider_coefs_gto_qg")
LADDER_FUNC = "generate_atc_integrals_vi"
ORDERS_FUNC = "generate_convolution_collection"

# Snapshot of the individual tables on the pinned tree.  Used ONLY to decide at which table a broken
# chain is reported; a tree whose tables all differ from this snapshot passes if the end points agree.
SNAP = {
    "VJ_ID_MAP": {"se": 0, "se_ar2": 1, "se_a2r4": 2, "se_erf_rinv": 3},
    "VI_ID_MAP": {"se": 0, "se_r2": 1, "se_apr2": 2, "se_ap": 3, "se_ap2r2": 4, "se_lapl": 5,
                  "se_rvec": 6, "se_grad": 7},
    "IFEAT_ID_TO_CONTRIB": {0: 0, 1: 1, 2: 2, 3: 7, 4: 8, 5: 9, 6: (4, 5), 7: (3, 6)},
    "featid-ladder": {0: "gauss_i0", 1: "gauss_dida", 2: "gauss_adida", 3: "gauss_iminus",
                      4: "gauss_ainv_iminus", 5: "gauss_iplus", 6: "gauss_alpha_iplus", 7: "gauss_ai0",
                      8: "gauss_a2dida", 9: "gauss_lapli0"},
    "case-label": {0: "CIDER_FEAT_R0_GAUSSIAN", 1: "CIDER_FEAT_R2_GAUSSIAN", 2: "CIDER_FEAT_R4_GAUSSIAN",
                   3: "CIDER_FEAT_ERF_GAUSSIAN"},
    "case-fill": {"CIDER_FEAT_R0_GAUSSIAN": "FILL_CIDER_R0_GAUSSIAN", "CIDER_FEAT_R2_GAUSSIAN": "FILL_CIDER_R2_GAUSSIAN",
                  "CIDER_FEAT_R4_GAUSSIAN": "FILL_CIDER_R4_GAUSSIAN", "CIDER_FEAT_ERF_GAUSSIAN": "FILL_CIDER_ERF_GAUSSIAN"},
    "SPEC_USPS": {"se": 0, "se_r2": -2, "se_ar2": 0, "se_a2r4": 0, "se_erf_rinv": 0, "se_ap": 2, "se_apr2": 0,
                  "se_ap2r2": 2, "se_lapl": 2, "se_grad": 1, "se_rvec": -1},
}
# End points named in DESIGN.md (names are informative; the verdict uses the values computed by the functions)
DESIGN_ENDPOINTS = {
    "se": "gauss_i0", "se_r2": "gauss_dida", "se_apr2": "gauss_adida", "se_ap": "gauss_ai0",
    "se_ap2r2": "gauss_a2dida", "se_lapl": "gauss_lapli0", "se_rvec": ("gauss_ainv_iminus", "gauss_iplus"),
    "se_grad": ("gauss_iminus", "gauss_alpha_iplus"),
    "j:se": "R0", "j:se_ar2": "R2", "j:se_a2r4": "R4", "j:se_erf_rinv": "ERF",
}
ONE = (Fr(1), Fr(0))


def vio_at(chk, rule, hop_or_loc, msg, instance):
    file, func, construct, line = hop_or_loc
    chk.violation(rule, file, func, construct, line, msg, instance=instance)


def blame(chain, end_loc, also=()):
    """first hop (of this chain, then of the chains of the specs the documented relation refers to)
    whose entry differs from the pinned snapshot, else the end point"""
    for ch in (chain,) + tuple(also):
        for h in ch.hops:
            ref = SNAP.get(h.table)
            if ref is not None and h.key in ref and ref[h.key] != h.value:
                return (h.file, h.func, h.construct, h.line), h.table
    return end_loc, "end point"


# ----------------------------------------------------------------------------------------------
# Python side
# ----------------------------------------------------------------------------------------------
class PyTables:
    def __init__(self, tree):
        self.vj, self.vj_node = tc.py_table(tree, PLANS, "VJ_ID_MAP")
        self.vi, self.vi_node = tc.py_table(tree, PLANS, "VI_ID_MAP")
        self.ifeat, self.ifeat_node = tc.py_table(tree, LCONV, "IFEAT_ID_TO_CONTRIB")
        self.allowed = {}
        self.allowed_node = {}
        for nm in ("ALLOWED_I_SPECS_L0", "ALLOWED_I_SPECS_L1", "ALLOWED_J_SPECS", "ALLOWED_K_SPECS"):
            v, node = tc.py_table(tree, SETTINGS, nm)
            if not isinstance(v, (list, tuple, set)) or not all(isinstance(x, str) for x in v):
                raise core.AnalysisError("%s is no longer a list of strings" % nm)
            self.allowed[nm], self.allowed_node[nm] = sorted(v) if isinstance(v, set) else list(v), node
        self.usps, self.usps_node = tc.py_table(tree, SETTINGS, "SPEC_USPS")
        for nm, t in (("VJ_ID_MAP", self.vj), ("VI_ID_MAP", self.vi), ("IFEAT_ID_TO_CONTRIB", self.ifeat),
                      ("SPEC_USPS", self.usps)):
            if not isinstance(t, dict):
                raise core.AnalysisError("%s is no longer a dict literal" % nm)

    def entry_loc(self, rel, name, node, key):
        for k, kn, vn in tc.py_table_items(node):
            if k == key:
                return (rel, name, "%s[%r] = %s" % (name, key, pf.src(vn)), kn.lineno)
        return (rel, name, "%s (no entry for %r)" % (name, key), getattr(node, "lineno", 0))

    def list_loc(self, name, spec):
        node = self.allowed_node[name]
        return (SETTINGS, name, "%s contains %r" % (name, spec), getattr(node, "lineno", 0))


def _lib_func(v):
    """libcider.<name> or getattr(libcider, "<name>") -> name"""
    if isinstance(v, ast.Attribute) and isinstance(v.value, ast.Name) and v.value.id.startswith("lib") and v.value.id != "lib":
        return v.attr
    if isinstance(v, ast.Call) and pf.call_name(v) == "getattr" and len(v.args) >= 2 and isinstance(v.args[0], ast.Name) \
            and v.args[0].id.startswith("lib") and v.args[0].id != "lib" \
            and isinstance(v.args[1], ast.Constant) and isinstance(v.args[1].value, str):
        return v.args[1].value
    return None


def j_call_site(tree):
    """plans.py: the function that indexes VJ_ID_MAP picks libcider.<f> and passes c_int(feat_id) ->
    ({C function names}, positional index of the id argument, line)"""
    mod = tree.py(PLANS)
    for fn in ast.walk(mod):
        if not isinstance(fn, ast.FunctionDef):
            continue
        idvars = set()
        for n in pf.walk_no_nested(fn):
            if isinstance(n, ast.Assign) and len(n.targets) == 1 and isinstance(n.targets[0], ast.Name) \
                    and isinstance(n.value, ast.Subscript) and pf.src(n.value.value) == "VJ_ID_MAP":
                idvars.add(n.targets[0].id)
        if not idvars:
            continue
        cfuncs, fnvars = set(), set()
        for n in pf.walk_no_nested(fn):
            if isinstance(n, ast.Assign) and len(n.targets) == 1 and isinstance(n.targets[0], ast.Name):
                for v in ([n.value.body, n.value.orelse] if isinstance(n.value, ast.IfExp) else [n.value]):
                    cf = _lib_func(v)
                    if cf:
                        cfuncs.add(cf)
                        fnvars.add(n.targets[0].id)
        pos = set()
        line = fn.lineno
        for n in pf.walk_no_nested(fn):
            if isinstance(n, ast.Call) and ((isinstance(n.func, ast.Name) and n.func.id in fnvars) or _lib_func(n.func)):
                if _lib_func(n.func):
                    cfuncs.add(_lib_func(n.func))
                for i, a in enumerate(n.args):
                    if isinstance(a, ast.Name) and a.id in idvars:
                        pos.add(i)
                        line = n.lineno
                    if isinstance(a, ast.Call) and (pf.call_name(a) or "").split(".")[-1] in ("c_int", "c_int32", "int") and a.args \
                            and isinstance(a.args[0], ast.Name) and a.args[0].id in idvars:
                        pos.add(i)
                        line = n.lineno
        if cfuncs and len(pos) == 1:
            return cfuncs, pos.pop(), pf.qualname(fn), line
    raise core.AnalysisError("plans.py: no function passes VJ_ID_MAP[...] as ctypes.c_int to a libcider function")


# ----------------------------------------------------------------------------------------------
# version j / k chain
# ----------------------------------------------------------------------------------------------
def analyse_j_function(tu, fname, id_pos):
    """-> {case value: {"P": Poly, "DP": Poly, "label": spelling, "fill": [macro names], "breaks": bool,
                        "line": int}}, has_default, evaluator"""
    ps = tu.params(fname)
    if len(ps) != 8:
        raise core.AnalysisError("%s no longer has 8 parameters" % fname)
    ptypes = [tc.ptype(p) for p in ps]  # cv/restrict qualifiers are immaterial
    want = ["double *", "double *", "double *", "double *", "int", "int", "int", "double *"]
    if ptypes != want:
        raise core.AnalysisError("%s: parameter types changed: %s" % (fname, ptypes))
    names = ["P", "DP", "E", "A", "ngrids", "nalpha", "featid", "X"]
    roles = {p["id"]: r for p, r in zip(ps, names)}
    ev = tc.Ev(tu, {"E": ONE, "A": ONE})
    ev.inline_calls = True  # a fill macro turned into a helper function is followed
    env = tc.new_env(roles)
    ev.block(tu.body(fname), env)
    # the dispatch on the id parameter: a `switch` or an if/else-if chain on `id == k`
    sws = [s for s in ev.switch_results if s["var"].get("kind") == "DeclRefExpr"
           and s["var"]["referencedDecl"]["id"] == ps[id_pos]["id"]]
    if len(sws) != 1:
        raise core.AnalysisError("%s: expected exactly one switch / if-ladder over parameter #%d (%s), found %d" % (
            fname, id_pos, ps[id_pos].get("name"), len(sws)))
    sw = sws[0]
    # spelling of the labels and of the macros invoked per case (used to name the hop in reports); optional
    txt = [s for s in tc.c_switch_text(tu, fname)] if sw.get("form") != "if" else []
    tcases = txt[0]["cases"] if len(txt) == 1 and len(txt[0]["cases"]) == len(sw["groups"]) else None
    out = {}
    has_default = False
    for gi, g in enumerate(sw["groups"]):
        t = tcases[gi] if tcases is not None else {"labels": [], "macros": []}
        if g["default"]:
            has_default = True
        labs = [x for x in t["labels"] if x is not None]
        if len(labs) != len(g["values"]):
            labs = ["%s" % v for v in g["values"]]
        for v, lab in zip(g["values"], labs):
            mv = tc.macro_int(tu, lab)
            if mv is None:
                mv = getattr(tu, "_enums", {}).get(lab)
            if mv is not None and mv != v:
                raise core.AnalysisError("%s: label %s spelled value %s but clang folded it to %s" % (fname, lab, mv, v))
            fills = []
            for mname, margs in t["macros"]:
                for ident, cargs in tc.macro_expand_idents(tu, mname, margs):
                    if ident in tu.macros and tu.macros[ident][0] is not None and ident != mname:
                        fills.append(ident)
            last = {}
            for st in g["stores"]:
                last[st["root"]] = st
            out[v] = {"P": last.get("P", {}).get("value"), "DP": last.get("DP", {}).get("value"),
                      "label": lab, "fill": fills, "breaks": g["breaks"], "line": tu.line_of(g["node"]),
                      "macro_call": t["macros"]}
    return out, has_default, ev


def rule_chain_j(chk, py, tus):
    tu = tus[C_COEFS]
    cfuncs, id_pos, pyfn, pyline = j_call_site(chk.tree)
    missing = [f for f in J_FUNCS if f not in cfuncs]
    if missing or any(f not in tu.funcs for f in cfuncs):
        raise core.AnalysisError("plans.py:%s dispatches to %s; expected the pair %s defined in %s" % (
            pyfn, sorted(cfuncs), J_FUNCS, C_COEFS))
    per_fn = {}
    for f in sorted(cfuncs):
        per_fn[f] = analyse_j_function(tu, f, id_pos)
        chk.count("C functions evaluated")
        for w, m in per_fn[f][2].mismatches:
            chk.violation("alpha-degree", F_COEFS, f, w, 0, "inhomogeneous expression: " + m)
    specs = []
    for lst in ("ALLOWED_J_SPECS", "ALLOWED_K_SPECS"):
        for s in py.allowed[lst]:
            specs.append((lst, s))
    # reference end point of `se`
    results = {}
    for f in sorted(cfuncs):
        cases, has_default, ev = per_fn[f]
        for lst, s in specs:
            inst = "%s:%s via %s" % (lst, s, f)
            ch = tc.Chain(s)
            if s not in py.vj:
                continue  # reported by totality
            v = ch.hop("VJ_ID_MAP", PLANS, "VJ_ID_MAP", s, py.vj[s], py.entry_loc(PLANS, "VJ_ID_MAP", py.vj_node, s)[3],
                       py.entry_loc(PLANS, "VJ_ID_MAP", py.vj_node, s)[2])
            if v not in cases:
                continue  # reported by totality
            c = cases[v]
            ch.hop("case-label", F_COEFS, f, v, c["label"], c["line"], "%s = %s (constant of the case label)" % (c["label"], v))
            ch.hop("case-fill", F_COEFS, f, c["label"], c["fill"][0] if len(c["fill"]) == 1 else tuple(c["fill"]), c["line"],
                   "case %s: %s" % (c["label"], " ".join("%s(%s)" % (m, ",".join(a)) for m, a in c["macro_call"])))
            results[(f, lst, s)] = (ch, c)
    for f in sorted(cfuncs):
        cases = per_fn[f][0]
        ev = per_fn[f][2]
        base = None
        for (ff, lst, s), (ch, c) in results.items():
            if ff == f and s == "se":
                base = c
        if base is None or base["P"] is None:
            raise core.AnalysisError("%s: the `se` case stores nothing into the coefficient array" % f)
        P0 = base["P"]
        ok0, why0, S, E = j_base_shape(P0)
        for (ff, lst, s), (ch, c) in sorted(results.items(), key=lambda kv: (kv[0][0], kv[0][1], kv[0][2])):
            if ff != f:
                continue
            inst = "%s:%s via %s: %s" % (lst, s, f, ch.text())
            end_loc = (F_COEFS, f, "case %s: p[...] = %s" % (c["label"], c["P"].text() if c["P"] is not None else "<no store>"),
                       c["line"])
            if c["P"] is None:
                loc, tab = blame(ch, end_loc)
                vio_at(chk, "chain-j", loc, "spec %r resolves (%s) to a case that does not store the coefficient" % (
                    s, ch.text()), inst)
                continue
            if s == "se":
                if ok0:
                    chk.ok("chain-j", inst, detail="p = %s" % P0.text())
                else:
                    loc, tab = blame(ch, end_loc)
                    vio_at(chk, "chain-j", loc, "spec 'se' (%s) must store c*(E+A)^(-3/2), the integral of the plain "
                           "Gaussian; found %s (%s) [%s]" % (ch.text(), P0.text(), why0, tab), inst)
                continue
            if not ok0:
                continue
            exp = j_expected(s, P0, S, E)
            if exp is None:
                chk.note("chain-j", inst, "no documented closed form recorded for spec %r; only totality is checked" % s)
                continue
            if exp == c["P"]:
                chk.ok("chain-j", inst, detail="p = %s" % c["P"].text())
            else:
                loc, tab = blame(ch, end_loc)
                vio_at(chk, "chain-j", loc,
                       "spec %r resolves through %s to a store of %s; the documented kernel requires %s "
                       "(moment of the Gaussian relative to `se`); first table that differs from the pinned "
                       "numbering: %s" % (s, ch.text(), c["P"].text(), exp.text(), tab), inst)
            # units
            d, d0 = ev.deg_poly(c["P"]), ev.deg_poly(P0)
            usp = py.usps.get(s)
            inst2 = "j:%s via %s" % (s, f)
            if d is None or d0 is None or usp is None:
                continue
            rel = (d[0] - d0[0]) * 2
            if rel == usp - py.usps.get("se", 0):
                chk.ok("alpha-degree", inst2, detail="relative degree %s == SPEC_USPS" % rel)
            else:
                chk.violation("alpha-degree", F_COEFS, f, "case %s" % c["label"], c["line"],
                              "coefficient for spec %r has degree %s (in lambda) relative to `se`, SPEC_USPS says %s" % (
                                  s, rel, usp), instance=inst2)
    # twins
    fs = sorted(cfuncs)
    a, b = per_fn[fs[0]][0], per_fn[fs[1]][0]
    for v in sorted(set(a) | set(b)):
        inst = "case %s in %s vs %s" % (v, fs[0], fs[1])
        if v not in a or v not in b:
            continue  # totality
        same = a[v]["P"] == b[v]["P"] and a[v]["DP"] == b[v]["DP"]
        if same:
            chk.ok("chain-j-twin", inst)
        else:
            which = "value" if a[v]["P"] != b[v]["P"] else "derivative"
            x, y = (a[v]["P"], b[v]["P"]) if which == "value" else (a[v]["DP"], b[v]["DP"])
            chk.violation("chain-j-twin", F_COEFS, fs[1], "case %s (%s)" % (b[v]["label"], v), b[v]["line"],
                          "the two memory layouts of the same coefficient disagree for id %s: %s stores %s = %s, "
                          "%s stores %s" % (v, fs[0], which, x.text() if x is not None else None, fs[1],
                                            y.text() if y is not None else None), instance=inst)
    return per_fn, id_pos


def j_base_shape(P0):
    """P0 must be c * S^(-3/2) with S = (E + A) -> ok, why, S atom, E atom"""
    if not P0.single():
        return False, "not a single product", None, None
    (m, c), = P0.t.items()
    sums = [(a, e) for a, e in m if a[0] == "sum"]
    others = [(a, e) for a, e in m if a[0] not in ("sum", "fn", "num")]
    if len(sums) != 1 or others:
        return False, "expected one factor (E+A)^(-3/2) and numeric constants", None, None
    S, e = sums[0]
    if e != Fr(-3, 2):
        return False, "exponent of (E+A) is %s" % e, None, None
    inner = Poly(dict(S[1]))
    ats = inner.atoms()
    Es = [a for a in ats if a[0] == "elem" and a[1] == "E"]
    As = [a for a in ats if a[0] == "elem" and a[1] == "A"]
    if len(Es) != 1 or len(As) != 1 or inner != Poly.atom(Es[0]) + Poly.atom(As[0]):
        return False, "the sum is not exp_g[g] + alphas[a]", None, None
    return True, "", S, Es[0]


def j_expected(spec, P0, S, E):
    if spec == "se_ar2":
        return P0.mul_raw(Poly({tc._mono({E: Fr(1), S: Fr(-1)}): Fr(3, 2)}))
    if spec == "se_a2r4":
        return P0.mul_raw(Poly({tc._mono({E: Fr(2), S: Fr(-2)}): Fr(15, 4)}))
    if spec == "se_erf_rinv":
        X = ("elem", "X", Poly().canon())
        inner = Poly.const(1) + Poly({tc._mono({X: Fr(1), E: Fr(1), S: Fr(-1)}): Fr(1)})
        return P0.mul_raw(Poly({tc._mono({("sum", inner.canon()): Fr(-1, 2)}): Fr(1)}))
    return None


# ----------------------------------------------------------------------------------------------
# version i chain
# ----------------------------------------------------------------------------------------------
def eval_int_flow(tu, fname, prefix, fields_by_type=None):
    """lenient abstract evaluation of a whole function (integer flow, struct fields, stores, calls)"""
    ev = tc.Ev(tu)
    ev.lenient = True
    ev.inline_calls = True  # helpers that fill the struct through the pointer are followed
    env = tc.new_env({p["id"]: prefix + str(p.get("name")) for p in tu.params(fname)})
    if fields_by_type:
        env["fields_by_type"] = dict(fields_by_type)
    ev.block(tu.body(fname), env)
    return ev, env


def _index_syms(p):
    return sorted({a[1] for a in p.atoms() if a[0] == "sym" and str(a[1]).startswith("int:")})


def _rename(p, old, new):
    out = {}
    for m, c in p.t.items():
        mm = tc._mono({(("sym", new) if a == ("sym", old) else a): e for a, e in m})
        out[mm] = out.get(mm, 0) + c
    return Poly(out)


def rule_feat_orders_position(chk, ic, tu):
    """the element of feat_orders written for i-contribution k is the element at the position where
    generate_atc_integrals_all puts the integrals of contribution k (after the version-j block)"""
    ev1, env1 = ic.producer
    ladder_stores = [st for st in ic.fo_stores if any("icontrib_ids" in c for c in st["conds"])]
    if not ladder_stores:
        raise core.AnalysisError("%s: no store to feat_orders under the icontrib_ids ladder was evaluated "
                                 "(skipped: %s)" % (ORDERS_FUNC, ev1.skipped[:2]))
    fbt = {k.split("@")[0]: v for k, v in env1["fields"].items() if v is not None}
    # consumer: the driver that lays out the outputs
    drivers = []
    for fname in tu.funcs:
        if fname == LADDER_FUNC or tu.body(fname) is None:
            continue
        calls_it = any(x.get("kind") == "CallExpr" and cfacts.strip(cfacts.kids(x)[0]).get("referencedDecl", {}).get("name") == LADDER_FUNC
                       for x in tc.walk_stmts(tu.body(fname)))
        if calls_it:
            drivers.append(fname)
    if not drivers:
        raise core.AnalysisError("no caller of %s in %s" % (LADDER_FUNC, C_CONV))
    ps = tu.params(LADDER_FUNC)
    int_pos = [i for i, p in enumerate(ps) if tc.ptype(p) == "int" and i != ic.id_param_index]
    if len(int_pos) != 1:
        raise core.AnalysisError("%s: expected exactly one integer parameter besides the id (the output offset)" % LADDER_FUNC)
    off_pos = int_pos[0]
    n = 0
    for drv in sorted(drivers):
        ev2, env2 = eval_int_flow(tu, drv, "q:", fbt)
        for call in ev2.calls:
            if call["name"] != LADDER_FUNC:
                continue
            idv, offv = call["args"][ic.id_param_index], call["args"][off_pos]
            if idv is None or offv is None:
                raise core.AnalysisError("%s: arguments of the call of %s could not be evaluated (%s)" % (
                    drv, LADDER_FUNC, ev2.skipped[:2]))
            ks = []
            for a in idv.atoms():
                if a[0] == "elem" and "icontrib_ids" in a[1]:
                    ks += _index_syms(Poly(dict(a[2])))
            if not idv.single() or len(ks) != 1:
                chk.note("feat-orders", "%s" % drv, "call of %s with id %s is not per-contribution; position not compared" % (
                    LADDER_FUNC, idv.text()[:60]))
                continue
            k2 = ks[0]
            want = _rename(offv, k2, "<k>")
            for st in ladder_stores:
                k1s = _index_syms(st["index"])
                inst = "position of feat_orders for contribution k: %s vs offset in %s" % (
                    tc.norm_c(" ".join(tu.text_of(st["node"]).split())), drv)
                n += 1
                got = _rename(st["index"], k1s[0], "<k>") if len(k1s) == 1 else st["index"]
                if got == want:
                    chk.ok("feat-orders", inst, detail="index %s" % got.text())
                else:
                    chk.violation("feat-orders", F_CONV, ORDERS_FUNC,
                                  "%s = %s at index %s" % (ic.orders_lhs, st["value"].text(), got.text()),
                                  tu.line_of(st["node"]),
                                  "the projection order of i-contribution k is written to feat_orders[%s], but %s stores the "
                                  "integrals of contribution k at output position %s (solve_atc_coefs reads feat_orders at "
                                  "the output position): with version-j outputs present the l-1/l+1 orders land on other "
                                  "outputs" % (got.text(), drv, want.text()), instance=inst)
    if n == 0:
        raise core.AnalysisError("no per-contribution call of %s found to compare positions with" % LADDER_FUNC)
    # version-j block: order 0 (explicitly or by calloc)
    inst = "feat_orders of the version-j outputs is 0"
    jst = [st for st in ic.fo_stores if not any("icontrib_ids" in c for c in st["conds"])]
    if ic.fo_alloc == "calloc" and all(st["value"] == Poly() for st in jst):
        chk.ok("feat-orders", inst, detail="calloc")
    elif jst and all(st["value"] == Poly() for st in jst) and any(len(_index_syms(st["index"])) == 1 and
                                                                 _rename(st["index"], _index_syms(st["index"])[0], "<k>") ==
                                                                 Poly.atom(("sym", "<k>")) for st in jst):
        chk.ok("feat-orders", inst, detail="explicit loop")
    else:
        chk.violation("feat-orders", F_CONV, ORDERS_FUNC, "feat_orders of version-j outputs", ic.orders_default_loc[3],
                      "the entries of feat_orders for the version-j outputs (positions 0..nalpha-1) must be 0; they are %s" % (
                          "written with " + ", ".join(st["value"].text() for st in jst) if jst else
                          "never written and the array comes from %s" % ic.fo_alloc), instance=inst)


class IChain:
    def __init__(self, chk, py, tu):
        self.tu = tu
        # the dispatch may sit in the anchored function or in a helper it calls
        lads = [(f, l) for f, l in tc.c_dispatch_tables_deep(tu, LADDER_FUNC)
                if all(tc.single_assignment(a["stmt"]) and tc.func_ref(tc.single_assignment(a["stmt"])[1]) for a in l["arms"])]
        if not lads:
            # third spelling of the same table: a constant array of function pointers indexed by the id
            tab = self._fptr_table_dispatch(tu)
            if tab is not None:
                lads = [tab]
        if len(lads) != 1:
            raise core.AnalysisError("%s: expected one dispatch (`if (id == k) fptr = &f` ladder, switch, or constant table of "
                                     "function pointers indexed by the id), found %d" % (LADDER_FUNC, len(lads)))
        self.ladder_func, lad = lads[0]
        self.ladder_falls = lad["falls"]
        ps = tu.params(LADDER_FUNC)
        pn = [p.get("name") for p in ps]
        if self.ladder_func == LADDER_FUNC:
            if lad["var"] not in pn:
                raise core.AnalysisError("%s: the ladder tests %s, which is not a parameter" % (LADDER_FUNC, lad["var"]))
            self.id_param_index = pn.index(lad["var"])
        else:
            hp = [p.get("name") for p in tu.params(self.ladder_func)]
            if lad["var"] not in hp:
                raise core.AnalysisError("%s: the ladder tests %s, which is not a parameter" % (self.ladder_func, lad["var"]))
            idx = None
            for nm, call, caller in tc.callees_of(tu, LADDER_FUNC, 1):
                if nm == self.ladder_func and caller == LADDER_FUNC:
                    a = cfacts.strip(cfacts.kids(call)[1 + hp.index(lad["var"])])
                    if a.get("kind") == "DeclRefExpr" and a["referencedDecl"].get("name") in pn:
                        idx = pn.index(a["referencedDecl"]["name"])
            if idx is None:
                raise core.AnalysisError("%s passes something else than its id parameter to %s" % (LADDER_FUNC, self.ladder_func))
            self.id_param_index = idx
        self.ladder = {}
        self.ladder_loc = {}
        tgt = set()
        for a in lad["arms"]:
            l, r = tc.single_assignment(a["stmt"])
            tgt.add(tc.norm_c(tu.text_of(l)))
            for v in a["values"]:
                if v in self.ladder:
                    raise core.AnalysisError("%s: id %s appears twice in the ladder" % (LADDER_FUNC, v))
                self.ladder[v] = tc.func_ref(r)
                self.ladder_loc[v] = (F_CONV, self.ladder_func, "%s == %s: %s = &%s" % (lad["var"], v, sorted(tgt)[0], tc.func_ref(r)),
                                      tu.line_of(a["node"]))
        if len(tgt) != 1:
            raise core.AnalysisError("%s: the ladder assigns different variables %s" % (LADDER_FUNC, sorted(tgt)))
        self.ladder_else = lad["orelse"]
        # the caller passes icontrib_ids[...] as that parameter
        found = False
        for fname in tu.funcs:
            for n in tc.walk_stmts(tu.body(fname)) if tu.body(fname) else []:
                if n.get("kind") == "CallExpr":
                    ks = cfacts.kids(n)
                    cal = cfacts.strip(ks[0])
                    if cal.get("kind") == "DeclRefExpr" and cal["referencedDecl"]["name"] == LADDER_FUNC:
                        arg = tc.norm_c(tu.text_of(ks[1 + self.id_param_index]))
                        if "icontrib_ids" in arg:
                            found = True
        if not found:
            raise core.AnalysisError("no call of %s passes an element of icontrib_ids as the feature id" % LADDER_FUNC)
        # feat_orders ladder
        ol = [(f, l) for f, l in tc.c_dispatch_tables_deep(tu, ORDERS_FUNC) if "icontrib_ids" in l["var"]
              and all(tc.single_assignment(a["stmt"]) and tc.const_int(tc.single_assignment(a["stmt"])[1]) is not None
                      for a in l["arms"])]
        if len(ol) != 1:
            raise core.AnalysisError("%s (and the helpers it calls): expected one ladder on icontrib_ids assigning "
                                     "feat_orders, found %d" % (ORDERS_FUNC, len(ol)))
        self.orders_func, ol = ol[0]
        self.orders = {}
        self.orders_loc = {}
        lhs = set()
        for a in ol["arms"]:
            l, r = tc.single_assignment(a["stmt"])
            lhs.add(tc.norm_c(tu.text_of(l)))
            for v in a["values"]:
                self.orders[v] = tc.const_int(r)
                self.orders_loc[v] = (F_CONV, self.orders_func, "%s == %s: %s = %s" % (ol["var"], v, tc.norm_c(tu.text_of(l)),
                                                                                  tc.const_int(r)), tu.line_of(a["node"]))
        # abstract evaluation of the constructor: struct fields, allocation of feat_orders, positions written
        self.producer = eval_int_flow(tu, ORDERS_FUNC, "p:")
        self.fo_stores = [st for st in self.producer[1]["stores"] if ".feat_orders@" in st["root"]]
        self.fo_alloc = None
        for key, how in self.producer[1]["allocs"].items():
            if ".feat_orders@" in key:
                self.fo_alloc = how
        self.orders_uninit = None
        if ol["orelse"] is not None:
            sa = tc.single_assignment(ol["orelse"])
            if sa is None or tc.const_int(sa[1]) is None:
                raise core.AnalysisError("%s: the else of the feat_orders ladder is not a constant assignment" % ORDERS_FUNC)
            lhs.add(tc.norm_c(tu.text_of(sa[0])))
            self.orders_default = tc.const_int(sa[1])
            self.orders_default_loc = (F_CONV, ORDERS_FUNC, "else %s = %s" % (sorted(lhs)[0], self.orders_default),
                                       tu.line_of(ol["node"]))
        else:
            # no else: the value for every other id is whatever the allocation left there
            self.orders_default_loc = (F_CONV, ORDERS_FUNC, "feat_orders = %s(...); ladder without else" % self.fo_alloc,
                                       tu.line_of(ol["node"]))
            if self.fo_alloc == "calloc":
                self.orders_default = 0
            else:
                self.orders_default = None
                self.orders_uninit = "feat_orders is allocated with %s and the ladder has no else: the order of every " \
                                     "contribution id without an arm is uninitialised memory" % self.fo_alloc
        if not lhs or any("feat_orders" not in x for x in lhs):
            raise core.AnalysisError("%s: ladder arms assign %s, expected elements of feat_orders" % (ORDERS_FUNC, sorted(lhs)))
        # (arms that write different elements are judged by the position rule)
        self.orders_lhs = "ccl->feat_orders[...]" if len(lhs) > 1 else sorted(lhs)[0]
        # evaluate integral functions
        self.ev = tc.Ev(tu, {"alpha": ONE, "expi": ONE, "expj": ONE})
        self.values = {}

    def _fptr_table_dispatch(self, tu):
        """`fptr = TABLE[id]` with TABLE a file-scope constant array of functions -> a dispatch in the ladder shape"""
        tables = tc.fptr_tables(tu)
        if not tables:
            return None
        for fname in [LADDER_FUNC] + [nm for nm, _, _ in tc.callees_of(tu, LADDER_FUNC, 2)]:
            pn = [p.get("name") for p in tu.params(fname)]
            for n in tc.walk_stmts(tu.body(fname)):
                if n.get("kind") != "ArraySubscriptExpr":
                    continue
                base, idx = [cfacts.strip(c) for c in cfacts.kids(n)]
                if base.get("kind") == "DeclRefExpr" and base["referencedDecl"].get("name") in tables \
                        and idx.get("kind") == "DeclRefExpr" and idx["referencedDecl"].get("name") in pn:
                    tname = base["referencedDecl"]["name"]
                    arms = []
                    for k, f in sorted(tables[tname].items()):
                        fake_rhs = {"kind": "DeclRefExpr", "referencedDecl": {"kind": "FunctionDecl", "name": f},
                                    "range": n.get("range", {})}
                        fake_lhs = {"kind": "DeclRefExpr", "referencedDecl": {"kind": "VarDecl", "name": "%s[%d]" % (tname, k)},
                                    "range": n.get("range", {}), "type": {"qualType": "double (*)(int, double, double, double)"}}
                        stmt = {"kind": "BinaryOperator", "opcode": "=", "inner": [fake_lhs, fake_rhs], "range": n.get("range", {})}
                        arms.append({"values": [k], "stmt": stmt, "node": n})
                    return fname, {"var": idx["referencedDecl"]["name"], "var_node": idx, "arms": arms, "orelse": None,
                                   "node": n, "form": "table", "falls": []}
        return None

    def value(self, fname):
        if fname not in self.values:
            ps = self.tu.params(fname)
            types = [tc.ptype(p) for p in ps]
            if types != ["int", "double", "double", "double"]:
                raise core.AnalysisError("integral function %s has signature %s, expected (int, double, double, double)" % (
                    fname, types))
            args = [Poly.atom(("sym", r)) for r in ("l", "alpha", "expi", "expj")]
            n0 = len(self.ev.mismatches)
            self.values[fname] = (self.ev.call_tu(fname, args), self.ev.mismatches[n0:])
        return self.values[fname]

    def order_of(self, cid):
        return self.orders.get(cid, self.orders_default)


def shape_of(ev, V, base_pow):
    """every monomial of V must contain exactly one pow(B, e0 - l) with the base B of the `se` integral
    -> (shift, degree) common to all monomials, or raises"""
    shifts, degs = set(), set()
    for m in V.t:
        pows = [(a, e) for a, e in m if a[0] == "pow"]
        if len(pows) != 1 or pows[0][1] != 1 or pows[0][0][1] != base_pow[1]:
            raise core.AnalysisError("integral is not a multiple of pow(B, e - l) with the base of the `se` integral: %s" % (
                Poly({m: Fr(1)}).text()[:200]))
        e = tc.affine_l(Poly(dict(pows[0][0][2])))
        e0 = tc.affine_l(Poly(dict(base_pow[2])))
        if e is None or e0 is None or e[1] != e0[1]:
            raise core.AnalysisError("exponent of the radial power is not affine in l")
        shifts.add(e0[0] - e[0])
        degs.add(ev.deg_mono(m))
    return shifts, degs


def rule_chain_i(chk, py, tus):
    tu = tus[C_CONV]
    ic = IChain(chk, py, tu)
    chk.count("ladder arms", len(ic.ladder))
    alpha = Poly.atom(("sym", "alpha"))

    def resolve(spec, comp=None):
        """-> (Chain, function name or None)"""
        ch = tc.Chain(spec)
        if spec not in py.vi:
            return ch, None
        loc = py.entry_loc(PLANS, "VI_ID_MAP", py.vi_node, spec)
        fid = ch.hop("VI_ID_MAP", PLANS, "VI_ID_MAP", spec, py.vi[spec], loc[3], loc[2])
        if fid not in py.ifeat:
            return ch, None
        loc = py.entry_loc(LCONV, "IFEAT_ID_TO_CONTRIB", py.ifeat_node, fid)
        cid = ch.hop("IFEAT_ID_TO_CONTRIB", LCONV, "IFEAT_ID_TO_CONTRIB", fid, py.ifeat[fid], loc[3], loc[2])
        if comp is None:
            if not isinstance(cid, int):
                return ch, None
        else:
            if not (isinstance(cid, tuple) and len(cid) == 2 and all(isinstance(x, int) for x in cid)):
                return ch, None
            cid = cid[comp]
        if cid not in ic.ladder:
            return ch, None
        loc = ic.ladder_loc[cid]
        fn = ch.hop("featid-ladder", loc[0], loc[1], cid, ic.ladder[cid], loc[3], loc[2])
        ch.cid = cid
        return ch, fn

    ends = {}
    for s in py.allowed["ALLOWED_I_SPECS_L0"]:
        ends[(s, None)] = resolve(s)
    for s in py.allowed["ALLOWED_I_SPECS_L1"]:
        for comp in (0, 1):
            ends[(s, comp)] = resolve(s, comp)
    # `se` may not be allowed any more; resolve it anyway as the reference kernel
    if ("se", None) not in ends:
        ends[("se", None)] = resolve("se")
    ch0, f0 = ends[("se", None)]
    if f0 is None:
        raise core.AnalysisError("the reference spec 'se' does not resolve to an integral function (%s)" % ch0.text())
    V0, mm0 = ic.value(f0)
    okse, whyse, base_pow = se_shape(V0)

    def end_loc(fn):
        f = tu.func(fn)
        return (F_CONV, fn, "%s returns %s" % (fn, ic.value(fn)[0].text()[:110]), tu.line_of(f))

    def val(key):
        ch, fn = ends.get(key, (None, None))
        if fn is None:
            return None
        return ic.value(fn)[0]

    # documented relations: spec -> (description, function computing the expected polynomial)
    def rel_expected(spec, comp):
        if spec == "se_ap":
            return "a * k_se", lambda: V0.mul_raw(alpha)
        if spec == "se_apr2":
            return "a * k_se_r2", lambda: val(("se_r2", None)).mul_raw(alpha)
        if spec == "se_ap2r2":
            return "a^2 * k_se_r2", lambda: val(("se_r2", None)).mul_raw(alpha).mul_raw(alpha)
        if spec == "se_lapl":
            return "4 * k_se_ap2r2 - 2 * k_se_ap", lambda: val(("se_ap2r2", None)).scale(4) - val(("se_ap", None)).scale(2)
        if spec == "se_grad":
            return "a * k_se_rvec (component %d)" % comp, lambda: val(("se_rvec", comp)).mul_raw(alpha)
        return None, None

    needs = {"se_ap": [], "se_apr2": [("se_r2", None)], "se_ap2r2": [("se_r2", None)],
             "se_lapl": [("se_ap2r2", None), ("se_ap", None)]}
    reported_fn_mismatch = set()
    for (s, comp), (ch, fn) in sorted(ends.items(), key=lambda kv: (kv[0][0], -1 if kv[0][1] is None else kv[0][1])):
        label = s if comp is None else "%s[%s]" % (s, "l-1" if comp == 0 else "l+1")
        inst = "%s: %s" % (label, ch.text())
        if fn is None:
            continue  # totality reports the hole
        V, mm = ic.value(fn)
        chk.count("integral functions evaluated")
        for w, m in mm:
            if (fn, w) not in reported_fn_mismatch:
                reported_fn_mismatch.add((fn, w))
                chk.violation("alpha-degree", F_CONV, fn, w, tu.line_of(tu.func(fn)), "inhomogeneous expression: " + m)
        eloc = end_loc(fn)
        if s == "se":
            if okse:
                chk.ok("chain-i", inst, detail="%s = %s" % (fn, V.text()))
            else:
                loc, tab = blame(ch, eloc)
                vio_at(chk, "chain-i", loc, "spec 'se' resolves (%s) to %s, which is not the bare radial Gaussian "
                       "integral 1/2 Gamma(l+3/2) B^(-l-3/2): %s [%s]" % (ch.text(), fn, whyse, tab), inst)
            continue
        if not okse:
            continue
        desc, mk = rel_expected(s, comp)
        if mk is not None:
            deps = needs[s] if s in needs else [("se_rvec", comp)]
            if any(val(d) is None for d in deps):
                chk.note("chain-i", inst, "relation %s not checked: a kernel it refers to does not resolve" % desc)
            else:
                exp = mk()
                if exp == V:
                    chk.ok("chain-i", inst, detail="%s == %s" % (fn, desc))
                else:
                    loc, tab = blame(ch, eloc, [ends[d][0] for d in deps])
                    vio_at(chk, "chain-i", loc,
                           "docs/features/nldf.rst: k_%s = %s.  Spec %r resolves through %s to %s, whose value is not "
                           "that combination of the integrals the other specs resolve to (found %s ; expected %s); "
                           "first table that differs from the pinned numbering: %s" % (
                               s, desc, s, ch.text(), fn, V.text()[:160], exp.text()[:160], tab), inst)
        # shape: l-shift and degree
        try:
            shifts, degs = shape_of(ic.ev, V, base_pow)
        except core.AnalysisError as e:
            raise core.AnalysisError("%s (%s): %s" % (fn, label, e))
        d0 = ic.ev.deg_mono(next(iter(V0.t)))
        want_shift = 0 if comp is None else (-1 if comp == 0 else 1)
        if len(shifts) != 1 or len(degs) != 1 or None in degs:
            loc, tab = blame(ch, eloc)
            vio_at(chk, "alpha-degree", loc, "terms of %s have different l-shifts %s or degrees %s" % (
                fn, sorted(shifts), sorted(degs, key=str)), "degree %s" % label)
            continue
        shift = next(iter(shifts))
        d = next(iter(degs))
        # l-shift versus position (scalar: 0; pair: (l-1, l+1))
        inst_o = "shift %s: %s" % (label, ch.text())
        if shift == want_shift:
            if mk is None:
                chk.ok("chain-i", inst, detail="%s: radial integral of order l%+d" % (fn, int(shift)))
        else:
            loc, tab = blame(ch, eloc)
            vio_at(chk, "chain-i", loc,
                   "spec %s resolves through %s to %s, a radial integral of order l%+d; this slot needs order l%+d "
                   "(IFEAT pairs are (l-1 part, l+1 part); scalar kernels use order l); first table that differs "
                   "from the pinned numbering: %s" % (label, ch.text(), fn, int(shift), want_shift, tab), inst_o)
        # feat_orders of the contribution id
        cid = ch.cid
        o = ic.order_of(cid)
        inst_f = "feat_orders[contrib %s] = %s vs %s" % (cid, o, fn)
        if o is None:
            vio_at(chk, "feat-orders", ic.orders_default_loc, "contribution id %s (%s): %s" % (cid, fn, ic.orders_uninit), inst_f)
        elif o == shift:
            chk.ok("feat-orders", inst_f)
        else:
            loc = ic.orders_loc.get(cid, ic.orders_default_loc)
            # decide which side moved
            lh = [h for h in ch.hops if h.table == "featid-ladder"][0]
            if SNAP["featid-ladder"].get(cid) != lh.value:
                loc = (lh.file, lh.func, lh.construct, lh.line)
            vio_at(chk, "feat-orders", loc,
                   "contribution id %s is projected with the l%+d overlap (feat_orders = %s in %s) but the ladder of %s "
                   "assigns it %s, a radial integral of order l%+d" % (cid, o, o, ORDERS_FUNC, LADDER_FUNC, fn, int(shift)),
                   inst_f)
        # units of measure
        usp = py.usps.get(s)
        inst_d = "degree %s via %s" % (label, fn)
        if usp is None or d is None or d0 is None:
            continue
        if d[1] != d0[1]:
            chk.violation("alpha-degree", F_CONV, fn, "%s l-dependence" % fn, tu.line_of(tu.func(fn)),
                          "degree of %s depends on l differently from the `se` integral" % fn, instance=inst_d)
            continue
        lam = 2 * ((d[0] - d0[0]) + shift / 2)
        if lam == usp:
            chk.ok("alpha-degree", inst_d, detail="2*(%s %+s/2) = %s = SPEC_USPS[%r]" % (d[0] - d0[0], shift, lam, s))
        else:
            loc, tab = blame(ch, eloc)
            if tab == "end point" and SNAP["SPEC_USPS"].get(s) != usp:
                loc = py.entry_loc(SETTINGS, "SPEC_USPS", py.usps_node, s)
            vio_at(chk, "alpha-degree", loc,
                   "integral for spec %s (%s) scales as lambda^%s relative to `se` (degree %s in exponent units, "
                   "l-shift %+d) but SPEC_USPS[%r] = %s" % (label, fn, lam, d[0] - d0[0], int(shift), s, usp), inst_d)
    chk.guard(rule_feat_orders_position, ic, tu)
    chk.guard(rule_kernel_derivative, ic, tu, ends)
    return ic


def rule_kernel_derivative(chk, ic, tu, ends):
    """k_se_r2 = r^2 exp(-a r^2) = -d/da exp(-a r^2): the matrix element stored for se_r2 must be minus the
    a-derivative of the one stored for se, INCLUDING the a-dependent prefactor that generate_atc_integrals_vi
    multiplies every integral with.  With M_k = P(a) * F_k(l, a, expi, expj):  F_r2 / F_se == -d/da log(P * F_se).
    Both sides are rational functions of (a, expi, expj, l); they are compared after full expansion."""
    f0 = ends.get(("se", None), (None, None))[1]
    f1 = ends.get(("se_r2", None), (None, None))[1]
    if f0 is None or f1 is None:
        chk.note("kernel-derivative", "se / se_r2", "a spec does not resolve; derivative relation not checked")
        return
    fn = ic.ladder_func if tu.body(ic.ladder_func) is not None else LADDER_FUNC
    ev = tc.Ev(tu)
    ev.lenient = True
    ev.inline_calls = fn != LADDER_FUNC
    env = tc.new_env({p["id"]: "v:" + str(p.get("name")) for p in tu.params(LADDER_FUNC)})
    ev.block(tu.body(LADDER_FUNC), env)
    hits = []
    for st in env["stores"]:
        for m, c in st["value"].t.items():
            fp = [a for a, e in m if a[0] == "fn" and str(a[1]).startswith("<fptr:") and e == 1]
            if len(fp) == 1 and st["value"].single():
                hits.append((st, m, c, fp[0]))
    if len(hits) != 1:
        raise core.AnalysisError("%s: expected one store of prefactor * (*integral_func)(...), found %d (skipped: %s)" % (
            LADDER_FUNC, len(hits), ev.skipped[:2]))
    st, m, c, fp = hits[0]
    args = [Poly(dict(x)) for x in fp[2]]
    if len(args) != 4 or not all(a.single() and next(iter(a.t.values())) == 1 and len(next(iter(a.t))) == 1 for a in args):
        raise core.AnalysisError("%s: the integral function is not called with four plain arguments" % LADDER_FUNC)
    arg_atoms = [next(iter(a.t))[0][0] for a in args]
    ren = dict(zip(arg_atoms, [Poly.atom(("sym", r)) for r in ("l", "alpha", "expi", "expj")]))
    pe = tc._plain_ev()
    P = Poly({tuple((a, e) for a, e in m if a is not fp): Fr(1)})
    Pm = tc.map_atoms(P, lambda a: ren.get(a), pe)
    if not Pm.single():
        raise core.AnalysisError("prefactor of the integral is not a single product")
    # only the alpha-dependent factors matter (and are shown)
    Pm = Poly({tuple((a, e) for a, e in next(iter(Pm.t)) if tc.depends_on(Poly.atom(a), ("sym", "alpha"))): Fr(1)})
    alpha = ("sym", "alpha")
    V0, V1 = ic.value(f0)[0], ic.value(f1)[0]
    if not V0.single():
        raise core.AnalysisError("the `se` integral is not a single product")
    (m0, c0), = V0.t.items()
    r1 = V1.mul_raw(pe.inv(V0))
    r2 = -(tc.dlog_mono(next(iter(Pm.t)), alpha, pe) + tc.dlog_mono(m0, alpha, pe))
    inst = "%s == -d/dalpha [prefactor * %s] / prefactor" % (f1, f0)
    try:
        same = tc.ratfun_equal(r1, r2)
    except core.AnalysisError as e:
        raise core.AnalysisError("derivative relation between %s and %s cannot be put in rational form: %s" % (f1, f0, e))
    if same:
        chk.ok("kernel-derivative", inst, detail="prefactor %s" % Pm.text()[:120])
    else:
        chk.violation("kernel-derivative", F_CONV, f1, "%s / %s" % (f1, f0), tu.line_of(tu.func(f1)),
                      "docs: k_se_r2 = r^2 exp(-a r^2) = -d/da k_se.  With the prefactor %s that %s applies to every integral, "
                      "%s/%s must equal -d/da log(prefactor * %s) = %s ; the code gives %s" % (
                          Pm.text()[:90], LADDER_FUNC, f1, f0, f0, r2.text()[:200], r1.text()[:200]), instance=inst)


def se_shape(V0):
    if not V0.single():
        return False, "not a single product: %s" % V0.text()[:120], None
    (m, c), = V0.t.items()
    pows = [(a, e) for a, e in m if a[0] == "pow"]
    fns = [(a, e) for a, e in m if a[0] == "fn"]
    rest = [(a, e) for a, e in m if a[0] not in ("pow", "fn")]
    if len(pows) != 1 or pows[0][1] != 1:
        return False, "expected one factor pow(B, -3/2 - l)", None
    if rest:
        return False, "extra factors %s" % Poly({tuple(rest): Fr(1)}).text(), pows[0][0]
    e = tc.affine_l(Poly(dict(pows[0][0][2])))
    if e != (Fr(-3, 2), Fr(-1)):
        return False, "radial exponent is %s, expected -3/2 - l" % (Poly(dict(pows[0][0][2])).text()), pows[0][0]
    g = [a for a, ex in fns if a[1] == "tgamma" and ex == 1]
    if len(g) != 1 or len(fns) != 1 or tc.affine_l(Poly(dict(g[0][2][0]))) != (Fr(3, 2), Fr(1)):
        return False, "expected exactly the factor tgamma(l + 3/2)", pows[0][0]
    if c != Fr(1, 2):
        return False, "prefactor %s, expected 1/2" % c, pows[0][0]
    return True, "", pows[0][0]


# ----------------------------------------------------------------------------------------------
# totality
# ----------------------------------------------------------------------------------------------
def rule_totality(chk, py, tus, per_fn, ic):
    # 1. allowed specs have ids and USPs
    for lst, table, tname, node in (("ALLOWED_I_SPECS_L0", py.vi, "VI_ID_MAP", py.vi_node),
                                    ("ALLOWED_I_SPECS_L1", py.vi, "VI_ID_MAP", py.vi_node),
                                    ("ALLOWED_J_SPECS", py.vj, "VJ_ID_MAP", py.vj_node),
                                    ("ALLOWED_K_SPECS", py.vj, "VJ_ID_MAP", py.vj_node)):
        for s in py.allowed[lst]:
            inst = "%s:%s has id" % (lst, s)
            if s in table:
                chk.ok("totality", inst)
            else:
                vio_at(chk, "totality", py.list_loc(lst, s),
                       "spec %r is accepted by the settings (in %s) but has no entry in %s: %s[spec] raises KeyError "
                       "when the plan is built" % (s, lst, tname, tname), inst)
            inst = "%s:%s has usp" % (lst, s)
            if s in py.usps:
                chk.ok("totality", inst, nontrivial=False)
            else:
                vio_at(chk, "totality", py.list_loc(lst, s), "spec %r is accepted (in %s) but SPEC_USPS has no entry: "
                       "get_feat_usps raises KeyError" % (s, lst), inst)
    # 2. version i: id -> contribution of the right arity -> ladder arm
    for lst, arity in (("ALLOWED_I_SPECS_L0", 0), ("ALLOWED_I_SPECS_L1", 2)):
        for s in py.allowed[lst]:
            if s not in py.vi:
                continue
            fid = py.vi[s]
            inst = "%s:%s id %s has contribution" % (lst, s, fid)
            if fid not in py.ifeat:
                vio_at(chk, "totality", py.entry_loc(PLANS, "VI_ID_MAP", py.vi_node, s),
                       "VI_ID_MAP[%r] = %s is not a key of IFEAT_ID_TO_CONTRIB: ConvolutionCollection raises "
                       "'Unrecognized feature'" % (s, fid), inst)
                continue
            cid = py.ifeat[fid]
            good = isinstance(cid, int) and not isinstance(cid, bool) if arity == 0 else (
                isinstance(cid, tuple) and len(cid) == 2 and all(isinstance(x, int) for x in cid))
            if not good:
                vio_at(chk, "totality", py.entry_loc(LCONV, "IFEAT_ID_TO_CONTRIB", py.ifeat_node, fid),
                       "spec %r is an l=%d spec (%s) but its contribution %r is %s: ConvolutionCollection sorts "
                       "contributions into scalar / (l-1, l+1) lists by this type" % (
                           s, 0 if arity == 0 else 1, lst, cid, "not a single id" if arity == 0 else "not a pair"), inst)
                continue
            chk.ok("totality", inst)
            for c in ([cid] if arity == 0 else list(cid)):
                inst = "contribution %s (spec %s) has a ladder arm" % (c, s)
                if c in ic.ladder:
                    chk.ok("totality", inst)
                else:
                    vio_at(chk, "totality", py.entry_loc(LCONV, "IFEAT_ID_TO_CONTRIB", py.ifeat_node, fid),
                           "contribution id %s (spec %r) has no `featid == %s` arm in %s: the C code prints "
                           "'Unsupported featid' and exits" % (c, s, c, LADDER_FUNC), inst)
    for g in ic.ladder_falls:
        chk.violation("totality", F_CONV, LADDER_FUNC, "case %s:" % g["values"], tus[C_CONV].line_of(g["node"]),
                      "case %s of the feature-id switch falls through into the next case, which overwrites the integral "
                      "function" % g["values"], instance="ladder case %s ends in break" % g["values"])
    # 3. version j/k: id has a case in both layouts, no fall-through
    for f, (cases, has_default, ev) in sorted(per_fn.items()):
        for lst in ("ALLOWED_J_SPECS", "ALLOWED_K_SPECS"):
            for s in py.allowed[lst]:
                if s not in py.vj:
                    continue
                v = py.vj[s]
                inst = "%s:%s id %s has case in %s" % (lst, s, v, f)
                if v not in cases:
                    vio_at(chk, "totality", py.entry_loc(PLANS, "VJ_ID_MAP", py.vj_node, s),
                           "VJ_ID_MAP[%r] = %s has no case in %s: the switch falls to 'INTERNAL CIDER ERROR' and the "
                           "coefficients stay uninitialised" % (s, v, f), inst)
                else:
                    chk.ok("totality", inst)
        for v, c in sorted(cases.items()):
            inst = "case %s of %s ends in break" % (v, f)
            if c["breaks"]:
                chk.ok("totality", inst, nontrivial=False)
            else:
                chk.violation("totality", F_COEFS, f, "case %s:" % c["label"], c["line"],
                              "case %s (%s) falls through into the next case, which overwrites its coefficients" % (
                                  c["label"], v), instance=inst)


def rule_ueg(chk, py):
    """every class that validates self.<attr> against ALLOWED_X has, in its ueg_vector (or the ones it
    delegates to), a spec ladder over self.<attr> with a branch for every allowed spec."""
    prog = pf.Program(chk.tree, [SETTINGS])
    mod = prog.module(SETTINGS)
    n_lad = 0
    for cname, cls in mod.classes.items():
        init = pf.methods(cls).get("__init__")
        if init is None:
            continue
        checks = []
        for n in pf.walk_no_nested(init):
            if isinstance(n, ast.Call) and pf.call_name(n) in ("self._check_specs",) and len(n.args) == 2 \
                    and pf.is_self_attr(n.args[0]) and isinstance(n.args[1], ast.Name):
                checks.append((n.args[0].attr, n.args[1].id, n))
        if not checks:
            continue
        r = prog.find_method(mod, cls, "ueg_vector")
        if r is None:
            raise core.AnalysisError("%s validates specs but has no ueg_vector" % cname)
        fns = [(r[1].name, r[2])]
        # delegation: Other.ueg_vector(self, ...)
        for n in pf.walk_no_nested(r[2]):
            if isinstance(n, ast.Call) and isinstance(n.func, ast.Attribute) and n.func.attr == "ueg_vector" \
                    and isinstance(n.func.value, ast.Name) and n.func.value.id in mod.classes and n.args \
                    and pf.src(n.args[0]) == "self":
                oc = mod.classes[n.func.value.id]
                m2 = pf.methods(oc).get("ueg_vector")
                if m2 is not None:
                    fns.append((oc.name, m2))
        for attr, lstname, call in checks:
            if lstname not in py.allowed:
                raise core.AnalysisError("%s.__init__ validates against unknown list %s" % (cname, lstname))
            lad = None
            for owner, fn in fns:
                lad = lad or find_spec_ladder(fn, attr)
                if lad:
                    lad_owner = owner
                    break
            if lad is None:
                chk.note("totality", "%s.%s" % (cname, attr), "ueg_vector has no per-spec ladder over self.%s "
                         "(vector features vanish for the uniform gas)" % attr)
                continue
            n_lad += 1
            keys, orelse, node = lad
            raises = orelse is not None and any(isinstance(x, ast.Raise) for s in orelse for x in ast.walk(s))
            for s in py.allowed[lstname]:
                inst = "%s.ueg_vector[%s] has branch %r (ladder in %s)" % (cname, attr, s, lad_owner)
                if s in keys:
                    chk.ok("totality", inst)
                elif raises or orelse is None:
                    chk.violation("totality", SETTINGS, "%s.ueg_vector" % lad_owner, "ladder over self.%s: %s" % (attr, keys),
                                  node.lineno, "spec %r is allowed for %s.%s (%s) but the ueg_vector ladder has no branch "
                                  "for it and %s" % (s, cname, attr, lstname,
                                                     "raises in its else" if raises else "silently leaves the integral unscaled"),
                                  instance=inst)
                else:
                    chk.note("totality", inst, "no branch, but the ladder has a non-raising default")
    chk.count("ueg ladders", n_lad)


def find_spec_ladder(fn, attr):
    """for <var>[, ...] in <self.attr | zip(self.attr, ...)>: if var == 'a': ... elif ...: else: ...
    -> (literals, else body or None, first If node)"""
    for loop in pf.walk_no_nested(fn):
        if not isinstance(loop, ast.For):
            continue
        it, tg = loop.iter, loop.target
        var = None
        if pf.is_self_attr(it, attr) and isinstance(tg, ast.Name):
            var = tg.id
        elif isinstance(it, ast.Call) and pf.call_name(it) == "zip" and isinstance(tg, ast.Tuple):
            for a, t in zip(it.args, tg.elts):
                if pf.is_self_attr(a, attr) and isinstance(t, ast.Name):
                    var = t.id
        if var is None:
            continue
        for st in ast.walk(loop):
            if isinstance(st, ast.If) and st not in getattr(pf.parent(st), "orelse", []):
                keys, cur = [], st
                good = True
                while True:
                    t = cur.test
                    ks = _eq_strs(t, var)
                    if ks is None:
                        good = False
                        break
                    keys += ks
                    if len(cur.orelse) == 1 and isinstance(cur.orelse[0], ast.If):
                        cur = cur.orelse[0]
                        continue
                    break
                if good and len(keys) >= 2:
                    return keys, (cur.orelse or None), st
    return None


def _eq_strs(t, var):
    if isinstance(t, ast.BoolOp) and isinstance(t.op, ast.Or):
        out = []
        for v in t.values:
            r = _eq_strs(v, var)
            if r is None:
                return None
            out += r
        return out
    if isinstance(t, ast.Compare) and len(t.ops) == 1 and isinstance(t.left, ast.Name) and t.left.id == var:
        c = t.comparators[0]
        if isinstance(t.ops[0], ast.Eq) and isinstance(c, ast.Constant) and isinstance(c.value, str):
            return [c.value]
        if isinstance(t.ops[0], ast.In) and isinstance(c, (ast.List, ast.Tuple, ast.Set)) \
                and all(isinstance(e, ast.Constant) and isinstance(e.value, str) for e in c.elts):
            return [e.value for e in c.elts]
    return None


# ----------------------------------------------------------------------------------------------
# inverse pairs: exponent <-> ladder index <-> spline knot index
# ----------------------------------------------------------------------------------------------
SPLINE_CLASS = "NLDFSplinePlan"
C_IND_FILE = C_COEFS


def _formula_branches(fn, attr="alpha_formula"):
    """`if self.<attr> == "k": A  [elif ...]  else: B` at the top level of fn -> [(key|'else', [stmts])]"""
    for st in fn.body:
        if isinstance(st, ast.If) and isinstance(st.test, ast.Compare) and pf.is_self_attr(st.test.left, attr) \
                and len(st.test.ops) == 1 and isinstance(st.test.ops[0], ast.Eq) \
                and isinstance(st.test.comparators[0], ast.Constant):
            out, cur = [], st
            while True:
                out.append((cur.test.comparators[0].value, cur.body))
                if len(cur.orelse) == 1 and isinstance(cur.orelse[0], ast.If) and isinstance(cur.orelse[0].test, ast.Compare) \
                        and pf.is_self_attr(cur.orelse[0].test.left, attr):
                    cur = cur.orelse[0]
                    continue
                if cur.orelse:
                    out.append(("else", cur.orelse))
                return out
    return None


def rule_inverse_pairs(chk, tus):
    prog = pf.Program(chk.tree, [PLANS])
    mod = prog.module(PLANS)
    cls = mod.cls(SPLINE_CLASS)
    setup = prog.find_method(mod, cls, "_run_setup")
    a2q = prog.find_method(mod, cls, "get_a2q_fast")
    q2a = prog.find_method(mod, cls, "get_q2a")
    if not (setup and a2q and q2a):
        raise core.AnalysisError("%s: _run_setup / get_a2q_fast / get_q2a not found" % SPLINE_CLASS)
    setup, a2q, q2a = setup[2], a2q[2], q2a[2]
    # ---- 1. knot layout  <->  index scaling -------------------------------------------------------
    K = Poly.atom(("sym", "<knot index>"))
    names, count = {}, None
    for n in pf.walk_no_nested(setup):
        if isinstance(n, ast.Assign) and len(n.targets) == 1 and isinstance(n.targets[0], ast.Name):
            v = n.value
            while isinstance(v, ast.Call) and isinstance(v.func, ast.Attribute) and v.func.attr in ("astype", "copy"):
                v = v.func.value
            cn = (pf.call_name(v) or "").split(".")[-1] if isinstance(v, ast.Call) else None
            pp0 = tc.PyPoly(setup, factor_sums=True)
            if cn == "arange" and 1 <= len(v.args) <= 2:
                lo = pp0.poly(v.args[0]) if len(v.args) == 2 else Poly()
                if lo == Poly():
                    names[n.targets[0].id] = K
                    count = pp0.poly(v.args[-1])
            elif cn == "linspace" and len(v.args) == 3 and pp0.poly(v.args[0]) == Poly():
                count = pp0.poly(v.args[2])
                names[n.targets[0].id] = pp0.ev.mul(K, pp0.ev.mul(pp0.poly(v.args[1]), pp0.ev.inv(count - Poly.const(1))))
    if not names or count is None:
        raise core.AnalysisError("%s._run_setup: the array of knot indices (np.arange / np.linspace) was not found" % SPLINE_CLASS)
    pp = tc.PyPoly(setup, names, factor_sums=True)
    f1s = []
    for n in pf.walk_no_nested(setup):
        if isinstance(n, ast.Call) and isinstance(n.func, ast.Attribute) and n.func.attr == "get_q2a" and n.args:
            e = pp.poly(n.args[0])
            if K.atoms() <= e.atoms():
                f1s.append((e, n))
    if len(f1s) != 1:
        raise core.AnalysisError("%s._run_setup: expected one get_q2a(<knot index> * scale) call, found %d" % (SPLINE_CLASS, len(f1s)))
    e, node1 = f1s[0]
    f1 = pp.ev.mul(e, pp.ev.inv(K))
    if K.atoms() & f1.atoms():
        raise core.AnalysisError("%s._run_setup: ladder index of a knot is not proportional to the knot index: %s" % (SPLINE_CLASS, e.text()))
    # the C call in get_a2q_fast and its output arrays
    ccall, cfuncs = None, {}
    br = _formula_branches(a2q)
    for n in pf.walk_no_nested(a2q):
        if isinstance(n, ast.Call) and isinstance(n.func, ast.Name):
            tgt = {}
            for key, body in (br or []):
                for st in body:
                    if isinstance(st, ast.Assign) and len(st.targets) == 1 and isinstance(st.targets[0], ast.Name) \
                            and st.targets[0].id == n.func.id and _lib_func(st.value):
                        tgt[key] = _lib_func(st.value)
            if tgt:
                ccall, cfuncs = n, tgt
    if ccall is None:
        raise core.AnalysisError("%s.get_a2q_fast: the `fn = libcider.cider_ind_*` dispatch on alpha_formula was not found" % SPLINE_CLASS)

    def arr_name(a):
        x = a
        while isinstance(x, (ast.Call, ast.Attribute)):
            x = x.func if isinstance(x, ast.Call) else x.value
        return x.id if isinstance(x, ast.Name) else None

    outs = [arr_name(a) for a in ccall.args[:2]]
    inp = [a.arg for a in a2q.args.args if a.arg != "self"]
    if None in outs or not inp:
        raise core.AnalysisError("%s.get_a2q_fast: output arrays of the index routine not recognised" % SPLINE_CLASS)
    pa = tc.PyPoly(a2q, factor_sums=True)
    fac = {outs[0]: Poly.const(1), outs[1]: Poly.const(1)}
    fnode = {}
    for n in pf.walk_no_nested(a2q):
        if isinstance(n, ast.AugAssign) and pf.base_name(n.target) in fac:
            nm = pf.base_name(n.target)
            v = pa.poly(n.value)
            if isinstance(n.op, ast.Mult):
                fac[nm] = pa.ev.mul(fac[nm], v)
            elif isinstance(n.op, ast.Div):
                fac[nm] = pa.ev.mul(fac[nm], pa.ev.inv(v))
            else:
                raise core.AnalysisError("%s.get_a2q_fast: %s is shifted, not scaled" % (SPLINE_CLASS, nm))
            fnode[nm] = n
    f2, f2d = fac[outs[0]], fac[outs[1]]
    inst = "knot layout %s  x  index scaling %s" % (f1.text(), f2.text())
    loc_node = fnode.get(outs[0], a2q)
    if pa.ev.mul(f1, f2) == Poly.const(1):
        chk.ok("inverse-pair", inst)
    else:
        chk.violation("inverse-pair", PLANS, "%s.get_a2q_fast" % SPLINE_CLASS,
                      pf.src(loc_node)[:120] if outs[0] in fnode else "%s is not rescaled" % outs[0], loc_node.lineno,
                      "_run_setup places knot k at ladder index k * %s (`%s`), so a ladder index must be multiplied by the "
                      "reciprocal to give a knot index; get_a2q_fast multiplies by %s (product %s, must be 1)" % (
                          f1.text(), pf.src(node1)[:80], f2.text(), pa.ev.mul(f1, f2).text()), instance=inst)
    inst = "index and its derivative scaled alike (%s)" % f2.text()
    if f2 == f2d:
        chk.ok("inverse-pair", inst)
    else:
        n_ = fnode.get(outs[1], a2q)
        chk.violation("inverse-pair", PLANS, "%s.get_a2q_fast" % SPLINE_CLASS,
                      pf.src(n_)[:120] if outs[1] in fnode else "%s is not rescaled" % outs[1], n_.lineno,
                      "the knot index is scaled by %s but its derivative with respect to the exponent by %s" % (
                          f2.text(), f2d.text()), instance=inst)
    # clip bound = last knot index
    clips = [n for n in pf.walk_no_nested(a2q) if isinstance(n, ast.Call) and _lib_func(n.func) and "clip" in _lib_func(n.func)]
    for cl in clips:
        # the bound is in knot units: the clip acts on the index after it has been converted to knot units
        late = [nd for nd in fnode.values() if nd.lineno > cl.lineno]
        inst = "clip to the last knot acts on the knot index (after the ladder -> knot rescale)"
        if late and f2 != Poly.const(1):
            chk.violation("inverse-pair", PLANS, "%s.get_a2q_fast" % SPLINE_CLASS, pf.src(late[0])[:120], late[0].lineno,
                          "the index is clipped to the last knot (%s) BEFORE it is converted from ladder units to knot units "
                          "(factor %s): the bound is applied to a ladder index, and the rescaled index can exceed the last "
                          "knot (or large exponents are cut off too early)" % (pf.src(cl.args[2])[:40] if len(cl.args) > 2 else "?",
                                                                              f2.text()), instance=inst)
        else:
            chk.ok("inverse-pair", inst)
        ints = [a.args[0] for a in cl.args if isinstance(a, ast.Call) and (pf.call_name(a) or "").endswith("c_int") and a.args]
        if len(ints) < 1:
            raise core.AnalysisError("%s.get_a2q_fast: upper bound of the clip not recognised" % SPLINE_CLASS)
        bound = pa.poly(ints[0])
        inst = "clip bound %s == knot count - 1" % bound.text()
        if bound == count - Poly.const(1):
            chk.ok("inverse-pair", inst)
        else:
            chk.violation("inverse-pair", PLANS, "%s.get_a2q_fast" % SPLINE_CLASS, pf.src(cl)[:120], cl.lineno,
                          "knot indices run from 0 to %s (there are %s knots) but the index is clipped to %s" % (
                              (count - Poly.const(1)).text(), count.text(), bound.text()), instance=inst)
    # ---- 2. q -> alpha (python)  o  alpha -> q (C)  ==  identity ----------------------------------
    qb = _formula_branches(q2a)
    if not qb:
        raise core.AnalysisError("get_q2a: no dispatch on self.alpha_formula")
    qparam = [a.arg for a in q2a.args.args if a.arg != "self"][0]
    q = Poly.atom(("sym", "<q>"))
    tu = tus[C_IND_FILE]
    for key, body in qb:
        if key not in cfuncs:
            raise core.AnalysisError("get_q2a has a branch %r that get_a2q_fast does not dispatch on" % (key,))
        rets = [x for st in body for x in ast.walk(st) if isinstance(x, ast.Return)]
        if len(rets) != 1:
            raise core.AnalysisError("get_q2a[%s]: expected one return" % key)
        val = rets[0].value
        if isinstance(val, ast.Name):
            defs = [st.value for st in body if isinstance(st, ast.Assign) and len(st.targets) == 1
                    and isinstance(st.targets[0], ast.Name) and st.targets[0].id == val.id]
            if len(defs) != 1:
                raise core.AnalysisError("get_q2a[%s]: %s has no single definition" % (key, val.id))
            val = defs[0]
        pq = tc.PyPoly(None, {qparam: q}).poly(val)
        cname = cfuncs[key]
        ps = tu.params(cname)
        if len(ps) != len(ccall.args):
            raise core.AnalysisError("%s takes %d parameters, python passes %d" % (cname, len(ps), len(ccall.args)))
        roles = {}
        for i, (p_, a) in enumerate(zip(ps, ccall.args)):
            nm = arr_name(a)
            if isinstance(a, ast.Call) and (pf.call_name(a) or "").endswith(("c_double", "c_int")) and a.args \
                    and pf.is_self_attr(a.args[0]):
                roles[p_["id"]] = a.args[0].attr.lstrip("_")
            elif nm == inp[0]:
                roles[p_["id"]] = "EXPNT"
            elif nm in outs:
                roles[p_["id"]] = "OUT%d" % outs.index(nm)
            else:
                roles[p_["id"]] = "arg%d" % i
        ev = tc.Ev(tu)
        ev.inline_calls = True
        env = tc.new_env(roles)
        env["elem_values"] = {"EXPNT": pq}
        ev.block(tu.body(cname), env)
        got = [st["value"] for st in env["stores"] if st["root"] == "OUT0"]
        inst = "alpha_formula %r: %s(q -> %s) == q" % (key, cname, pq.text())
        if not got:
            raise core.AnalysisError("%s stores nothing into its first array" % cname)
        if got[-1] == q:
            chk.ok("inverse-pair", inst)
        else:
            chk.violation("inverse-pair", cfacts.LIB + "/" + C_IND_FILE, cname, "index of alpha(q)", tu.line_of(tu.func(cname)),
                          "get_q2a[%s] builds the exponent ladder as alpha(q) = %s, but %s maps that exponent to the index %s "
                          "instead of q: exponents are interpolated at the wrong place of the ladder" % (
                              key, pq.text(), cname, got[-1].text()[:160]), instance=inst)


# ----------------------------------------------------------------------------------------------
# result-used: the value of a pure-result function is not thrown away
# ----------------------------------------------------------------------------------------------
RESULT_FILES = [PLANS, LCONV, "ciderpress/dft/lcao_interpolation.py", "ciderpress/dft/lcao_nldf_generator.py",
                "ciderpress/pyscf/nldf_convolutions.py", "ciderpress/pyscf/sdmx.py", SETTINGS]
INPLACE_FUNCS = {"copyto", "put", "place", "fill_diagonal", "putmask", "at", "shuffle"}
INPLACE_METHODS = {"fill", "sort", "resize", "itemset", "setfield", "append", "extend", "update", "insert", "pop",
                   "remove", "clear", "add", "setdefault", "partition", "byteswap"}


def _writes_params(G):
    """does the function visibly change an argument in place (stores, augmented assignments, mutating methods,
    out=, numpy in-place routines, foreign calls)?"""
    params = {a.arg for a in G.args.args + G.args.kwonlyargs}
    alias = set(params)
    for x in pf.walk_no_nested(G):
        if isinstance(x, ast.Assign) and len(x.targets) == 1 and isinstance(x.targets[0], ast.Name) \
                and pf.base_name(x.value) in alias and isinstance(x.value, (ast.Name, ast.Subscript, ast.Attribute)):
            alias.add(x.targets[0].id)
    for x in pf.walk_no_nested(G):
        if isinstance(x, (ast.Subscript, ast.Attribute)) and isinstance(x.ctx, ast.Store) and pf.base_name(x) in alias:
            return True
        if isinstance(x, ast.AugAssign) and pf.base_name(x.target) in alias:
            return True
        if isinstance(x, ast.Call):
            nm = pf.call_name(x) or ""
            if isinstance(x.func, ast.Attribute) and x.func.attr in INPLACE_METHODS and pf.base_name(x.func.value) in alias:
                return True
            if nm.split(".")[-1] in INPLACE_FUNCS and x.args and pf.base_name(x.args[0]) in alias:
                return True
            if any(k.arg == "out" and pf.base_name(k.value) in alias for k in x.keywords):
                return True
            if _lib_func(x.func) or (isinstance(x.func, ast.Name) and x.func.id in ("fn", "func")):
                return True  # foreign (ctypes) call: assume it writes through its pointers
    return False


def rule_result_used(chk):
    """`f(x, y)` as a statement, f a module-level function of the same file that returns a value on every return and
    does not visibly modify its arguments: the computed result is lost (`_stable_solve(a, b, overwrite_b=True)` relies
    on an optimisation hint, not on a contract, to find the solution in b)."""
    n = 0
    for rel in RESULT_FILES:
        if not chk.tree.exists(rel):
            continue
        mod = chk.tree.py(rel)
        top = {f.name: f for f in mod.body if isinstance(f, ast.FunctionDef)}
        for st in ast.walk(mod):
            if not (isinstance(st, ast.Expr) and isinstance(st.value, ast.Call) and isinstance(st.value.func, ast.Name)
                    and st.value.func.id in top):
                continue
            G = top[st.value.func.id]
            n += 1
            fn = pf.enclosing_func(st)
            where = pf.qualname(fn) if fn else "<module>"
            inst = "%s:%s `%s`" % (rel, where, pf.src(st)[:70])
            rets = [r for r in pf.walk_no_nested(G) if isinstance(r, ast.Return)]
            valued = [r for r in rets if r.value is not None and not (isinstance(r.value, ast.Constant) and r.value.value is None)]
            if not valued or len(valued) != len(rets):
                chk.ok("result-used", inst + " (procedure)", nontrivial=False)
            elif _writes_params(G) or any(isinstance(x, (ast.Global, ast.Nonlocal)) for x in pf.walk_no_nested(G)) or \
                    any(isinstance(x, (ast.Yield, ast.YieldFrom)) for x in pf.walk_no_nested(G)):
                chk.ok("result-used", inst + " (works in place)")
            else:
                chk.violation("result-used", rel, where, pf.src(st)[:140], st.lineno,
                              "%s returns its result (`%s`) and does not modify its arguments, but the call is a statement: "
                              "the result is discarded and the caller continues with the unchanged input" % (
                                  G.name, pf.src(valued[-1])[:80]), instance=inst)
    chk.count("call statements to same-module functions", n)


# ----------------------------------------------------------------------------------------------
# symmetric-operand: what is handed to a triangle-reading factorisation is a symmetric matrix
# ----------------------------------------------------------------------------------------------
SYM_CONSUMERS = {"cholesky", "cho_factor", "eigh", "eigvalsh"}
SYM_FILES = [PLANS]


def _element_exprs(e, fn, depth=0):
    """expressions that can be an element of list expression e (None = unknown source)"""
    if depth > 6:
        return None
    if isinstance(e, (ast.List, ast.Tuple)):
        return list(e.elts)
    if isinstance(e, ast.ListComp) and len(e.generators) == 1:
        g = e.generators[0]
        if isinstance(e.elt, ast.Name) and isinstance(g.target, ast.Name) and e.elt.id == g.target.id:
            return _element_exprs(g.iter, fn, depth + 1)
        return [e.elt]
    if isinstance(e, ast.BinOp) and isinstance(e.op, ast.Add):
        a, b = _element_exprs(e.left, fn, depth + 1), _element_exprs(e.right, fn, depth + 1)
        return None if a is None or b is None else a + b
    if isinstance(e, ast.Call) and pf.call_name(e) in ("list", "tuple") and len(e.args) == 1:
        return _element_exprs(e.args[0], fn, depth + 1)
    if isinstance(e, ast.Name):
        if e.id in {a.arg for a in fn.args.args + fn.args.kwonlyargs}:
            return None
        out, found = [], False
        for n in pf.walk_no_nested(fn):
            src = None
            if isinstance(n, ast.Assign) and len(n.targets) == 1 and isinstance(n.targets[0], ast.Name) and n.targets[0].id == e.id:
                src = _element_exprs(n.value, fn, depth + 1)
            elif isinstance(n, ast.AugAssign) and isinstance(n.target, ast.Name) and n.target.id == e.id and isinstance(n.op, ast.Add):
                src = _element_exprs(n.value, fn, depth + 1)
            elif isinstance(n, ast.Call) and isinstance(n.func, ast.Attribute) and n.func.attr == "append" \
                    and isinstance(n.func.value, ast.Name) and n.func.value.id == e.id and len(n.args) == 1:
                src = [n.args[0]]
            else:
                continue
            found = True
            if src is None:
                return None
            out += src
        return out if found else None
    return None


def _operand_exprs(arg, call, fn):
    """matrix expressions that can reach `arg` of a factorisation call"""
    if isinstance(arg, ast.Name):
        # loop / comprehension variable?
        cur = call
        while cur is not None and cur is not fn:
            par = pf.parent(cur)
            if isinstance(par, ast.ListComp):
                for g in par.generators:
                    if isinstance(g.target, ast.Name) and g.target.id == arg.id:
                        return _element_exprs(g.iter, fn)
            if isinstance(par, ast.For) and isinstance(par.target, ast.Name) and par.target.id == arg.id:
                return _element_exprs(par.iter, fn)
            cur = par
        if arg.id in {a.arg for a in fn.args.args + fn.args.kwonlyargs}:
            return None
        defs = [n.value for n in pf.walk_no_nested(fn) if isinstance(n, ast.Assign) and len(n.targets) == 1
                and isinstance(n.targets[0], ast.Name) and n.targets[0].id == arg.id]
        out = []
        for d in defs:
            if isinstance(d, ast.Name):
                sub = _operand_exprs(d, call, fn)
                if sub is None:
                    return None
                out += sub
            else:
                out.append(d)
        return out or None
    return [arg]


def _symmetry(expr, fn, top):
    """True / False / None(undecided): is the matrix built by `expr` equal to its transpose?  Vectors v, v[None, :]
    (row broadcast) and v[:, None] (column broadcast) are the generators; the expression (module-level helper
    functions inlined, element-wise arithmetic only) is symmetric iff swapping row and column broadcasts of every
    vector leaves its normal form unchanged."""
    pp = tc.PyPoly(fn)
    pp.matrix_axes = True
    pp.module_funcs = top
    try:
        p = pp.poly(expr)
    except core.AnalysisError:
        return None, None
    vecs = set()

    def all_atoms(q, acc):
        for a in q.atoms():
            acc.add(a)
            k = a[0]
            if k in ("sum", "guard"):
                all_atoms(Poly(dict(a[1])), acc)
            elif k == "pow":
                all_atoms(Poly(dict(a[1])), acc)
                all_atoms(Poly(dict(a[2])), acc)
            elif k == "fn":
                for x in a[2]:
                    all_atoms(Poly(dict(x)), acc)
        return acc

    atoms = all_atoms(p, set())
    for a in atoms:
        if a[0] == "sym" and str(a[1]).startswith(("COL:", "ROW:")):
            vecs.add(str(a[1])[4:])
    if not vecs:
        return None, p
    pe = tc._plain_ev()
    # a vector used bare next to its column broadcast is the row broadcast
    p = tc.map_atoms(p, lambda a: Poly.atom(("sym", "ROW:" + a[1])) if a[0] == "sym" and a[1] in vecs else None, pe)

    def swap(a):
        if a[0] == "sym" and str(a[1]).startswith("ROW:"):
            return Poly.atom(("sym", "COL:" + a[1][4:]))
        if a[0] == "sym" and str(a[1]).startswith("COL:"):
            return Poly.atom(("sym", "ROW:" + a[1][4:]))
        return None
    return tc.map_atoms(p, swap, pe) == p, p


def rule_symmetric_operand(chk):
    n = 0
    for rel in SYM_FILES:
        mod = chk.tree.py(rel)
        top = {f.name: f for f in mod.body if isinstance(f, ast.FunctionDef)}
        for call in ast.walk(mod):
            if not isinstance(call, ast.Call) or not call.args:
                continue
            nm = (pf.call_name(call) or "").split(".")[-1]
            if nm not in SYM_CONSUMERS:
                continue
            fn = pf.enclosing_func(call)
            if fn is None:
                continue
            where = pf.qualname(fn)
            exprs = _operand_exprs(call.args[0], call, fn)
            if exprs is None:
                chk.note("symmetric-operand", "%s:%s" % (rel, where), "operand of %s comes from outside the function; not followed" % nm)
                continue
            for e in exprs:
                sym, p = _symmetry(e, fn, top)
                inst = "%s:%s %s(%s)" % (rel, where, nm, pf.src(e)[:80])
                if sym is None:
                    chk.note("symmetric-operand", inst, "matrix expression outside the element-wise fragment; not decided")
                    continue
                n += 1
                if sym:
                    chk.ok("symmetric-operand", inst)
                else:
                    chk.violation("symmetric-operand", rel, where, pf.src(e)[:140], e.lineno,
                                  "this matrix is handed to %s, which reads one triangle and assumes the other is its mirror "
                                  "image, but the expression is not symmetric under exchange of row and column index: %s" % (
                                      nm, p.text()[:160]), instance=inst)
    chk.count("factorisation operands decided", n)


# ----------------------------------------------------------------------------------------------
# dispatch-siblings: fast and reference generators dispatch on the same settings attributes
# ----------------------------------------------------------------------------------------------
SIBLING_FILES = ["ciderpress/pyscf/sdmx.py", "ciderpress/pyscf/sdmx_slow.py"]


def _settings_reads(fn):
    """names of settings attributes a function reads: <x>.settings.<a>, <s>.<a> with s bound to a settings object
    (s = <x>.settings, or a tuple element called settings), getattr(<settings>, "<a>"[, default])"""
    svars = set()
    for n in pf.walk_no_nested(fn):
        if isinstance(n, ast.Assign):
            for t in n.targets:
                if isinstance(t, ast.Name) and isinstance(n.value, ast.Attribute) and n.value.attr == "settings":
                    svars.add(t.id)
                if isinstance(t, ast.Tuple):
                    for e in t.elts:
                        if isinstance(e, ast.Name) and e.id == "settings":
                            svars.add(e.id)
    for a in fn.args.args + fn.args.kwonlyargs:
        if a.arg == "settings":
            svars.add(a.arg)

    def is_settings(e):
        return (isinstance(e, ast.Attribute) and e.attr == "settings") or (isinstance(e, ast.Name) and e.id in svars)

    out = {}
    for n in pf.walk_no_nested(fn):
        if isinstance(n, ast.Attribute) and isinstance(n.ctx, ast.Load) and is_settings(n.value):
            out.setdefault(n.attr, n)
        if isinstance(n, ast.Call) and pf.call_name(n) in ("getattr", "hasattr") and len(n.args) >= 2 and is_settings(n.args[0]) \
                and isinstance(n.args[1], ast.Constant) and isinstance(n.args[1].value, str):
            out.setdefault(n.args[1].value, n)
    return out


def rule_dispatch_siblings(chk):
    """functions of sdmx.py / sdmx_slow.py that select among the same C kernels (getattr(libcider, "SDMXcontract_*"))
    are implementations of one dispatch: a settings attribute that one of them reads in order to choose (or refuse)
    must be read by every other one -- otherwise that implementation silently ignores the option."""
    disp = []  # (rel, fn, kernels, settings reads)
    for rel in SIBLING_FILES:
        mod = chk.tree.py(rel)
        top = {f.name: f for f in mod.body if isinstance(f, ast.FunctionDef)}

        def calls(f):
            return {pf.call_name(n) for n in pf.walk_no_nested(f) if isinstance(n, ast.Call) and pf.call_name(n) in top}

        for fn in ast.walk(mod):
            if not isinstance(fn, ast.FunctionDef):
                continue
            kernels = set()
            for n in pf.walk_no_nested(fn):
                if isinstance(n, ast.Assign) and _lib_func(n.value):
                    kernels.add(_lib_func(n.value))
            if len(kernels) < 2:
                continue
            # the unit of dispatch is the public function: a private kernel selector belongs to the function(s)
            # calling it, and the private helpers a public function calls (plan unpacking ...) belong to it too
            owners = [fn]
            if fn.name.startswith("_") and fn.name in top:
                ups = [f for f in top.values() if fn.name in calls(f)]
                if ups:
                    owners = ups
            for owner in owners:
                reads = dict(_settings_reads(owner))
                members = {owner.name, fn.name} | {c for c in calls(owner) if c.startswith("_")}
                for c in sorted(members):
                    if c in top and top[c] is not owner:
                        for a, node in _settings_reads(top[c]).items():
                            reads.setdefault(a, node)
                disp.append((rel, owner, kernels, reads))
    if len({d[0] for d in disp}) < 2:
        raise core.AnalysisError("kernel dispatchers not found in both %s" % SIBLING_FILES)
    n = 0
    for i, (rel, fn, kernels, reads) in enumerate(disp):
        sibs = [d for j, d in enumerate(disp) if j != i and len(d[2] & kernels) >= 2]
        if not sibs:
            continue
        want = {}
        for srel, sfn, sk, sr in sibs:
            for a, node in sr.items():
                want.setdefault(a, (srel, sfn.name))
        for a, (srel, sname) in sorted(want.items()):
            n += 1
            inst = "%s:%s reads settings.%s (as %s:%s does)" % (rel, fn.name, a, srel, sname)
            if a in reads:
                chk.ok("dispatch-siblings", inst)
            else:
                chk.violation("dispatch-siblings", rel, fn.name, "settings.%s is never read" % a, fn.lineno,
                              "%s selects among the kernels %s like %s:%s, which also consults settings.%s to choose or to "
                              "refuse; %s never looks at it, so a settings object with a non-default %s is silently evaluated "
                              "with the kernel of the default" % (fn.name, sorted(kernels & sibs[0][2])[:3], srel, sname, a,
                                                                fn.name, a), instance=inst)
    chk.count("sibling dispatch attributes", n)


# ----------------------------------------------------------------------------------------------
# expnt-kind: the quantity multiplied into the density for rho_mult='expnt' is the exponent in every plan class
# ----------------------------------------------------------------------------------------------
EXP_SOURCES = {"eval_feat_exp"}          # returns (exponent, derivatives)
INDEX_MAKERS = {"get_a2q_fast", "get_a2q"}  # exponent -> (fractional) ladder / knot index  (see inverse-pair)


def _ret_kinds(prog, mod, cls, mname, seen=None):
    """kinds {'EXP', 'INDEX', '?'} of the FIRST element returned by cls.mname (resolved through the MRO)"""
    seen = seen or set()
    if (cls.name, mname) in seen:
        return set()
    seen = seen | {(cls.name, mname)}
    if mname in EXP_SOURCES:
        return {"EXP"}
    if mname in INDEX_MAKERS:
        return {"INDEX"}
    r = prog.find_method(mod, cls, mname)
    if r is None:
        return {"?"}
    fn = r[2]

    def first(e):
        return e.elts[0] if isinstance(e, ast.Tuple) and e.elts else e

    def kind(e, depth=0):
        e = first(e)
        if isinstance(e, ast.Call) and isinstance(e.func, ast.Attribute) and pf.src(e.func.value) == "self":
            return _ret_kinds(prog, mod, cls, e.func.attr, seen)
        if isinstance(e, ast.Name) and depth < 5:
            out = set()
            for n in pf.walk_no_nested(fn):
                if isinstance(n, ast.Assign) and len(n.targets) == 1:
                    t = n.targets[0]
                    if isinstance(t, ast.Name) and t.id == e.id:
                        out |= kind(n.value, depth + 1)
                    elif isinstance(t, ast.Tuple) and t.elts and isinstance(t.elts[0], ast.Name) and t.elts[0].id == e.id:
                        out |= kind(n.value, depth + 1)
                    elif isinstance(t, ast.Tuple) and any(isinstance(x, ast.Name) and x.id == e.id for x in t.elts[1:]):
                        out |= {"?"}
            return out or {"?"}
        return {"?"}

    out = set()
    for n in pf.walk_no_nested(fn):
        if isinstance(n, ast.Return) and n.value is not None:
            out |= kind(n.value)
    if all(isinstance(x, ast.Pass) or (isinstance(x, ast.Expr) and isinstance(x.value, ast.Constant)) for x in fn.body):
        return set()  # abstract stub
    return out or {"?"}


def rule_expnt_kind(chk):
    """docs (ALLOWED_RHO_MULTS): 'expnt' multiplies the density by the NLDF exponent.  get_function_to_convolve is
    inherited by every plan class; the method it calls on `self` for that factor is resolved per concrete class: in
    none of them may it return an exponent that went through the exponent -> index conversion."""
    prog = pf.Program(chk.tree, [PLANS])
    mod = prog.module(PLANS)
    base = None
    for m, c in prog.all_classes():
        if "get_function_to_convolve" in pf.methods(c):
            base = c
    if base is None:
        raise core.AnalysisError("get_function_to_convolve vanished from plans.py")
    fn = pf.methods(base)["get_function_to_convolve"]
    calls = []
    for n in pf.walk_no_nested(fn):
        if isinstance(n, ast.Assign) and isinstance(n.value, ast.Call) and isinstance(n.value.func, ast.Attribute) \
                and pf.src(n.value.func.value) == "self" and isinstance(n.targets[0], ast.Tuple):
            conds = [pf.src(t) for t, pol, _ in __import__("sa.cfg", fromlist=["x"]).conditions_at(n) if pol]
            if any("expnt" in c for c in conds):
                calls.append(n)
    if not calls:
        raise core.AnalysisError("get_function_to_convolve: the rho_mult == 'expnt' branch calls no method of self")
    subs = [(m, c) for m, c in prog.subclasses(base.name)]
    n_ = 0
    for call in calls:
        mname = call.value.func.attr
        for m, c in subs:
            ks = _ret_kinds(prog, m, c, mname)
            if not ks:
                continue  # abstract in this class
            n_ += 1
            inst = "%s: self.%s(...) in the expnt branch returns %s" % (c.name, mname, "/".join(sorted(ks)))
            if "INDEX" in ks:
                chk.violation("expnt-kind", PLANS, "%s.get_function_to_convolve" % base.name, pf.src(call)[:120], call.lineno,
                              "for rho_mult='expnt' the density is multiplied by the NLDF exponent; in class %s `self.%s` "
                              "resolves to a method whose first result is the exponent converted to a ladder/knot index (%s): "
                              "the convolved function is rho * index there" % (c.name, mname, ", ".join(sorted(INDEX_MAKERS))),
                              instance=inst)
            elif ks == {"EXP"}:
                chk.ok("expnt-kind", inst)
            else:
                chk.ok("expnt-kind", inst + " (not traced)", nontrivial=False)
    chk.count("plan classes resolved for the expnt factor", n_)


# ----------------------------------------------------------------------------------------------
# layout-aware: axis-specific arithmetic on interpolation coefficients depends on coef_order
# ----------------------------------------------------------------------------------------------
COEF_PRODUCERS = {"get_interpolation_coefficients", "_get_interpolation_coefficients",
                  "_get_ovlp_fit_interpolation_coefficients", "empty_coefs"}


def _has_axis_broadcast(e):
    """X[:, None] / X[None, :] / X[None] somewhere in e"""
    for x in ast.walk(e):
        if isinstance(x, ast.Subscript):
            idx = x.slice.elts if isinstance(x.slice, ast.Tuple) else [x.slice]
            if any(isinstance(i, ast.Constant) and i.value is None for i in idx):
                return True
    return False


def rule_layout_aware(chk):
    """The interpolation coefficients p, dp are (ngrids, nalpha) for coef_order 'gq' and (nalpha, ngrids) for 'qg' (the
    two fill loops of cider_coefs.c).  Arithmetic that pairs them with an operand broadcast along one explicit axis
    (`x[:, None]`, `x[None, :]`) is right for one layout only: it must sit under a test of coef_order, use an operand that
    was itself chosen under such a test, or follow a normalisation of the array (`if coef_order == 'gq': p = p.T`)."""
    from sa import cfg as cfgm
    mod = chk.tree.py(PLANS)
    n = 0
    for fn in [f for f in ast.walk(mod) if isinstance(f, ast.FunctionDef)]:
        coefs = set()
        for st in pf.walk_no_nested(fn):
            if isinstance(st, ast.Assign) and isinstance(st.value, ast.Call) and \
                    (pf.call_name(st.value) or "").split(".")[-1] in COEF_PRODUCERS:
                for t in st.targets:
                    for y in (t.elts if isinstance(t, ast.Tuple) else [t]):
                        if isinstance(y, ast.Name) and y.id != "_":
                            coefs.add(y.id)
        if not coefs:
            continue

        def under_order(node):
            return any("coef_order" in pf.src(t) for t, pol, kind in cfgm.conditions_at(node))

        normalised = set()
        for st in pf.walk_no_nested(fn):
            if isinstance(st, ast.Assign) and len(st.targets) == 1 and isinstance(st.targets[0], ast.Name) \
                    and st.targets[0].id in coefs and under_order(st) and pf.base_name(st.value) == st.targets[0].id:
                normalised.add((st.targets[0].id, st.lineno))
        chosen = set()  # operand names all of whose assignments sit under a coef_order test
        for nm in {t.id for st in pf.walk_no_nested(fn) if isinstance(st, ast.Assign) for t in st.targets if isinstance(t, ast.Name)}:
            defs = [st for st in pf.walk_no_nested(fn) if isinstance(st, ast.Assign)
                    and any(isinstance(t, ast.Name) and t.id == nm for t in st.targets)]
            if defs and all(under_order(d) for d in defs):
                chosen.add(nm)
        q = pf.qualname(fn)
        for st in pf.walk_no_nested(fn):
            pairs = []
            if isinstance(st, ast.AugAssign) and pf.base_name(st.target) in coefs:
                pairs.append((pf.base_name(st.target), st.value))
            if isinstance(st, ast.BinOp):
                for a, b in ((st.left, st.right), (st.right, st.left)):
                    if isinstance(a, ast.Name) and a.id in coefs:
                        pairs.append((a.id, b))
            for var, other in pairs:
                local_defs = []
                if isinstance(other, ast.Name):
                    local_defs = [d.value for d in pf.walk_no_nested(fn) if isinstance(d, ast.Assign)
                                  and any(isinstance(t, ast.Name) and t.id == other.id for t in d.targets)]
                axis = _has_axis_broadcast(other) or any(_has_axis_broadcast(d) for d in local_defs)
                if not axis:
                    continue
                txt = pf.src(other).replace(" ", "")
                if "[None,:]" in txt and "[:,None]" in txt:
                    continue  # outer product v[None, :] * v[:, None]: the same on both axes, layout neutral
                n += 1
                inst = "%s:%s `%s`" % (PLANS, q, pf.src(st)[:70])
                ok_ = under_order(st) or (isinstance(other, ast.Name) and other.id in chosen) or \
                    any(v == var and ln < st.lineno for v, ln in normalised)
                if ok_:
                    chk.ok("layout-aware", inst)
                else:
                    chk.violation("layout-aware", PLANS, q, pf.src(st)[:140], st.lineno,
                                  "%s holds interpolation coefficients, (ngrids, nalpha) for coef_order='gq' and (nalpha, ngrids) for "
                                  "'qg'; `%s` is broadcast along one fixed axis, which addresses the exponent axis in one layout and "
                                  "the grid axis in the other, and nothing here depends on coef_order" % (var, pf.src(other)[:50]),
                                  instance=inst)
    chk.count("axis-specific operations on coefficient arrays", n)


# ----------------------------------------------------------------------------------------------
# rank-drop: the result of a producer whose rank depends on its arguments is not indexed with a fixed rank
# ----------------------------------------------------------------------------------------------
def rule_rank_drop(chk):
    """`if comp == 1: ao = ao[0]; return ao`: the returned array loses its leading axis for some arguments.  A caller that
    subscripts the result (`x[v]`) treats it as having that axis: it must first restore a fixed rank (reshape /
    atleast_nd / x[None]), as the sibling code paths that receive the full array do."""
    n = 0
    for rel in SIBLING_FILES:
        mod = chk.tree.py(rel)
        top = {f.name: f for f in mod.body if isinstance(f, ast.FunctionDef)}
        varying = {}
        for name, f in top.items():
            rets = {r.value.id for r in pf.walk_no_nested(f) if isinstance(r, ast.Return) and isinstance(r.value, ast.Name)}
            for st in pf.walk_no_nested(f):
                if isinstance(st, ast.Assign) and len(st.targets) == 1 and isinstance(st.targets[0], ast.Name) \
                        and st.targets[0].id in rets and isinstance(st.value, ast.Subscript) \
                        and pf.base_name(st.value) == st.targets[0].id and pf.enclosing(st, (ast.If,)) is not None:
                    idx = st.value.slice.elts if isinstance(st.value.slice, ast.Tuple) else [st.value.slice]
                    if any(isinstance(i, ast.Constant) and isinstance(i.value, int) for i in idx):
                        varying[name] = st
        changed = True
        while changed:
            changed = False
            for name, f in top.items():
                if name in varying:
                    continue
                for r in pf.walk_no_nested(f):
                    if isinstance(r, ast.Return) and isinstance(r.value, ast.Call) and pf.call_name(r.value) in varying:
                        varying[name] = varying[pf.call_name(r.value)]
                        changed = True
        if not varying:
            continue
        for fn in [f for f in ast.walk(mod) if isinstance(f, ast.FunctionDef)]:
            def one_element(call):
                # an argument sliced to a single element (x[i : i + 1]): the case in which the producer drops the axis
                for x in ast.walk(call):
                    if isinstance(x, ast.Slice) and x.lower is not None and x.upper is not None and \
                            pf.src(x.upper).replace(" ", "") in (pf.src(x.lower).replace(" ", "") + "+1",
                                                                 "1+" + pf.src(x.lower).replace(" ", "")):
                        return True
                return False

            binds = [st for st in pf.walk_no_nested(fn) if isinstance(st, ast.Assign) and len(st.targets) == 1
                     and isinstance(st.targets[0], ast.Name) and isinstance(st.value, ast.Call)
                     and pf.call_name(st.value) in varying and one_element(st.value)]
            for b in binds:
                var = b.targets[0].id
                loop = pf.enclosing(b, (ast.For, ast.While)) or fn
                fixed_at = None
                uses = []
                for x in ast.walk(loop):
                    if isinstance(x, ast.Assign) and len(x.targets) == 1 and isinstance(x.targets[0], ast.Name) \
                            and x.targets[0].id == var and x is not b and x.lineno > b.lineno:
                        src_ = pf.src(x.value)
                        if any(k in src_ for k in ("reshape", "atleast_", "[None", "expand_dims")):
                            fixed_at = x.lineno if fixed_at is None else min(fixed_at, x.lineno)
                    if isinstance(x, ast.Subscript) and isinstance(x.value, ast.Name) and x.value.id == var \
                            and isinstance(x.ctx, ast.Load) and x.lineno > b.lineno:
                        uses.append(x)
                for u in uses:
                    n += 1
                    q = pf.qualname(fn)
                    inst = "%s:%s %s of %s(...)" % (rel, q, pf.src(u), pf.call_name(b.value))
                    if fixed_at is not None and fixed_at <= u.lineno:
                        chk.ok("rank-drop", inst)
                    else:
                        d = varying[pf.call_name(b.value)]
                        chk.violation("rank-drop", rel, q, pf.src(u), u.lineno,
                                      "%s comes from %s, which returns its array without the leading axis in some cases (`%s`, line "
                                      "%d); `%s` indexes it as if the axis were always there" % (
                                          var, pf.call_name(b.value), pf.src(d), d.lineno, pf.src(u)), instance=inst)
    chk.count("subscripts of rank-varying results", n)


# ----------------------------------------------------------------------------------------------
# delegation: a wrapper forwards the parameters it shares with the function it delegates to
# ----------------------------------------------------------------------------------------------
DELEGATE_FILES = [SETTINGS, PLANS]


def rule_delegate_forward(chk):
    """F(p, ...) calls G(...) of the same module, G has a parameter of the same name p, the call does not pass
    it, and F itself uses p only to validate it (if p ...: raise / assert): the caller's p is silently
    replaced by G's default (get_cider_exponent_gga(..., nspin) -> get_cider_exponent(...) is the pattern)."""
    n = 0
    for rel in DELEGATE_FILES:
        mod = chk.tree.py(rel)
        top = {f.name: f for f in mod.body if isinstance(f, ast.FunctionDef)}
        for F in [f for f in ast.walk(mod) if isinstance(f, ast.FunctionDef)]:
            params = [a.arg for a in F.args.args + F.args.kwonlyargs if a.arg not in ("self", "cls")]
            for call in pf.walk_no_nested(F):
                if not isinstance(call, ast.Call):
                    continue
                cn = pf.call_name(call)
                if cn not in top or top[cn] is F:
                    continue
                G = top[cn]
                if any(isinstance(a, ast.Starred) for a in call.args) or any(k.arg is None for k in call.keywords):
                    continue
                gparams = [a.arg for a in G.args.args + G.args.kwonlyargs]
                passed = set(gparams[:len(call.args)]) | {k.arg for k in call.keywords}
                shared = [p_ for p_ in params if p_ in gparams]
                if not shared:
                    continue
                for p_ in shared:
                    n += 1
                    inst = "%s:%s -> %s parameter %s" % (rel, pf.qualname(F), cn, p_)
                    if p_ in passed:
                        chk.ok("delegate-forward", inst)
                        continue
                    live = False
                    for u in pf.walk_no_nested(F):
                        if isinstance(u, ast.Name) and u.id == p_ and isinstance(u.ctx, ast.Load):
                            q, guard = u, False
                            while q is not None and q is not F:
                                par = pf.parent(q)
                                if isinstance(par, ast.If) and q is par.test and not par.orelse and \
                                        all(isinstance(x, ast.Raise) for x in par.body):
                                    guard = True
                                if isinstance(par, ast.Assert):
                                    guard = True
                                q = par
                            if not guard:
                                live = True
                    if live:
                        chk.ok("delegate-forward", inst + " (used by the wrapper itself)", nontrivial=False)
                    else:
                        chk.violation("delegate-forward", rel, pf.qualname(F), pf.src(call)[:150], call.lineno,
                                      "%s accepts %r (and only validates it) but delegates to %s, which also takes %r, "
                                      "without forwarding it: the callee silently uses its default %r=%s" % (
                                          pf.qualname(F), p_, cn, p_, p_, _default_of(G, p_)), instance=inst)
    chk.count("delegating calls with shared parameters", n)


def _default_of(G, name):
    pos = G.args.args
    d = G.args.defaults
    for a, dv in zip(pos[len(pos) - len(d):], d):
        if a.arg == name:
            return pf.src(dv)
    for a, dv in zip(G.args.kwonlyargs, G.args.kw_defaults):
        if a.arg == name and dv is not None:
            return pf.src(dv)
    return "<required>"


# ----------------------------------------------------------------------------------------------
def _analyse_own(chk):
    chk.rule("chain-j", "spec -> VJ_ID_MAP -> case value -> stored coefficient == documented Gaussian moment")
    chk.rule("chain-j-twin", "_gq and _qg layouts store identical value and derivative per id")
    chk.rule("chain-i", "spec -> VI_ID_MAP -> IFEAT_ID_TO_CONTRIB -> featid ladder -> integral function satisfying the "
                        "documented kernel relations; l-1/l+1 slot order")
    chk.rule("feat-orders", "feat_orders of a contribution id == l-shift of its radial integral")
    chk.rule("alpha-degree", "units of measure of the C kernels == SPEC_USPS")
    chk.rule("delegate-forward", "a function that delegates to a same-module function forwards the parameters they share "
                                 "(or uses them itself)")
    chk.rule("inverse-pair", "forward and inverse maps between exponent, ladder index and spline knot index compose to the "
                             "identity (knot layout x index scaling = 1; cider_ind_*(get_q2a(q)) = q; clip bound = last knot)")
    chk.rule("kernel-derivative", "the se_r2 integral is minus the alpha-derivative of the se integral including the common "
                                  "alpha-dependent prefactor (rational functions compared exactly)")
    chk.floor("kernel-derivative", 1, "one derivative pair (se, se_r2); the other r^2 kernels follow by the relations")
    chk.rule("totality", "allowed specs have ids, USPs, contributions, C cases/arms, ueg branches")
    py = PyTables(chk.tree)
    tus = cfacts.load_all(chk.tree, [C_COEFS, C_CONV], jobs=2)
    for tu_ in tus.values():
        tc.load_enums(tu_, chk.tree)  # case labels may be spelled with enumerators instead of macros
    chk.count("C translation units", 2)
    state = {}

    def _j(c):
        state["per_fn"], state["id_pos"] = rule_chain_j(c, py, tus)

    def _i(c):
        state["ic"] = rule_chain_i(c, py, tus)

    def _t(c):
        if "per_fn" not in state or "ic" not in state:
            raise core.AnalysisError("totality needs the C tables, which could not be read")
        rule_totality(c, py, tus, state["per_fn"], state["ic"])

    chk.guard(_j)
    chk.guard(_i)
    chk.guard(_t)
    chk.guard(rule_ueg, py)
    chk.guard(rule_delegate_forward)
    chk.guard(rule_dispatch_siblings)
    chk.rule("dispatch-siblings", "fast and reference SDMX dispatchers over the same C kernels read the same settings attributes")
    chk.floor("dispatch-siblings", 3, "3 dispatchers x 2 attributes today")

    def _unit(c):
        # conv_interpolation.c / fast_sdmx.c are C02 anchors too; the rule lives in checks/c06.py
        import importlib
        c06 = importlib.import_module("checks.c06")
        tus2 = cfacts.load_all(c.tree, [c06.C_INTERP, c06.C_SDMX], jobs=2)
        c06.rule_unit_vector(c, tus2)

    chk.guard(_unit)
    chk.rule("unit-vector", "a vector divided by its own norm is guarded against norm == 0 (shared with C06)")
    chk.floor("unit-vector", 3, "one per (function, vector): 5 today")
    chk.guard(rule_layout_aware)
    chk.guard(rule_rank_drop)
    chk.rule("layout-aware", "axis-specific arithmetic on the interpolation coefficients depends on coef_order")
    chk.rule("rank-drop", "results of rank-varying producers are given a fixed rank before they are subscripted")
    chk.floor("layout-aware", 2, "cmul / occd broadcasts and the set-up normalisations (7 today)")
    chk.guard(rule_expnt_kind)
    chk.rule("expnt-kind", "the factor of rho_mult='expnt' is the exponent (never the spline/ladder index) in every plan class")
    chk.floor("expnt-kind", 2, "NLDFAuxiliaryPlan, NLDFGaussianPlan, NLDFSplinePlan")

    def _mole(c):
        import importlib
        importlib.import_module("checks.c06").rule_mole_rebuild(c)

    chk.guard(_mole)
    chk.rule("mole-rebuild", "a Mole rebuilt from mol.atom carries mol.unit (shared with C06)")
    chk.guard(rule_result_used)
    chk.guard(rule_symmetric_operand)
    chk.rule("result-used", "a same-module function that only returns its result is not called as a statement")
    chk.rule("symmetric-operand", "operands of cholesky / cho_factor / eigh are symmetric by construction (row/column exchange)")
    chk.floor("result-used", 1, "3 call statements to same-module functions today (validators)")
    chk.floor("symmetric-operand", 5, "coul / ovlp matrices of the SDMX plans")
    chk.guard(rule_inverse_pairs, tus)

    def _sph(c):
        # sph_harm.c is anchored by C02 as well ("real spherical harmonics"): the harmonicity rule lives in checks/c06.py
        import importlib
        c06 = importlib.import_module("checks.c06")
        tu_s = cfacts.TU(c.tree, c06.C_SPH)
        tc.load_enums(tu_s, c.tree)
        c06.rule_sph_harmonic(c, {c06.C_SPH: tu_s})
        c06.rule_sph_bounds(c, {c06.C_SPH: tu_s})
        both = dict(tus)
        both[c06.C_SPH] = tu_s
        c06.rule_table_extent(c, both)

    chk.guard(_sph)
    chk.rule("sph-harmonic", "every Y_lm generated by recursive_sph_harm + setup_sph_harm_buffer is a harmonic polynomial of "
                             "degree l (shared with C06)")
    chk.floor("sph-harmonic", 25, "49 values for lmax = 6")
    chk.rule("sph-bounds", "generators store inside the buffers of the smallest set-ups (shared with C06)")
    chk.rule("table-extent", "file-scope constant tables are indexed below their extent (shared with C06)")
    chk.floor("sph-bounds", 3, "2 generators x 3 configurations")
    chk.floor("inverse-pair", 3, "spline scale, derivative scale, clip bound, etb and zexp ladders (5 today)")
    chk.floor("chain-j", 8, "4 j specs + 4 k specs (alias) x 2 layouts, minus nothing; 16 today")
    chk.floor("chain-j-twin", 2, "4 case values")
    chk.floor("chain-i", 5, "6 scalar specs + 2 vector specs x 2 parts")
    chk.floor("feat-orders", 6, "9 contribution ids + 3 position stores + the j block")
    chk.floor("alpha-degree", 10, "9 non-reference i integrals + 3x2 j coefficients")
    chk.floor("delegate-forward", 8, "22 delegating calls with shared parameters in settings.py / plans.py")
    chk.floor("totality", 45, "ids, usps, contributions, arms, cases, ueg branches")
    chk.extra["reference"] = {"design_endpoints": {k: v for k, v in DESIGN_ENDPOINTS.items()},
                              "localisation_snapshot": {k: {str(a): b for a, b in v.items()} for k, v in SNAP.items()},
                              "j_moments": {"se_ar2": "3/2 * E/(E+A)", "se_a2r4": "15/4 * E^2/(E+A)^2",
                                            "se_erf_rinv": "(1 + x*E/(E+A))^(-1/2)"},
                              "i_relations": ["se_ap = a*se", "se_apr2 = a*se_r2", "se_ap2r2 = a^2*se_r2",
                                              "se_lapl = 4*se_ap2r2 - 2*se_ap", "se_grad = a*se_rvec (both parts)"]}
    chk.assumptions += [
        "the ctypes argument order of the calls that carry the ids is checked by C18 (E-ffi); here only the position "
        "of the id argument of cider_coefs_gto_* is resolved",
        "libm pow/sqrt/tgamma have their mathematical meaning",
        "solve_atc_coefs indexes feat_orders by the output position beta of ovlp_mats, and the `offset` argument of "
        "generate_atc_integrals_vi is that position (both are the nbeta axis; read on the pinned tree, not derived)",
        "a loop body is interpreted once with its induction variable as a free index (the evaluated bodies carry no "
        "scalar across iterations; a loop-carried scalar is an analysis error)",
    ]
    chk.not_decided += [
        "agreement of the fast features with quadrature of the defining integrals (numerical)",
        "correctness of the closed form of gauss_dida (-dI0/dalpha), of the prefactors of the l-1/l+1 parts and of "
        "the Gaunt contraction",
        "convergence with the auxiliary basis, fast vs slow path agreement, SDMX features",
    ]


def analyse(chk):
    _analyse_own(chk)
    chk.guard(lambda c_: core.include_findings(c_, 'C05', files=['ciderpress/dft/lcao_nldf_generator.py', 'ciderpress/dft/lcao_interpolation.py', 'ciderpress/dft/lcao_convolutions.py', 'ciderpress/lib/mod_cider/'], rules=['py-zeroinit', 'c-scratch-layout'],
                                               why='accumulate-only native outputs need a zeroed buffer, otherwise features contain the previous call\'s results'))
    chk.guard(lambda c_: core.include_findings(c_, 'C10', files=['ciderpress/lib/mod_cider/cider_coefs.c', 'ciderpress/lib/mod_cider/convolutions.c', 'ciderpress/lib/mod_cider/conv_interpolation.c', 'ciderpress/lib/mod_cider/fast_sdmx.c', 'ciderpress/lib/mod_cider/sph_harm.c'], rules=None,
                                               why='a data race in the anchored feature kernels makes the features schedule dependent'))
    chk.guard(lambda c_: core.include_findings(c_, 'C03', files=['ciderpress/dft/plans.py'], rules=['sdmx-deg'],
                                               why='the SDMX fit matrices must be stored in the block order (and with the powers) that the contraction in '
                                                   'get_features / get_vxc assumes, otherwise the features are not the documented integrals'))


def mutants(tree):
    return [
        Mutant("swap two VJ_ID_MAP values", PLANS, '"se_ar2": 1,\n    "se_a2r4": 2,', '"se_ar2": 2,\n    "se_a2r4": 1,',
               expect="chain-j"),
        Mutant("swap two VI_ID_MAP values (l0)", PLANS, '"se_r2": 1,\n    "se_apr2": 2,', '"se_r2": 2,\n    "se_apr2": 1,',
               expect="chain-i"),
        Mutant("swap VI_ID_MAP se_rvec/se_grad", PLANS, '"se_rvec": 6,\n    "se_grad": 7,', '"se_rvec": 7,\n    "se_grad": 6,',
               expect="alpha-degree"),
        Mutant("swap two IFEAT_ID_TO_CONTRIB values", LCONV, "3: 7,  # A x squared-exp\n    4: 8,", "3: 8,  # A x squared-exp\n    4: 7,",
               expect="chain-i"),
        Mutant("swap the parts of an IFEAT pair", LCONV, "6: (4, 5),", "6: (5, 4),", expect="chain-i"),
        Mutant("swap IFEAT l1 partners", LCONV, "6: (4, 5),  # DR x squared-exp\n    7: (3, 6),", "6: (3, 5),  # DR x squared-exp\n    7: (4, 6),",
               expect="chain-i"),
        Mutant("swap two featid targets in C", F_CONV, fn=_swap_targets, expect="chain-i"),
        Mutant("swap iminus/ainv_iminus targets in C", F_CONV, fn=_swap_iminus, expect="chain-i"),
        Mutant("swap CIDER_FEAT_* macro values", F_COEFS, fn=_swap_macros, expect="chain-j"),
        Mutant("case invokes other fill macro (gq only)", F_COEFS, "CIDER_GQ_LOOP(R2_GAUSSIAN);", "CIDER_GQ_LOOP(R4_GAUSSIAN);",
               expect="chain-j"),
        Mutant("fill macro coefficient changed", F_COEFS, "tmp2 = 1.5 * pi32 * tmp * tmp * tmp1;", "tmp2 = 2.5 * pi32 * tmp * tmp * tmp1;",
               expect="chain-j"),
        Mutant("allowed i spec without id", SETTINGS, 'ALLOWED_I_SPECS_L0 = ["se", "se_r2",', 'ALLOWED_I_SPECS_L0 = ["se", "se_r4", "se_r2",',
               expect="totality"),
        Mutant("allowed j spec without id", SETTINGS, 'ALLOWED_J_SPECS = ["se", "se_ar2",', 'ALLOWED_J_SPECS = ["se", "se_exp", "se_ar2",',
               expect="totality"),
        Mutant("remove a ueg_vector branch (vi)", SETTINGS, '            elif spec == "se_apr2":\n                integral *= 1.5\n', "",
               expect="totality"),
        Mutant("remove a ueg_vector branch (vk)", SETTINGS, '            elif spec == "se_a2r4":\n                integral *= 3.75\n', "",
               expect="totality"),
        Mutant("VI id without contribution", LCONV, "    5: 9,  # Laplacian\n", "", expect="totality"),
        Mutant("feat_orders ids shifted", F_CONV, "ccl->icontrib_ids[ia] == 3 || ccl->icontrib_ids[ia] == 4",
               "ccl->icontrib_ids[ia] == 2 || ccl->icontrib_ids[ia] == 3", expect="feat-orders"),
        Mutant("SPEC_USPS se_r2 wrong", SETTINGS, '"se_r2": -2,', '"se_r2": 0,', expect="alpha-degree"),
        Mutant("lapl coefficient", F_CONV, "return 4 * gauss_a2dida(l, alpha, expi, expj) -", "return 2 * gauss_a2dida(l, alpha, expi, expj) -",
               expect="chain-i"),
        Mutant("gauss_integral order in iplus", F_CONV, "gauss_integral(l + 1, expi_conv + expj);", "gauss_integral(l, expi_conv + expj);",
               expect="chain-i"),
        Mutant("case loses break (qg)", F_COEFS, fn=_drop_break, expect="totality"),
        Mutant("layouts disagree", F_COEFS, fn=_qg_variant, expect="chain-j"),
        Mutant("feat_orders written at the contribution index", F_CONV, "ccl->feat_orders[offset] = -1;", "ccl->feat_orders[ia] = -1;",
               expect="feat-orders"),
        Mutant("feat_orders ladder loses its else (malloc'ed array)", F_CONV,
               " else {\n            ccl->feat_orders[offset] = 0;\n        }\n        offset++;", "\n        offset++;",
               expect="feat-orders"),
        Mutant("driver forgets the version-j block when placing i integrals", F_CONV,
               "        generate_atc_integrals_vj(ccl);\n        offset += ccl->nalpha;", "        generate_atc_integrals_vj(ccl);",
               expect="feat-orders"),
        Mutant("version-j orders initialised to 1", F_CONV, "        for (ia = 0; ia < nalpha; ia++) {\n            ccl->feat_orders[offset] = 0;",
               "        for (ia = 0; ia < nalpha; ia++) {\n            ccl->feat_orders[offset] = 1;", expect="feat-orders"),
        Mutant("gga exponent delegates without nspin", SETTINGS, fn=_gga_delegates, expect="delegate-forward"),
        Mutant("coef0 table loses its last admissible entry", cfacts.LIB + "/mod_cider/sph_harm.c", "if (m + 2 <= l) {", "if (m + 2 < l) {",
               expect="sph-harmonic"),
        Mutant("gauss_dida prefactor with expj in the numerator", F_CONV, "double coefi = (-l / alpha + (1.5 + l) / (alpha + expi));",
               "double coefi = (1.5 * alpha - l * expj) / (alpha * (alpha + expi));", expect="kernel-derivative"),
        Mutant("gauss_dida loses the chain-rule factor", F_CONV, "coefi += (1.5 + l) / (expi_conv + expj) * expi * expi /",
               "coefi += (1.5 + l) / (expi_conv + expj) * expi * alpha /", expect="kernel-derivative"),
        Mutant("prefactor power of the convolved Gaussian changed", F_CONV, "pow(alphas[q] / (expi + alphas[q]), 1.5 + l) *",
               "pow(alphas[q] / (expi + alphas[q]), 0.5 + l) *", expect="kernel-derivative"),
        Mutant("solver result discarded on the in-place branch", PLANS, "p_qu[:] = _stable_solve(transform, p_qu)",
               "_stable_solve(transform, p_qu)", expect="result-used"),
        Mutant("SDMX cross term not symmetrised", PLANS, "+ 0.25 * _get_int_0(n, prod, asum)\n                        + 0.25 * _get_int_0(n, prod, bsum)",
               "+ 0.5 * _get_int_0(n, prod, asum)", expect="symmetric-operand"),
        Mutant("coul matrix built from the row vector only", PLANS, "coul = 4 * np.sqrt(2 / np.pi) * prod**0.75 / sum\n",
               "coul = 4 * np.sqrt(2 / np.pi) * prod**0.75 / (2 * self.alphas)\n", expect="symmetric-operand"),
        Mutant("generator stores the l=1 entries without checking lmax", cfacts.LIB + "/mod_cider/sph_harm.c",
               "    if (buf.lmax < 1) {\n        return; // nlm == 1: there is no room for the l=1 entries\n    }\n    ylm[1 * lp1 + 0]",
               "    ylm[1 * lp1 + 0]", expect="sph-bounds"),
        Mutant("fast SDMX dispatcher ignores settings.mode", "ciderpress/pyscf/sdmx.py", fn=_drop_mode_check, expect="dispatch-siblings"),
        Mutant("SDMXylm_loop normalises without a guard", cfacts.LIB + "/mod_cider/fast_sdmx.c", fn=_unguard_sdmx, expect="unit-vector"),
        Mutant("expnt factor taken from the interpolation arguments", PLANS, "a, da_tuple = self.eval_feat_exp(rho_tuple, i=-1)",
               "a, da_tuple = self.get_interpolation_arguments(rho_tuple, i=-1)", expect="expnt-kind"),
        Mutant("auxiliary Mole rebuilt without the unit", "ciderpress/pyscf/nldf_convolutions.py", "            unit=mol.unit,\n", "",
               expect="mole-rebuild"),
        Mutant("coefficient multipliers broadcast along a fixed axis", PLANS, fn=_fixed_axis_cmul, expect="layout-aware"),
        Mutant("lowmem loop indexes the one-exponent result without reshape", "ciderpress/pyscf/sdmx_slow.py",
               "                _cao = _cao.reshape(ncpa, coords.shape[0], -1)\n", "", expect="rank-drop"),
        Mutant("index clipped before the ladder -> knot rescale", PLANS, fn=_clip_first, expect="inverse-pair"),
        Mutant("SDMXPlan H^1 matrices built for the last n1t powers, contracted as the first", PLANS, "for n in settings.pows[:n1t]",
               "for n in settings.pows[-n1t:]", expect="via-C03"),
        Mutant("knot-index scaling off by one", PLANS, "di[:] *= (self._spline_size - 1) / (self.nalpha - 1)",
               "di[:] *= self._spline_size / self.nalpha", expect="inverse-pair"),
        Mutant("knot layout off by one", PLANS, "interp_indexes * (self.nalpha - 1) / (self._spline_size - 1)",
               "interp_indexes * self.nalpha / self._spline_size", expect="inverse-pair"),
        Mutant("derivative of the knot index not rescaled", PLANS, "            derivi[:] *= (self._spline_size - 1) / (self.nalpha - 1)\n", "",
               expect="inverse-pair"),
        Mutant("clip bound is the knot count", PLANS, "ctypes.c_int(self._spline_size - 1),\n            ctypes.c_int(exp_g.size),",
               "ctypes.c_int(self._spline_size),\n            ctypes.c_int(exp_g.size),", expect="inverse-pair"),
        Mutant("etb ladder starts one step up", PLANS, "return self.alpha0 * self.lambd**q", "return self.alpha0 * self.lambd ** (q + 1)",
               expect="inverse-pair"),
        Mutant("zexp index drops the +1", F_COEFS, "di_g[g] = log(exp_g[g] * inva + 1) * ratio;", "di_g[g] = log(exp_g[g] * inva) * ratio;",
               expect="inverse-pair"),
        Mutant("etb index uses lambd instead of log(lambd)", F_COEFS, "double ratio = 1.0 / log(lambd);", "double ratio = 1.0 / lambd;",
               expect="inverse-pair"),
    ]


def _clip_first(text):
    a = ("        if self._spline_size != self.nalpha:\n"
         "            di[:] *= (self._spline_size - 1) / (self.nalpha - 1)\n"
         "            derivi[:] *= (self._spline_size - 1) / (self.nalpha - 1)\n")
    i = text.find(a)
    j = text.find("        return di, derivi\n", i)
    if i < 0 or j < 0:
        return None
    return text[:i] + text[i + len(a):j] + a + text[j:]


def _fixed_axis_cmul(text):
    a = '                if self.coef_order == "qg":\n                    cmul = np.asarray(coeff_multipliers)[:, None]\n' \
        '                else:\n                    cmul = np.asarray(coeff_multipliers)[None, :]\n'
    if a not in text:
        return None
    return text.replace(a, "                cmul = np.asarray(coeff_multipliers)[:, None]\n", 1)


def _drop_mode_check(text):
    a = '        if getattr(plan.settings, "mode", "smooth") == "exact":'
    i = text.find(a)
    if i < 0:
        return None
    j = text.find("            )\n", i)
    if j < 0:
        return None
    return text[:i] + text[j + len("            )\n"):]


def _unguard_sdmx(text):
    a = "                    if (rnorm > 0) {\n"
    i = text.find(a)
    if i < 0:
        return None
    j = text.find("                    }\n", text.find("} else {", i))
    if j < 0:
        return None
    new = ("                    norm_rvec[0] /= rnorm;\n                    norm_rvec[1] /= rnorm;\n"
           "                    norm_rvec[2] /= rnorm;\n")
    return text[:i] + new + text[j + len("                    }\n"):]


def _gga_delegates(text):
    head = "def get_cider_exponent_gga("
    if head not in text:
        return None
    i = text.index(head)
    a = text.find("    if isinstance(rho, np.ndarray):", i)
    b = text.find("    return ascale, dadrho, dadsigma\n", i)
    if a < 0 or b < 0:
        return None
    new = ("    tau = np.zeros_like(rho) if isinstance(rho, np.ndarray) else 0.0\n"
           "    ascale, dadrho, dadsigma, _ = get_cider_exponent(\n"
           "        rho, sigma, tau, a0=a0, grad_mul=grad_mul, tau_mul=0.0, rhocut=rhocut\n"
           "    )\n")
    return text[:a] + new + text[b:]


def _swap_targets(text):
    a, b = "integral_func = &gauss_ai0;", "integral_func = &gauss_a2dida;"
    if a not in text or b not in text:
        return None
    return text.replace(a, "@@A@@").replace(b, a).replace("@@A@@", b)


def _swap_iminus(text):
    a, b = "integral_func = &gauss_iminus;", "integral_func = &gauss_ainv_iminus;"
    if a not in text or b not in text:
        return None
    return text.replace(a, "@@A@@").replace(b, a).replace("@@A@@", b)


def _swap_macros(text):
    a, b = "#define CIDER_FEAT_R2_GAUSSIAN 1", "#define CIDER_FEAT_R4_GAUSSIAN 2"
    if a not in text or b not in text:
        return None
    return text.replace(a, "#define CIDER_FEAT_R2_GAUSSIAN 2").replace(b, "#define CIDER_FEAT_R4_GAUSSIAN 1")


def _drop_break(text):
    a = "        FILL_CIDER_##FEATNAME(g);                                              \\\n    }                                                                          \\\n    break;"
    if a not in text:
        return None
    # keep `break` for all but the R0 case of the qg layout: give R0 its own loop macro without break
    new_macro = ("#define CIDER_QG_LOOP_NB(FEATNAME)                                             \\\n"
                 "    for (g = 0; g < ngrids; g++) {                                             \\\n"
                 "        FILL_CIDER_##FEATNAME(g);                                              \\\n"
                 "    }\n")
    t = text.replace("#define MC_EXPNT 12", new_macro + "#define MC_EXPNT 12", 1)
    return t.replace("CIDER_QG_LOOP(R0_GAUSSIAN);", "CIDER_QG_LOOP_NB(R0_GAUSSIAN);", 1)


def _qg_variant(text):
    # a second R2 fill used only by the qg layout, with a different prefactor
    a = "#define CIDER_FEAT_R4_GAUSSIAN 2"
    if a not in text or "CIDER_QG_LOOP(R2_GAUSSIAN);" not in text:
        return None
    extra = ("#define FILL_CIDER_R2B_GAUSSIAN(ind)                                           \\\n"
             "    tmp = 1.0 / (exp_g[g] + alphas[a]);                                        \\\n"
             "    tmp1 = sqrt(tmp);                                                          \\\n"
             "    tmp2 = 1.5 * pi32 * tmp * tmp * tmp1;                                      \\\n"
             "    p[ind] = tmp2 * alphas[a];                                                 \\\n"
             "    dp[ind] = -2.5 * p[ind] * tmp + tmp2;\n")
    return text.replace(a, extra + a, 1).replace("CIDER_QG_LOOP(R2_GAUSSIAN);", "CIDER_QG_LOOP(R2B_GAUSSIAN);", 1)


if __name__ == "__main__":
    sys.exit(core.main(PROP, analyse, mutants, __doc__))
