"""
C01 demo: version-i NLDF model that has only vector (l=1) features, i.e.
NLDFSettingsVI(..., l0_feat_specs=[], l1_feat_specs=["se_grad", "se_rvec"], l1_feat_dots=[...]).
The settings object accepts this (feature families "NLDF version i" of C01), so
CiderNumInt.nr_rks / nr_uks must return (nelec, excsum, vmat) with vmat = dExc/dP, and the
features must equal the l=1 features of the same settings with one extra scalar feature.

Run:  PYTHONPATH=/tmp/hunt/H1 /venv/bin/python demo.py
"""
import os
import sys
import traceback

sys.path.insert(0, os.path.join(os.path.dirname(os.path.abspath(__file__)), "..", "common"))
from demo_util import build_ks, default_mol, fd_vs_vmat, psd_dm  # noqa: E402
import numpy as np  # noqa: E402

from ciderpress.dft import baselines  # noqa: E402
from ciderpress.dft.feat_normalizer import DensityNormalizer, FeatNormalizerList  # noqa: E402
from ciderpress.dft.settings import (  # noqa: E402
    FeatureSettings,
    NLDFSettingsVI,
    SemilocalSettings,
)
from ciderpress.dft.transform_data import FeatureList, SignedUMap, UMap  # noqa: E402
from ciderpress.dft.xc_evaluator import (  # noqa: E402
    GlobalLinearEvaluator,
    MappedDFTKernel,
    MappedXC,
)
from ciderpress.pyscf.nldf_convolutions import PySCFNLDFInitializer  # noqa: E402

TOL = 1e-5
THETA = [1.0, 0.0, 0.03125]
DOTS = [(-1, 0), (0, 1), (1, 1)]


def make(l0, unrestricted, itype):
    nldf = NLDFSettingsVI("MGGA", THETA, "one", l0, ["se_grad", "se_rvec"], DOTS)
    # scale-invariant normalisation of the NLDF features, None for (n, s^2, alpha)
    norms = [None] * 3 + [DensityNormalizer(1.0, -u / 3.0) for u in nldf.get_feat_usps()]
    settings = FeatureSettings(
        sl_settings=SemilocalSettings("npa"),
        nldf_settings=nldf,
        normalizers=FeatNormalizerList(norms, slmode="npa"),
    )
    n0 = len(l0)
    flist = FeatureList(
        [UMap(1, 0.4), UMap(2, 0.3)] + [SignedUMap(3 + n0 + i, 0.05) for i in range(3)]
    )
    feval = GlobalLinearEvaluator([0.3, -0.2, 0.1, -0.1, 0.15])
    kernel = MappedDFTKernel(feval, flist, "SEP", baselines.lda_x, baselines.zero_xc)
    mlxc = MappedXC([kernel], settings)
    mol = default_mol(unrestricted)
    init = PySCFNLDFInitializer(
        nldf, lmax=6, aux_lambd=1.8, aug_beta=1.8, alpha_max=3000.0, interpolator_type=itype
    )
    ks = build_ks(mol, mlxc, unrestricted, xmix=1.0, nldf_init=init)
    return mol, ks


if __name__ == "__main__":
    bad = False
    for itype in ("onsite_direct", "onsite_spline"):
        for unres in (False, True):
            name = "%s %s" % (itype, "UKS" if unres else "RKS")
            mol, ks = make(["se"], unres, itype)
            dm = psd_dm(mol, unres)
            e_ref, fd_ref, an_ref = fd_vs_vmat(ks, dm)
            print("%s, l0=['se'] + l1 feats (model ignores the scalar): Exc=%.8f dE(FD)=%.8f tr(vmat dP)=%.8f" % (name, e_ref, fd_ref, an_ref))
            try:
                mol, ks = make([], unres, itype)
                e0, fd, an = fd_vs_vmat(ks, dm)
            except Exception:
                print("%s, l0=[]     + l1 feats: expected the same numbers, observed exception:" % name)
                print("    " + traceback.format_exc().strip().splitlines()[-1])
                bad = True
                continue
            print("%s, l0=[]     + l1 feats                             : Exc=%.8f dE(FD)=%.8f tr(vmat dP)=%.8f" % (name, e0, fd, an))
            if abs(e0 - e_ref) > 1e-9 or abs(fd - an) > TOL:
                bad = True
    if bad:
        print("FAIL")
        sys.exit(1)
    print("OK")
