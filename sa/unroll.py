"""Unrolling of small literal loops before analysis.

A loop over a 2-element literal range / tuple (`for s in range(2)`, `for s in (0, 1)`,
`for s, x in enumerate((xa, xb))`, `for x in (xa, xb)`, `for x in pair` with `pair = (ea, eb)` a local tuple
literal, `zip` of such tuples) and a list comprehension / generator expression over one of them is replaced by
its two iterations with the loop variables substituted; `if <const> == <const>:` tests produced by the
substitution are folded.  This is exactly what the interpreter executes, so every rule that reasons about the
copy-pasted spin-0 / spin-1 statement pairs of the unrestricted code sees the same statements whether they
are written out or rolled into a spin loop.

`view(tree)` wraps a sa.core.Tree: `.py(rel)` returns the unrolled module (with `_parent` links), everything
else is delegated.  Pure ast; nothing is executed.  A loop is left alone when its body rebinds the loop
variable, contains break/continue/else, or the iterable is not one of the recognised literal forms.
"""
import ast
import copy

MAXLEN = 2


class _Abort(Exception):
    pass


class _Subst(ast.NodeTransformer):
    def __init__(self, mapping):
        self.mapping = mapping

    def visit_Name(self, node):
        if node.id in self.mapping:
            if not isinstance(node.ctx, ast.Load):
                raise _Abort()
            return ast.copy_location(copy.deepcopy(self.mapping[node.id]), node)
        return node


def _pure(e):
    """an expression that can be duplicated: names, constants, attribute / subscript chains of them"""
    if isinstance(e, (ast.Name, ast.Constant)):
        return True
    if isinstance(e, ast.Attribute):
        return _pure(e.value)
    if isinstance(e, ast.Subscript):
        return _pure(e.value) and all(isinstance(x, (ast.Name, ast.Constant, ast.Slice, ast.Tuple)) or _pure(x)
                                      for x in [e.slice])
    if isinstance(e, ast.Slice):
        return all(x is None or _pure(x) for x in (e.lower, e.upper, e.step))
    if isinstance(e, ast.Tuple):
        return all(_pure(x) for x in e.elts)
    return False


def _const(v):
    return ast.Constant(value=v)


class Unroller:
    def __init__(self, fn):
        self.fn = fn
        # local names bound exactly once to a tuple/list literal of pure elements
        cnt, val = {}, {}
        for n in ast.walk(fn):
            if isinstance(n, ast.Name) and isinstance(n.ctx, ast.Store):
                cnt[n.id] = cnt.get(n.id, 0) + 1
            if isinstance(n, ast.Assign) and len(n.targets) == 1 and isinstance(n.targets[0], ast.Name) \
                    and isinstance(n.value, (ast.Tuple, ast.List)):
                val[n.targets[0].id] = n
        self.tuples = {k: v for k, v in val.items() if cnt.get(k) == 1}
        self.split = {}  # tuple name -> [element names] after splitting non-pure elements into temporaries

    # -- iterables ----------------------------------------------------------
    def _elements(self, it):
        """list of element expressions of a literal iterable of length <= MAXLEN, or None"""
        if isinstance(it, ast.Call) and isinstance(it.func, ast.Name) and it.func.id == "range" and not it.keywords:
            a = it.args
            if all(isinstance(x, ast.Constant) and isinstance(x.value, int) and not isinstance(x.value, bool) for x in a):
                vals = list(range(*[x.value for x in a])) if 1 <= len(a) <= 3 else None
                if vals is not None and 1 <= len(vals) <= MAXLEN:
                    return [_const(v) for v in vals]
            return None
        if isinstance(it, (ast.Tuple, ast.List)) and 1 <= len(it.elts) <= MAXLEN and all(_pure(e) for e in it.elts):
            return list(it.elts)
        if isinstance(it, ast.Name) and it.id in self.tuples:
            asg = self.tuples[it.id]
            elts = asg.value.elts
            if not (1 <= len(elts) <= MAXLEN):
                return None
            if it.id not in self.split:
                names = []
                for k, e in enumerate(elts):
                    if isinstance(e, ast.Name):
                        names.append(e.id)
                    else:
                        names.append("%s__%d" % (it.id, k))
                self.split[it.id] = names
            return [ast.Name(id=n, ctx=ast.Load()) for n in self.split[it.id]]
        return None

    def _iterations(self, target, it):
        """[{name: expr}] per iteration, or None"""
        if isinstance(it, ast.Call) and isinstance(it.func, ast.Name) and it.func.id == "enumerate" \
                and len(it.args) == 1 and not it.keywords:
            el = self._elements(it.args[0])
            if el is None or not (isinstance(target, ast.Tuple) and len(target.elts) == 2
                                  and all(isinstance(t, ast.Name) for t in target.elts)):
                return None
            return [{target.elts[0].id: _const(k), target.elts[1].id: e} for k, e in enumerate(el)]
        if isinstance(it, ast.Call) and isinstance(it.func, ast.Name) and it.func.id == "zip" and not it.keywords \
                and isinstance(target, ast.Tuple) and len(target.elts) == len(it.args) \
                and all(isinstance(t, ast.Name) for t in target.elts):
            cols = [self._elements(a) for a in it.args]
            if any(c is None for c in cols) or len({len(c) for c in cols}) != 1:
                return None
            return [{t.id: c[k] for t, c in zip(target.elts, cols)} for k in range(len(cols[0]))]
        el = self._elements(it)
        if el is None or not isinstance(target, ast.Name):
            return None
        return [{target.id: e} for e in el]

    # -- statements ---------------------------------------------------------
    def block(self, stmts):
        out = []
        for st in stmts:
            out.extend(self.stmt(st))
        return out

    def stmt(self, st):
        for field in ("body", "orelse", "finalbody"):
            b = getattr(st, field, None)
            if isinstance(b, list) and b and isinstance(b[0], ast.stmt) and not isinstance(st, (ast.FunctionDef, ast.ClassDef,
                                                                                             ast.AsyncFunctionDef)):
                setattr(st, field, self.block(b))
        if isinstance(st, ast.Try):
            for h in st.handlers:
                h.body = self.block(h.body)
        if isinstance(st, ast.For) and not st.orelse:
            its = self._iterations(st.target, st.iter)
            if its is not None and not any(isinstance(n, (ast.Break, ast.Continue)) for b in st.body for n in ast.walk(b)):
                try:
                    res = []
                    for m in its:
                        for b in st.body:
                            nb = _Subst(m).visit(copy.deepcopy(b))
                            res.extend(self._fold(nb))
                    return [self._exprs(r) for r in res]
                except _Abort:
                    pass
        return [self._exprs(st)]

    def _fold(self, st):
        """`if 0 == 0:` -> body ; `if 1 == 0:` -> orelse (recursively inside compound statements)"""
        if isinstance(st, ast.If) and isinstance(st.test, ast.Compare) and len(st.test.ops) == 1 \
                and isinstance(st.test.left, ast.Constant) and isinstance(st.test.comparators[0], ast.Constant):
            a, b, op = st.test.left.value, st.test.comparators[0].value, st.test.ops[0]
            val = None
            if isinstance(op, ast.Eq):
                val = a == b
            elif isinstance(op, ast.NotEq):
                val = a != b
            elif isinstance(op, ast.Lt):
                val = a < b
            elif isinstance(op, ast.Gt):
                val = a > b
            if val is not None:
                out = []
                for x in (st.body if val else st.orelse):
                    out.extend(self._fold(x))
                return out
        for field in ("body", "orelse", "finalbody"):
            b = getattr(st, field, None)
            if isinstance(b, list) and b and isinstance(b[0], ast.stmt):
                nb = []
                for x in b:
                    nb.extend(self._fold(x))
                setattr(st, field, nb or [ast.copy_location(ast.Pass(), st)])
        return [st]

    # -- comprehensions -----------------------------------------------------
    def _exprs(self, st):
        outer = self

        class T(ast.NodeTransformer):
            def _comp(self, node, elt):
                self.generic_visit(node)
                if len(node.generators) != 1 or node.generators[0].ifs or node.generators[0].is_async:
                    return node
                g = node.generators[0]
                its = outer._iterations(g.target, g.iter)
                if its is None:
                    return node
                try:
                    elts = [_Subst(m).visit(copy.deepcopy(elt)) for m in its]
                except _Abort:
                    return node
                return ast.copy_location(ast.List(elts=elts, ctx=ast.Load()), node)

            def visit_ListComp(self, node):
                return self._comp(node, node.elt)

            def visit_GeneratorExp(self, node):
                return self._comp(node, node.elt)

            def visit_FunctionDef(self, node):
                return node  # nested functions are processed on their own

            visit_AsyncFunctionDef = visit_Lambda = visit_FunctionDef

        if isinstance(st, (ast.FunctionDef, ast.AsyncFunctionDef, ast.ClassDef)):
            return st
        if isinstance(st, (ast.For, ast.While, ast.If, ast.With, ast.Try)):
            # only the header expressions; the blocks were handled statement by statement
            for field in ("iter", "test"):
                if hasattr(st, field):
                    setattr(st, field, T().visit(getattr(st, field)))
            return st
        return T().visit(st)

    def run(self):
        fn = self.fn
        fn.body = self.block(fn.body)
        # split the tuple literals whose elements were needed by name
        if self.split:
            self._split_tuples(fn)
        return fn

    def _split_tuples(self, node):
        for field in ("body", "orelse", "finalbody"):
            b = getattr(node, field, None)
            if not (isinstance(b, list) and b and isinstance(b[0], ast.stmt)):
                continue
            nb = []
            for st in b:
                if isinstance(st, ast.Assign) and len(st.targets) == 1 and isinstance(st.targets[0], ast.Name) \
                        and st.targets[0].id in self.split and st is self.tuples.get(st.targets[0].id):
                    names = self.split[st.targets[0].id]
                    new_elts = []
                    for nm, e in zip(names, st.value.elts):
                        if not (isinstance(e, ast.Name) and e.id == nm):
                            nb.append(ast.copy_location(ast.Assign(targets=[ast.Name(id=nm, ctx=ast.Store())], value=e), st))
                        new_elts.append(ast.Name(id=nm, ctx=ast.Load()))
                    st.value = ast.copy_location(type(st.value)(elts=new_elts, ctx=ast.Load()), st.value)
                nb.append(st)
                if not isinstance(st, (ast.FunctionDef, ast.AsyncFunctionDef, ast.ClassDef)):
                    self._split_tuples(st)
            setattr(node, field, nb)
        if isinstance(node, ast.Try):
            for h in node.handlers:
                self._split_tuples(h)


def unroll_module(mod):
    """deep copy of a parsed module with the small literal loops of every function unrolled"""
    new = copy.deepcopy(mod)
    for n in ast.walk(new):
        n.__dict__.pop("_parent", None)
    funcs = [n for n in ast.walk(new) if isinstance(n, (ast.FunctionDef, ast.AsyncFunctionDef))]
    # innermost first, so that a nested generator is unrolled before its encloser is copied around
    for fn in reversed(funcs):
        Unroller(fn).run()
    ast.fix_missing_locations(new)
    for node in ast.walk(new):
        for ch in ast.iter_child_nodes(node):
            ch._parent = node
    new._rel = getattr(mod, "_rel", None)
    return new


class UnrolledTree:
    """a sa.core.Tree whose parsed modules have their small literal loops unrolled"""

    def __init__(self, tree):
        self._tree = tree
        self._py = {}

    def __getattr__(self, name):
        return getattr(self._tree, name)

    def py(self, rel):
        if rel not in self._py:
            self._py[rel] = unroll_module(self._tree.py(rel))
        return self._py[rel]

    def with_overlay(self, overlay):
        return UnrolledTree(self._tree.with_overlay(overlay))


def view(tree):
    return tree if isinstance(tree, UnrolledTree) else UnrolledTree(tree)
