"""C09: LCAONLDFGenerator.get_features_and_occ_derivs overwrites the per-spin caches of the
NLDF plan that a pending get_potential still needs.

get_features(rho_A, spin=0) stores, for the potential pass,
  * in the generator:  self._cache[0]            (rho, p_gq, dp_gq, dfeat, ...)
  * in the plan:       plan._cached_p_i_qg[0]    (interpolation coefficients of the features)
                       plan._cached_l1_data[0]   (l=1 vectors and the density gradient)
get_features_and_occ_derivs(rho_B, ...) calls plan.eval_rho_full(...) and
plan.eval_occd_full(...) with the default spin=0; both clear and refill the PLAN caches
of spin 0 (eval_occd_full even leaves the occupation-derivative vectors there), but the
generator's own self._cache[0] is left untouched.  A following get_potential(v, spin=0)
therefore does not raise "Need to call get_features before get_potential"; it silently
combines the generator cache of density A with the plan caches of density B.

History:   get_features(A) ; get_features_and_occ_derivs(B, dB) ; get_potential(v)
Expected:  the same potential as  get_features(A) ; get_potential(v)  on a fresh generator.
"""
import os
import sys

HERE = os.path.dirname(os.path.abspath(__file__))
sys.path.insert(0, os.path.join(HERE, "..", "common"))
os.environ.setdefault("OMP_NUM_THREADS", "2")
import cider_env

cider_env.install(need_c=True)

import warnings

import numpy as np
from pyscf import dft, gto

warnings.filterwarnings("ignore")

from ciderpress.dft.settings import NLDFSettingsVIJ
from ciderpress.pyscf.gen_cider_grid import CiderGrids
from ciderpress.pyscf.nldf_convolutions import PySCFNLDFInitializer

mol = gto.M(atom="O 0 0 0; H 0 0.757 0.587; H 0 -0.757 0.587", basis="6-31g", verbose=0)
grids = CiderGrids(mol)
grids.level = 0
grids.build(with_non0tab=True)

theta = [1.0, 0.0, 0.03125]
feat_params = [[1.0, 0.0, 0.03125], [2.0, 0.0, 0.03125]]
settings = NLDFSettingsVIJ("MGGA", theta, "one", ["se_r2"], ["se_grad"],
                           [(-1, 0), (0, 0)], ["se", "se_ar2"], feat_params)
# "train_gen" is the interpolator that supports get_features_and_occ_derivs
init = PySCFNLDFInitializer(settings, interpolator_type="train_gen")


def new_gen():
    gen = init.initialize_nldf_generator(mol, grids.grids_indexer, 1)
    gen.interpolator.set_coords(grids.coords)
    return gen


mf = dft.RKS(mol)
mf.xc = "PBE"
mf.grids = grids
mf.kernel()
ni = dft.numint.NumInt()
ao = ni.eval_ao(mol, grids.coords, deriv=1)
dm = mf.make_rdm1()
rho_A = ni.eval_rho(mol, ao, dm, xctype="MGGA", with_lapl=False)
# another density (e.g. another state) and the density of its HOMO
mo = mf.mo_coeff
nocc = mol.nelectron // 2
dm_B = 2 * mo[:, : nocc - 1] @ mo[:, : nocc - 1].T + mo[:, nocc : nocc + 1] @ mo[:, nocc : nocc + 1].T * 2
rho_B = ni.eval_rho(mol, ao, dm_B, xctype="MGGA", with_lapl=False)
orb_B = ni.eval_rho(mol, ao, mo[:, nocc : nocc + 1] @ mo[:, nocc : nocc + 1].T,
                    xctype="MGGA", with_lapl=False)[None]

fresh = new_gen()
feat_ref = fresh.get_features(rho_A)
# dE/dfeature of a smooth model "functional" E = sum_g w_g sum_i tanh(feat_i(g)) n(g)
v = grids.weights * rho_A[0] / np.cosh(feat_ref) ** 2
pot_ref = fresh.get_potential(v)
pot_ref2 = fresh.get_potential(v)
print("fresh generator, potential evaluated twice: max diff = %.2e" % abs(pot_ref2 - pot_ref).max())

gen = new_gen()
feat = gen.get_features(rho_A)
gen.get_features_and_occ_derivs(rho_B, orb_B)  # interleaved call for another density
pot = gen.get_potential(v)

drho = rho_B - rho_A  # a physical direction to contract the potential with
resp_ref = np.sum(pot_ref * drho)
resp = np.sum(pot * drho)
nrm = np.linalg.norm(pot - pot_ref) / np.linalg.norm(pot_ref)
print("features of A identical:                  max diff = %.2e" % abs(feat - feat_ref).max())
print("sum_g v_nldf(g) . (rho_B - rho_A)(g):     expected (fresh) = %.10f   observed = %.10f"
      % (resp_ref, resp))
print("||v - v_fresh|| / ||v_fresh||             = %.3e   (expected 0)" % nrm)
sys.exit(0 if nrm < 1e-10 else 1)
