import cider_build
import numpy as np, sys
from pyscf import gto, dft
from ciderpress.pyscf.nldf_convolutions import PyscfNLDFGenerator
from ciderpress.pyscf.gen_cider_grid import CiderGrids
from ciderpress.dft.settings import NLDFSettingsVI, NLDFSettingsVJ, NLDFSettingsVIJ, NLDFSettingsVK

vj_specs = ["se", "se_ar2", "se_a2r4", "se_erf_rinv"]
theta_params = [1.0, 0.0, 0.03125]
feat_params = [[2.0, 0.0, 0.04] for i in range(4)]
feat_params[-1].append(2.0)
vij = NLDFSettingsVIJ("MGGA", theta_params, "one", ["se_ap"], ["se_grad", "se_rvec"], [(0, 0), (1, -1)], vj_specs, feat_params)
vk = NLDFSettingsVK("MGGA", theta_params, "one", [[1.0, 0.0, 0.02], [2.0, 0.0, 0.04]], "exponential")
rng = np.random.default_rng(0)

def check(gen, grids, label):
    gen.interpolator.set_coords(grids.coords)
    nato = grids.grids_indexer.ngrids
    x = rng.normal(size=(nato, gen.plan.nalpha))
    Ax = gen._perform_fwd_convolution(x).copy()
    y = rng.normal(size=Ax.shape)
    By = gen._perform_bwd_convolution(y.copy())
    l = np.sum(Ax * y); r = np.sum(x * By)
    print(label, l, r, abs(l - r) / abs(l), flush=True)

mol = gto.M(atom="H 0 0 0; F 0 0.1 0.9; Li 1.5 0.3 -0.4; H 0.0 -1.0 0.3", basis="def2-svp", verbose=0)
# 1: pruned grids + lmax < grids lmax
grids = CiderGrids(mol, lmax=8)
grids.level = 0
grids.build(with_non0tab=True)
ks = dft.RKS(mol); dm = ks.get_init_guess()
rho = dft.numint.NumInt().get_rho(mol, dm, grids)
n0 = grids.weights.size
grids.prune_by_density_(rho, 1e-3)
print("pruned", n0, grids.weights.size, grids.grids_indexer.padding, grids.grids_indexer.idx_map.size)
for st, nm in [(vij, "vij"), (vk, "vk")]:
    for itype in ["onsite_direct", "onsite_spline"]:
        gen = PyscfNLDFGenerator.from_mol_and_settings(mol, grids.grids_indexer, 1, st, plan_type="spline", interpolator_type=itype, lmax=5, nrad=150, aparam=0.02, dparam=0.05, gbuf=1.2)
        check(gen, grids, "pruned lmax5 " + nm + " " + itype)
# 2: no pruning of angular grids, custom atom_grid
grids = CiderGrids(mol, lmax=4)
grids.atom_grid = {"H": (20, 50), "F": (25, 86), "Li": (22, 110)}
grids.prune = None
grids.build()
for st, nm in [(vij, "vij"), (vk, "vk")]:
    for itype in ["onsite_direct", "onsite_spline"]:
        gen = PyscfNLDFGenerator.from_mol_and_settings(mol, grids.grids_indexer, 1, st, plan_type="spline", interpolator_type=itype)
        check(gen, grids, "atom_grid " + nm + " " + itype)
