"""Helper for the hunt demos.

install(need_c=False): make the ciderpress modules that load C libraries importable.
  * need_c=False: any library that cannot be found is replaced by a MagicMock
    (enough for pure-Python code paths such as ciderpress.models.train).
  * need_c=True : libmcider / libxc_utils are compiled from the UNMODIFIED sources in
    ciderpress/lib with gcc (linked against the BLAS/libcgto/libxc shipped inside the
    pyscf wheel) into hunt_out/common/_build and handed to the real Python wrappers
    through a patched numpy.ctypeslib.load_library.  pbc_tools.c (needs FFTW) is
    left out; nothing used by the demos lives there.
"""
import glob
import os
import subprocess
import sys
from unittest.mock import MagicMock

HERE = os.path.dirname(os.path.abspath(__file__))
ROOT = os.path.dirname(os.path.dirname(HERE))
BUILD = os.path.join(HERE, "_build")


def _compile():
    import pyscf

    plib = os.path.join(os.path.dirname(pyscf.__file__), "lib")
    src = os.path.join(ROOT, "ciderpress", "lib")
    os.makedirs(BUILD, exist_ok=True)
    blas = sorted(glob.glob(os.path.join(plib, "libopenblas*.so*")))
    blas_flag = ["-l:" + os.path.basename(blas[0])] if blas else ["-lblas", "-llapack"]
    mc = os.path.join(BUILD, "libmcider.so")
    if not os.path.exists(mc):
        files = [
            "frac_lapl.c", "cider_coefs.c", "cider_grids.c", "spline.c", "sph_harm.c",
            "conv_interpolation.c", "convolutions.c", "fast_sdmx.c", "debug_numint.c",
            "model_utils.c",
        ]
        cmd = ["gcc", "-O2", "-fopenmp", "-shared", "-fPIC", "-o", mc]
        cmd += [os.path.join(src, "mod_cider", f) for f in files]
        cmd += ["-I" + os.path.join(src, "mod_cider"), "-I" + os.path.join(plib, "deps", "include")]
        cmd += ["-L" + plib, "-l:libcgto.so", "-l:libnp_helper.so"] + blas_flag
        cmd += ["-Wl,-rpath," + plib, "-lm"]
        subprocess.check_call(cmd)
    xc = os.path.join(BUILD, "libxc_utils.so")
    if not os.path.exists(xc):
        dl = os.path.join(plib, "deps", "lib")
        cmd = ["gcc", "-O2", "-fopenmp", "-shared", "-fPIC", "-o", xc,
               os.path.join(src, "xc_utils", "libxc_baselines.c"),
               "-I" + os.path.join(plib, "deps", "include"), "-L" + dl, "-l:libxc.so",
               "-Wl,-rpath," + dl, "-lm"]
        subprocess.check_call(cmd)


def install(need_c=False):
    import numpy.ctypeslib as ncl

    if getattr(ncl, "_hunt_patched", False):
        return
    if need_c:
        _compile()
    orig = ncl.load_library

    def load(libname, loader_path):
        if os.path.exists(os.path.join(BUILD, libname + ".so")):
            return orig(libname, BUILD)
        try:
            return orig(libname, loader_path)
        except OSError:
            return MagicMock(name=libname)

    ncl.load_library = load
    ncl._hunt_patched = True
    if ROOT not in sys.path:
        sys.path.insert(0, ROOT)
