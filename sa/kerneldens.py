"""Guarded denominators in the covariance-kernel value/gradient routines (for C15).

The sign-domain interpreter of sa.signdom is pointed at every `__call__`,
`k_and_deriv`, `diag`, `_get_k0_dk0_*` and `get_k0_for_mapping` method of the
kernel classes.  Assumptions (stated in the evidence): length scales and the
rational-quadratic `alpha` are > 0; the inputs X, Y have unknown sign; a
kernel value returned by another kernel object has unknown sign, and np.exp(..)
is only >= 0 (far-apart points underflow to exactly 0.0), so a division by a
kernel value is NOT proven safe.  Scope: classes providing k_and_deriv (the differentiable
kernels used by the models); the density-noise kernels are 1/rho**p by definition.  Every division / power with a constant
negative exponent whose denominator depends on X or Y must have a denominator
proven > 0; a denominator that is clamped somewhere on its chain but not proven,
and powers with a symbolic exponent (k ** (p - 1) is the exact derivative of
k ** p), are notes.

    from sa import kerneldens
    chk.guard(kerneldens.rule_kernel_denominators, prog)       # prog contains models/kernels.py
"""
import ast

from sa import pyfacts as pf
from sa import signdom as sd
from sa.core import AnalysisError

KN = "ciderpress/models/kernels.py"
METHODS = ("__call__", "k_and_deriv", "diag", "_get_k0_dk0_eval", "_get_k0_dk0_train", "get_k0_for_mapping",
           "get_sub_kernel")
INPUTS = {"X", "Y"}
POSITIVE_ATTRS = {"self.length_scale", "self.alpha"}
RULE = "kernel-denominator"


def _bind(callee, call, skip_self):
    ps = [a.arg for a in callee.args.posonlyargs + callee.args.args]
    if skip_self and ps and ps[0] in ("self", "cls"):
        ps = ps[1:]
    bound = {}
    for p, a in zip(ps, call.args):
        if isinstance(a, ast.Starred):
            break
        bound[p] = a
    allp = set(ps) | {a.arg for a in callee.args.kwonlyargs}
    for k in call.keywords:
        if k.arg in allp:
            bound[k.arg] = k.value
    return bound


def rule_kernel_denominators(chk, prog, rel=KN, rule=RULE):
    mod = prog.module(rel)
    chk.rule(rule, "kernel value/gradient routines: every X/Y-dependent division or negative power has a "
                   "denominator proven > 0 (kernel values are only >= 0)")

    def consts(text, fn):
        if "." in text or text in [a.arg for a in fn.args.args]:
            return None
        node = mod.assigns.get(text)
        if node is None:
            return None
        return sd.fold_const(node, lambda t: None)

    def assume(fn, p):
        if p in INPUTS:
            return sd.AV(sd.U, True, False)
        return None

    def attr_assume(text):
        if text in POSITIVE_ATTRS:
            return sd.AV(sd.P, False, False)
        return None

    def resolver(call, fn, interp):
        f = call.func
        cls = pf.enclosing_class(fn)
        if isinstance(f, ast.Name) and f.id in mod.functions:
            return [(mod.functions[f.id], _bind(mod.functions[f.id], call, False))]
        if isinstance(f, ast.Attribute) and isinstance(f.value, ast.Name) and f.value.id == "self" and cls is not None:
            r = prog.find_method(mod, cls, f.attr)
            if r is not None and r[2] is not fn:
                return [(r[2], _bind(r[2], call, True))]
        return None

    interp = sd.Interp(resolver, consts, assume, attr_assume)
    interp.exp_sign = sd.Z
    entries = []
    for cname, cls in mod.classes.items():
        # differentiable kernels only: classes that provide k_and_deriv (own or inherited in this module).
        # The density-noise kernels (1/rho**p by definition, training-time only) are not in scope.
        if prog.find_method(mod, cls, "k_and_deriv") is None:
            continue
        for mname, meth in pf.methods(cls).items():
            # value / gradient routines: the methods that take the kernel input X (public or private)
            if "X" in [a.arg for a in meth.args.args] and mname != "__init__":
                entries.append((cname, mname, meth))
    if len(entries) < 10:
        raise AnalysisError("fewer than 10 value/gradient methods of differentiable kernels found in %s" % rel)
    for cname, mname, meth in entries:
        interp.call_function(meth, {})
    chk.count("kernel methods analysed", len(entries))
    n = 0
    for s in interp.sites.values():
        if s.den is None or not s.den.dep:
            continue
        n += 1
        qual = pf.qualname(s.func)
        text = pf.src(s.node)
        text = text if len(text) <= 110 else text[:107] + "..."
        inst = "%s: %s  [denominator %s : %r]" % (qual, text, s.den_src, s.den)
        if s.den.sign == sd.P:
            chk.ok(rule, inst)
        elif s.guarded_where:
            chk.ok(rule, inst + " guarded by where=", nontrivial=False)
        elif s.symbolic_exp:
            chk.ok(rule, inst + " symbolic exponent", nontrivial=False)
            chk.note(rule, "%s:%s" % (rel, qual), "`%s`: the exponent is not a constant; singular only if it is "
                                                  "negative where `%s` vanishes" % (text, s.den_src))
        elif s.den.cl:
            chk.ok(rule, inst + " undecided", nontrivial=False)
            chk.note(rule, "%s:%s" % (rel, qual), "`%s`: denominator `%s` clamped on its chain but not proven > 0"
                     % (text, s.den_src))
        else:
            what = "divides by" if s.kind == "div" else "raises to a negative power"
            chk.violation(rule, rel, qual, text, s.node.lineno,
                          "%s `%s`, which depends on the kernel inputs and is %s: kernel values of RBF-type kernels "
                          "underflow to exactly 0.0 for far-apart points and linear/polynomial kernels vanish for "
                          "orthogonal inputs, so this yields inf/nan in the value or gradient"
                          % (what, s.den_src, {"Z": "only known to be >= 0", "U": "of unknown sign"}[s.den.sign]),
                          instance=inst)
    chk.count("input-dependent division/negative-power sites in kernels.py", n)
    chk.floor(rule, 5, "input-dependent denominators in the kernel routines")
    chk.assumptions += ["kernels: length_scale > 0 and rational-quadratic alpha > 0 (sklearn hyperparameter bounds); "
                        "kernel values are >= 0 at best (np.exp may underflow to 0.0), never assumed > 0"]
