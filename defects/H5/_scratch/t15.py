import cider_build
import numpy as np, sys
from pyscf import gto, dft
from ciderpress.pyscf.gen_cider_grid import CiderGrids
from ciderpress.dft.settings import *
from toy import make_ni

vj_specs = ["se", "se_ar2", "se_a2r4", "se_erf_rinv"]
theta_params = [1.0, 0.0, 0.03125]
feat_params = [[2.0, 0.0, 0.04] for i in range(4)]
feat_params[-1].append(2.0)
vij = NLDFSettingsVIJ("MGGA", theta_params, "one", ["se_ap"], ["se_grad", "se_rvec"], [(0, 0), (1, -1)], vj_specs, feat_params)
sd = SDMXG1Settings([0,1,2], 2, 2)
sl = SemilocalSettings("nst")
base = np.array([[0.0,0.0,0.0],[0.15,0.85,0.45],[-0.75,-0.35,0.95],[1.1, -0.9, -0.3]])
syms = ["O","H","F","H"]
def mk(perm):
    atom = [[syms[i], tuple(base[i])] for i in perm]
    return gto.M(atom=atom, basis="def2-svp", verbose=0, spin=1)
mol0 = mk([0,1,2,3])
ks = dft.UKS(mol0); ks.xc="PBE"; ks.kernel(); dm0 = np.asarray(ks.make_rdm1())
def aoperm(mol0, mol1, perm):
    # ao index of mol1 -> ao index in mol0
    sl0 = mol0.aoslice_by_atom()
    idx = []
    for ia_new, ia_old in enumerate(perm):
        idx += list(range(sl0[ia_old, 2], sl0[ia_old, 3]))
    return np.array(idx)
def run(perm):
    mol = mk(perm)
    idx = aoperm(mol0, mol, perm)
    dm = dm0[:, idx][:, :, idx]
    grids = CiderGrids(mol, lmax=6); grids.level = 0; grids.build(with_non0tab=True)
    out = []
    for kw in [dict(nldf=vij, sdmx=sd), dict(nldf=vij, plan_type="spline")]:
        ni = make_ni(sl=sl, **kw)
        n, e, v = ni.nr_uks(mol, grids, "", dm)
        inv = np.argsort(idx)
        v0 = v[:, inv][:, :, inv]
        out.append((e, v0))
    return out
ref = run([0,1,2,3])
for perm in [[2,0,3,1], [3,2,1,0], [1,0,2,3]]:
    r = run(perm)
    print(perm, [(abs(a[0]-b[0])/abs(b[0]), np.abs(a[1]-b[1]).max()/np.abs(b[1]).max()) for a, b in zip(r, ref)], flush=True)
