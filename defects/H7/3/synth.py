"""Build a small synthetic CIDER model (random GP weights) for differential tests."""
import numpy as np
from ciderpress.dft.settings import (FeatureSettings, SemilocalSettings, SDMXSettings,
    SDMXGSettings, SDMX1Settings, SDMXG1Settings, NLDFSettingsVJ, NLDFSettingsVI, NLDFSettingsVIJ, NLDFSettingsVK, FracLaplSettings)
from ciderpress.dft.feat_normalizer import FeatNormalizerList
from ciderpress.dft.transform_data import FeatureList, UMap, LMap, SignedUMap
from ciderpress.dft.xc_evaluator import MappedXC, MappedDFTKernel, KernelEvaluator
from ciderpress.dft.baselines import lda_x, zero_xc, gga_x_pbe
from ciderpress.models.kernels import DiffRBF


def make_model(sl="npa", sdmx=None, nldf=None, nlof=None, mode="SEP", seed=0, nctrl=12):
    rng = np.random.default_rng(seed)
    sls = SemilocalSettings(sl)
    fs = FeatureSettings(sl_settings=sls, sdmx_settings=sdmx, nldf_settings=nldf, nlof_settings=nlof)
    # default normalizers (None); feature transforms: bounded maps of every feature but rho
    nfeat = fs.nfeat
    fl = []
    for i in range(1, nfeat):
        fl.append(SignedUMap(i, 1.0))
    flist = FeatureList(fl)
    n1 = len(fl)
    X1ctrl = rng.uniform(-0.8, 0.8, (nctrl, n1))
    alpha = rng.normal(size=nctrl) * 0.2
    kern = DiffRBF(length_scale=np.full(n1, 0.7))
    fe = KernelEvaluator(kern, X1ctrl, alpha)
    mk = MappedDFTKernel(fe, flist, mode, lda_x, zero_xc)
    return MappedXC([mk], fs)
