import sys, os, warnings
sys.path.insert(0, os.path.dirname(os.path.abspath(__file__)))
import cbuild
lib = cbuild.build(["mod_cider/cider_coefs.c"]); cbuild.patch_loader(lib)
import numpy as np
from ciderpress.dft import plans, settings as S
warnings.simplefilter("ignore")
st = S.NLDFSettingsVJ("MGGA", [1.0,0.0,0.03125], "one", ["se"], [[2.0,0.0,0.04]])
for cls in (plans.NLDFGaussianPlan, plans.NLDFSplinePlan):
    for ec in (1e-10, 0.0):
        try:
            pl = cls(st, 1, 0.01, 1.8, 12, alpha_formula="zexp", expcut=ec)
            rd = np.zeros((5,3)); rd[0] = [0.0, 1e-3, 1.0]; rd[4] = [0, 1e-4, 1.0]
            f = np.ones((3, 12))
            feat, dfeat = pl.eval_rho_full(f, rd, apply_transformation=True)
            print(cls.__name__, ec, feat, np.isfinite(pl.alpha_norms).all())
        except Exception as e:
            print(cls.__name__, ec, "EXC", repr(e)[:100])
