#!/usr/bin/env python3
"""C04 -- model evaluators return consistent energy densities and derivatives.
Static rules (DESIGN.md §C04):

 ret-arity      every function registered in BASELINE_CODES returns a 2-tuple (value, derivative)
                on every normal path (CFG, through sibling helper calls)
 accumulate-py  every FuncEvaluator.__call__ touches its shared res/dres buffers only by += / -=
                (or hands them to a delegate that is itself checked)
 accumulate-c   the C kernels bound to RBFEvaluator._fn write out/outd only by compound
                assignment, including through local pointer aliases and helper calls (clang AST)
 shape-guard    in RBFEvaluator.__call__ a shape test against X1 (or a fresh allocation) and a
                C-contiguity assertion lie on every path to the native call, for res and dres
 cutoff-pair    MappedDFTKernel{,2}.__call__: in every spin mode the value and the derivative are
                both zeroed, under masks built from the same density and the same cutoff
 mode-ladder    every if/elif ladder on self.mode in KernelEvalBase{,2}/MappedDFTKernel{,2} serves
                each of SEP/NPOL/POL with a non-raising arm and leaves no needed local unbound
 baseline-degree native exchange baselines (_*_x_helper): with the density of degree 1, the increment of
                dedx[k] has degree deg(e) - deg(X0T[k]) (degree engine sa/deg.py)
 singular-override  native baselines: no e/dedx increment carries a singular factor after the masked
                override that repairs it (C08's non-finite-taint rule run on baselines.py)
 cutoff-pair also requires the zeroing to precede every consumer of the zeroed arrays (see C08)
"""
import ast
import os
import sys

sys.path.insert(0, os.path.dirname(os.path.dirname(os.path.abspath(__file__))))
from sa import core, pyfacts as pf, cfg as cfgm, cfacts, evalrules as er  # noqa: E402
from sa.selftest import Mutant  # noqa: E402

PROP = "C04"
XE = "ciderpress/dft/xc_evaluator.py"
XE2 = "ciderpress/dft/xc_evaluator2.py"
BL = "ciderpress/dft/baselines.py"
MU_C = "mod_cider/model_utils.c"
MU_C_REL = "ciderpress/lib/mod_cider/model_utils.c"


# ----------------------------------------------------------------------------
# rule 1: registry sibling agreement
# ----------------------------------------------------------------------------
def rule_ret_arity(chk, prog):
    mod = prog.module(BL)
    tab = mod.assigns.get("BASELINE_CODES")
    if not isinstance(tab, ast.Dict):
        raise core.AnalysisError("BASELINE_CODES is no longer a literal dict in %s" % BL)
    for k, v in zip(tab.keys, tab.values):
        code = k.value if isinstance(k, ast.Constant) else pf.src(k)
        if not isinstance(v, ast.Name) or v.id not in mod.functions:
            raise core.AnalysisError("BASELINE_CODES[%r] = %s is not a function of %s" % (code, pf.src(v), BL))
        fn = mod.functions[v.id]
        shapes = er.return_shapes(mod, fn)
        inst = "BASELINE_CODES[%r] -> %s returns %s" % (code, v.id, sorted(map(str, shapes)))
        unknown = [s for s in shapes if isinstance(s, tuple)]
        bad = [s for s in shapes if not isinstance(s, tuple) and s != 2]
        for s in bad:
            line, text = shapes[s]
            what = {"None": "None", "value": "a single value"}.get(s, "a %s-tuple" % s)
            chk.violation("ret-arity", BL, v.id, "return shape of %s" % v.id, line,
                          "registered baseline %r must return (value, derivative) like its siblings "
                          "(callers unpack `m, dm = base_func(X0T)`), but a path returns %s: %s"
                          % (code, what, text), instance=inst)
        if unknown and not bad:
            raise core.AnalysisError("%s: cannot classify returned expression %s" % (v.id, unknown[0][1]))
        if not bad:
            if not shapes:
                raise core.AnalysisError("%s: no normal exit found" % v.id)
            chk.ok("ret-arity", inst)
    chk.count("registered baselines", len(tab.keys))


# ----------------------------------------------------------------------------
# rule 2: accumulate into shared buffers
# ----------------------------------------------------------------------------
def evaluator_classes(prog):
    out = []
    for rel in (XE, XE2):
        mod = prog.module(rel)
        for c in mod.classes.values():
            names = [cc.name for _, cc in prog.mro(mod, c)]
            if "FuncEvaluator" in names[1:]:
                out.append((mod, c))
    return out


def fn_attr_targets(prog, mod, cls):
    """C function names bound to `_fn` in cls and the evaluator classes derived from it."""
    out = {}
    for m, c in evaluator_classes(prog):
        names = [cc.name for _, cc in prog.mro(m, c)]
        if cls.name in names:
            nb = er.native_binding(m, c)
            if nb is not None:
                out[c.name] = nb[1]
    return out


def rule_accumulate(chk, prog, tree):
    base = prog.module(XE).cls("FuncEvaluator")
    bcall = pf.methods(base).get("__call__")
    if bcall is None or len(bcall.args.args) < 4:
        raise core.AnalysisError("FuncEvaluator.__call__(self, X1, res, dres) signature vanished")
    classes = evaluator_classes(prog)
    chk.count("FuncEvaluator subclasses", len(classes))
    c_jobs = {}
    native_attrs = {er.native_binding(m_, c_)[0] for m_, c_ in classes if er.native_binding(m_, c_)}
    for mod, cls in classes:
        fn = pf.methods(cls).get("__call__")
        if fn is None:
            chk.ok("accumulate-py", "%s inherits __call__" % cls.name, nontrivial=False)
            continue
        a = [x.arg for x in fn.args.args]
        if len(a) < 4:
            raise core.AnalysisError("%s.__call__ does not take (X1, res, dres)" % cls.name)
        bufs = a[2:4]
        bad, adds, dele = er.accumulate_facts(fn, bufs)
        where = "%s.__call__" % cls.name
        for st, b, why in bad:
            chk.violation("accumulate-py", mod.rel, where, pf.src(st), st.lineno,
                          "%s; MappedDFTKernel*.__call__ passes the same f/df arrays to every evaluator "
                          "of the list" % why, instance="%s %s" % (where, b))
        delegated = {b: [] for b in bufs}
        for call, passed in dele:
            f = call.func
            s = pf.src(f)
            if isinstance(f, ast.Attribute) and f.attr == "__call__" and s.startswith("super("):
                for b in passed:
                    delegated[b].append("super().__call__")
            elif pf.is_self_attr(f) and f.attr in native_attrs:
                for b, i in passed.items():
                    delegated[b].append("self._fn arg %d" % i)
                # the value and gradient arrays C accumulates into over the control points: the first two
                # native arguments, whether they are the shared buffers themselves or a scratch array that is
                # added to them afterwards
                for i, a_ in enumerate(call.args[:2]):
                    nm_ = pf.base_name(a_.func) if isinstance(a_, ast.Call) and isinstance(a_.func, ast.Attribute) \
                        else pf.base_name(a_)
                    if nm_ and nm_ != "self":
                        for cname, cfn in fn_attr_targets(prog, mod, cls).items():
                            c_jobs.setdefault(cfn, {})[i] = (nm_, cname)
            else:
                callee = None
                if isinstance(f, ast.Attribute) and isinstance(f.value, ast.Name) and f.value.id in ("self", "cls"):
                    r = prog.find_method(mod, cls, f.attr)
                    callee, skip = (r[2], True) if r else (None, True)
                elif isinstance(f, ast.Name) and f.id in mod.functions:
                    callee, skip = mod.functions[f.id], False
                if callee is None or callee is fn:
                    raise core.AnalysisError("%s passes the shared buffer(s) %s to `%s`, whose writes are not "
                                             "analysed" % (where, sorted(passed), s))
                bound = er._bind_call(callee, call, skip)
                inv = {a_.id: p_ for p_, a_ in bound.items() if isinstance(a_, ast.Name) and a_.id in bufs}
                cb, cadds, cdele = er.accumulate_facts(callee, sorted(inv.values()))
                if cdele:
                    raise core.AnalysisError("%s: helper `%s` hands the shared buffers on again; only one level of "
                                             "helper extraction is followed" % (where, callee.name))
                back = {p_: b_ for b_, p_ in inv.items()}
                for st, pb, why in cb:
                    bad.append((st, back[pb], "%s (in helper %s)" % (why, callee.name)))
                    chk.violation("accumulate-py", mod.rel, where, pf.src(st), st.lineno,
                                  "%s (in helper %s); MappedDFTKernel*.__call__ passes the same f/df arrays to every "
                                  "evaluator of the list" % (why, callee.name), instance="%s %s" % (where, back[pb]))
                for pb, lst in cadds.items():
                    if lst:
                        delegated[back[pb]].append("helper %s (+= inside)" % callee.name)
                        adds[back[pb]].extend(lst)
        for b in bufs:
            inst = "%s buffer %s" % (where, b)
            if any(x[1] == b for x in bad):
                continue
            if adds[b] or delegated[b]:
                chk.ok("accumulate-py", inst, detail="%d accumulating store(s), delegates: %s" % (
                    len(adds[b]), delegated[b]))
            elif b == bufs[1] and any(er.value_depends(fn, st.value, a[1]) for st in adds[bufs[0]]):
                # the value added to res depends on the contents of X1, so its X1-derivative cannot be
                # identically absent; an evaluator of a constant legitimately leaves dres alone
                dep = next(st for st in adds[bufs[0]] if er.value_depends(fn, st.value, a[1]))
                chk.violation("accumulate-py", mod.rel, where, "buffer %s" % b, fn.lineno,
                              "`%s` adds a value that depends on `%s` to `%s`, but nothing is ever added to the "
                              "derivative buffer `%s` (no += store, no delegate)" % (
                                  pf.src(dep), a[1], bufs[0], b), instance=inst)
            else:
                chk.ok("accumulate-py", inst + " (no contribution to this buffer)", nontrivial=False)
    # language boundary
    if not c_jobs:
        raise core.AnalysisError("no evaluator hands its buffers to a native `_fn`")
    tu = cfacts.TU(tree, MU_C)
    for cfn, idx in sorted(c_jobs.items()):
        params = tu.params(cfn)
        pn = {}
        for i, (b, cname) in idx.items():
            if i >= len(params):
                raise core.AnalysisError("%s has fewer parameters than the ctypes call passes" % cfn)
            pn[params[i]["name"]] = (b, cname)
        res = er.c_accumulate(tu, cfn, sorted(pn))
        for p, facts in sorted(res.items()):
            b, cname = pn[p]
            inst = "%s(%s) <- %s.%s" % (cfn, p, cname, b)
            if facts["extern"]:
                raise core.AnalysisError("%s passes `%s` to an external function: %s" % (
                    cfn, p, facts["extern"][0][1]))
            nbad = 0
            for line, text, infn in facts["plain"] + facts["other"]:
                nbad += 1
                chk.violation("accumulate-c", MU_C_REL, cfn, "%s: %s" % (infn, text), line,
                              "store through `%s` (the %s buffer shared by all evaluators of a mapped kernel) is "
                              "not an accumulation; expected `+=`/`-=`" % (p, b), instance=inst)
            if nbad:
                continue
            if not facts["compound"]:
                chk.violation("accumulate-c", MU_C_REL, cfn, "parameter %s" % p, tu.line_of(tu.func(cfn)),
                              "the kernel never accumulates into `%s`" % p, instance=inst)
            else:
                chk.ok("accumulate-c", inst, detail="%d compound store(s), e.g. %s" % (
                    len(facts["compound"]), facts["compound"][0][1]))
    chk.count("native kernels", len(c_jobs))


# ----------------------------------------------------------------------------
# rule 3: shape guards dominate the native call
# ----------------------------------------------------------------------------
def _mentions_attr_of(test, name, attr):
    for n in ast.walk(test):
        if isinstance(n, ast.Attribute) and n.attr == attr and isinstance(n.value, ast.Name) and n.value.id == name:
            return True
    return False


def _contig_in(expr):
    """names X for which `expr` (an asserted expression) states X.flags.c_contiguous / X.flags['C_CONTIGUOUS']"""
    out = set()
    if isinstance(expr, tuple):  # ('not', e): nothing positive is asserted
        return out
    for n in ast.walk(expr):
        if isinstance(n, ast.UnaryOp) and isinstance(n.op, ast.Not):
            return set()  # a negated sub-term: do not try to be clever
    for n in ast.walk(expr):
        if isinstance(n, ast.Attribute) and n.attr in ("c_contiguous", "contiguous") \
                and isinstance(n.value, ast.Attribute) and n.value.attr == "flags":
            b = pf.base_name(n.value.value)
            if b:
                out.add(b)
        if isinstance(n, ast.Subscript) and isinstance(n.value, ast.Attribute) and n.value.attr == "flags" \
                and isinstance(n.slice, ast.Constant) and str(n.slice.value).upper() in ("C_CONTIGUOUS", "C"):
            b = pf.base_name(n.value.value)
            if b:
                out.add(b)
    return out


def _contig_names_established(node):
    """names whose C-contiguity a CFG node establishes (assert, `if not ..: raise`, a loop over a
    literal list whose body asserts it for the loop variable, np.ascontiguousarray / fresh allocation)"""
    st = node.ast
    out = set()
    a = er.asserted(node)
    if a is not None:
        out |= _contig_in(a)
    if node.kind == "iter" and isinstance(st, ast.For) and isinstance(st.iter, (ast.List, ast.Tuple)) \
            and isinstance(st.target, ast.Name) and st.body:
        a0 = er.asserted_stmt(st.body[0])
        if a0 is not None and st.target.id in _contig_in(a0):
            out |= {e.id for e in st.iter.elts if isinstance(e, ast.Name)}
    if node.kind == "stmt" and isinstance(st, ast.Assign) and len(st.targets) == 1 \
            and isinstance(st.targets[0], ast.Name) and pf.call_name(st.value) in (
            "np.ascontiguousarray", "numpy.ascontiguousarray", "np.require",
            "np.zeros", "np.empty", "np.ones", "np.zeros_like", "np.empty_like"):
        # np.zeros_like of a non-contiguous template keeps its layout only with order="K"/"A" given a strided
        # template; the evaluators allocate from a shape tuple
        if pf.call_name(st.value) not in ("np.zeros_like", "np.empty_like"):
            out.add(st.targets[0].id)
    return out


def rule_shape_guard(chk, prog):
    mod, fn = er.anchor(prog, XE, "RBFEvaluator.__call__")
    a = [x.arg for x in fn.args.args]
    xname, bufs = a[1], a[2:4]
    g = cfgm.CFG(fn)
    nb = er.native_binding(prog.module(XE), prog.module(XE).cls("RBFEvaluator"))
    if nb is None:
        raise core.AnalysisError("RBFEvaluator binds no native function (<attr> = <lib>.<function>)")
    calls = [n for n in pf.walk_no_nested(fn) if isinstance(n, ast.Call) and pf.is_self_attr(n.func, nb[0])]
    if len(calls) != 1:
        raise core.AnalysisError("RBFEvaluator.__call__: expected exactly one call of the native function self.%s(...)"
                                 % nb[0])
    cnode = g.stmt_of_expr(calls[0])
    if cnode is None:
        raise core.AnalysisError("native call not found in the CFG")
    cls = prog.module(XE).cls("RBFEvaluator")
    # the arrays actually handed to C (value buffer, gradient buffer, inputs) -- the gradient buffer may be a
    # scratch array in the selected feature space that is scatter-added into dres afterwards
    handed = []
    for a_ in calls[0].args[:3]:
        nm_ = pf.base_name(a_.func) if isinstance(a_, ast.Call) and isinstance(a_.func, ast.Attribute) else None
        if nm_ is None or nm_ == "self":
            raise core.AnalysisError("RBFEvaluator.__call__: the first three native arguments are not local arrays")
        handed.append(nm_)
    dres_param = a[3]
    bufs, xname = handed[:2], handed[2]

    def shape_pred(b, x):
        def pred(node):
            st = node.ast
            if node.kind == "stmt" and isinstance(st, ast.Assign) and len(st.targets) == 1 \
                    and isinstance(st.targets[0], ast.Name) and st.targets[0].id == b \
                    and pf.call_name(st.value) in ("np.zeros", "np.empty", "np.zeros_like", "np.empty_like") \
                    and x in er.names_in(st.value):
                return True
            if node.kind == "test" and isinstance(st, ast.If) and _mentions_attr_of(st.test, b, "shape") \
                    and _mentions_attr_of(st.test, x, "shape") and cfgm._raises(st.body):
                return True
            a_ = er.asserted(node)
            if a_ is not None:
                e_ = a_[1] if isinstance(a_, tuple) else a_
                if _mentions_attr_of(e_, b, "shape") and _mentions_attr_of(e_, x, "shape"):
                    return True
            return False
        return pred

    def contig_pred(b):
        return lambda node: b in _contig_names_established(node)

    def through_helper(make_pred, names):
        """predicate on nodes of this function: the node calls a helper of the same class/module that
        establishes the property for the parameters bound to `names` on every path to its exit"""
        def pred(node):
            st = node.ast
            call = None
            if node.kind == "stmt" and isinstance(st, ast.Expr) and isinstance(st.value, ast.Call):
                call = st.value
            elif node.kind == "stmt" and isinstance(st, ast.Assign) and isinstance(st.value, ast.Call):
                call = st.value
            if call is None:
                return False
            f = call.func
            callee = None
            if isinstance(f, ast.Attribute) and isinstance(f.value, ast.Name) and f.value.id in ("self", "cls"):
                r = prog.find_method(mod, cls, f.attr)
                callee, skip = (r[2], True) if r else (None, True)
            elif isinstance(f, ast.Name) and f.id in mod.functions:
                callee, skip = mod.functions[f.id], False
            if callee is None or callee is fn:
                return False
            bound = er._bind_call(callee, call, skip)
            inv = {}
            for p_, a_ in bound.items():
                if isinstance(a_, ast.Name):
                    inv.setdefault(a_.id, p_)
            if not all(n_ in inv for n_ in names):
                return False
            gc = cfgm.CFG(callee)
            okc, _ = gc.must_pass(make_pred(*[inv[n_] for n_ in names]))
            return okc
        return pred

    for b in bufs:
        direct, helper = shape_pred(b, xname), through_helper(shape_pred, (b, xname))
        ok, wit = g.must_pass(lambda node: direct(node) or helper(node), dst=cnode.id)
        inst = "RBFEvaluator.__call__ shape of %s vs %s before self._fn" % (b, xname)
        if ok:
            chk.ok("shape-guard", inst)
        else:
            path = [g.nodes[i] for i in wit if g.nodes[i].ast is not None]
            chk.violation("shape-guard", XE, "RBFEvaluator.__call__", "shape guard of %s" % b, calls[0].lineno,
                          "the native kernel indexes `%s` as n x nfeat doubles taken from %s, but a path reaches "
                          "self._fn(...) without `%s.shape` being compared with `%s.shape` or `%s` being "
                          "allocated from it (path through lines %s)" % (
                              b, xname, b, xname, b, [getattr(p.ast, "lineno", "?") for p in path][:8]),
                          instance=inst)
    for b in bufs + [xname]:
        direct, helper = contig_pred(b), through_helper(contig_pred, (b,))
        ok, wit = g.must_pass(lambda node: direct(node) or helper(node), dst=cnode.id)
        inst = "RBFEvaluator.__call__ C-contiguity of %s before self._fn" % b
        if ok:
            chk.ok("shape-guard", inst)
        else:
            chk.violation("shape-guard", XE, "RBFEvaluator.__call__", "contiguity guard of %s" % b,
                          calls[0].lineno,
                          "`%s.ctypes.data_as` is handed to C, which assumes a dense row-major layout, but no "
                          "assertion on %s.flags.c_contiguous (nor np.ascontiguousarray) lies on every path to "
                          "the call" % (b, b), instance=inst)
    # the reassignment X1 = ascontiguousarray(X1[..., idx]) must precede the guards (they compare with the
    # array actually passed): the last binding of X1 before the call must dominate every shape test
    binds = [s for s, v, k in er.assigns_to(fn, xname)]
    tests = [n for n in g.nodes if n.kind == "test" and isinstance(n.ast, ast.If)
             and any(_mentions_attr_of(n.ast.test, b, "shape") for b in bufs)]
    for s in binds:
        sn = g.node_of(s)
        for t in tests:
            inst = "RBFEvaluator.__call__ `%s` bound before the test %s" % (xname, pf.src(t.ast.test))
            if sn is not None and sn.id in g.reachable(t.id) and cnode.id in g.reachable(sn.id):
                chk.violation("shape-guard", XE, "RBFEvaluator.__call__", pf.src(s), s.lineno,
                              "`%s` is rebound after `%s` was tested against its shape, so the tested shape is "
                              "not the shape of the array passed to C" % (xname, pf.src(t.ast.test)), instance=inst)
            else:
                chk.ok("shape-guard", inst, nontrivial=False)
    rule_native_selection(chk, prog, mod, fn, g, calls[0], cnode, handed, dres_param, a[1])


def rule_native_selection(chk, prog, mod, fn, g, call, cnode, handed, dres_param, xparam):
    """One column selection for everything one native call sees, and the full-width dres contract:
       * the inputs are selected by `X[..., self.<I>]`; the control points stored by __init__ must have been
         selected by the same index array on the path that builds it from the kernel's own `indexes`;
       * the gradient buffer handed to C, if it is not dres itself, must be scatter-added into
         dres[..., self.<I>] after the call;
       * dres is compared with the shape of the ORIGINAL input (every FuncEvaluator returns the gradient with
         respect to all input features), not with the shape of the selected columns."""
    where = "RBFEvaluator.__call__"
    gbuf, xloc = handed[1], handed[2]
    # selection attribute used for the inputs
    sel = None
    for st, v, k in er.assigns_to(fn, xloc):
        for x in ast.walk(v) if v is not None else ():
            if isinstance(x, ast.Subscript) and pf.base_name(x) == xparam:
                for y in ast.walk(x.slice):
                    if pf.is_self_attr(y):
                        sel = y.attr
    inst = "RBFEvaluator: inputs, control points and gradient use one column selection"
    if sel is None:
        chk.ok("shape-guard", inst + " (no selection)", nontrivial=False)
    else:
        imod, init = er.anchor(prog, XE, "RBFEvaluator.__init__")
        ctrl_arg = call.args[3] if len(call.args) > 3 else None
        ctrl_attr = next((x.attr for x in ast.walk(ctrl_arg) if pf.is_self_attr(x)), None) if ctrl_arg is not None else None
        if ctrl_attr is None:
            raise core.AnalysisError("RBFEvaluator.__call__: the control-point argument of the native call is not self.<attr>")
        # locals flowing into self.<sel> and self.<ctrl_attr>
        def local_of(attr):
            for n in pf.walk_no_nested(init):
                if isinstance(n, ast.Assign) and any(pf.is_self_attr(t, attr) for t in n.targets):
                    nm = [x.id for x in ast.walk(n.value) if isinstance(x, ast.Name) and x.id not in ("np",)]
                    return nm[0] if nm else None
            return None
        iloc, cloc = local_of(sel), local_of(ctrl_attr)
        if iloc is None or cloc is None:
            raise core.AnalysisError("RBFEvaluator.__init__: cannot find the locals stored in self.%s / self.%s" % (
                sel, ctrl_attr))
        problems = []
        for st, v, k in er.assigns_to(init, iloc):
            if v is None or not any(isinstance(x, ast.Attribute) and x.attr == "indexes" for x in ast.walk(v)):
                continue  # identity selection (all features) or a type conversion
            # the control points must be column-selected by the same local under the same conditions
            conds = {(pf.src(t), p) for t, p, kk in cfgm.conditions_at(st) if kk == "enclosing"}
            okc = False
            for st2, v2, k2 in er.assigns_to(init, cloc):
                if isinstance(v2, ast.Subscript) and pf.base_name(v2) == cloc \
                        and any(isinstance(x, ast.Name) and x.id == iloc for x in ast.walk(v2.slice)) \
                        and {(pf.src(t), p) for t, p, kk in cfgm.conditions_at(st2) if kk == "enclosing"} <= conds | {
                            (pf.src(t), p) for t, p, kk in cfgm.conditions_at(st2)}:
                    c2 = {(pf.src(t), p) for t, p, kk in cfgm.conditions_at(st2) if kk == "enclosing"}
                    if c2 == conds:
                        okc = True
            if not okc:
                problems.append(st)
        if problems:
            st = problems[0]
            chk.violation("shape-guard", XE, "RBFEvaluator.__init__", pf.src(st).splitlines()[0][:110], st.lineno,
                          "the inputs are reduced to the columns self.%s (built here from the kernel's `indexes`), and "
                          "the native call is told nfeat of that reduced space, but the control points stored in "
                          "self.%s are not reduced by the same selection on this path: C strides the two arrays "
                          "with different widths" % (sel, ctrl_attr), instance=inst)
        else:
            chk.ok("shape-guard", inst, detail="self.%s selects %s and %s" % (sel, xparam, cloc))
        # scatter of a scratch gradient buffer
        inst = "RBFEvaluator.__call__: the native gradient reaches dres through the same selection"
        if gbuf != dres_param:
            def scatter(node):
                st = node.ast
                return node.kind == "stmt" and isinstance(st, ast.AugAssign) and isinstance(st.op, ast.Add) \
                    and isinstance(st.target, ast.Subscript) and pf.base_name(st.target) == dres_param \
                    and any(pf.is_self_attr(x, sel) for x in ast.walk(st.target.slice)) \
                    and gbuf in er.names_in(st.value)
            okc, _ = g.must_pass(scatter, src=cnode.id)
            if okc:
                chk.ok("shape-guard", inst)
            else:
                chk.violation("shape-guard", XE, where, "gradient buffer %s" % gbuf, call.lineno,
                              "the native kernel writes the gradient into `%s` (selected columns), but no "
                              "`%s[..., self.%s] += %s` follows the call on every path: the gradient never reaches "
                              "the caller's buffer in the full feature space" % (gbuf, dres_param, sel, gbuf),
                              instance=inst)
        else:
            chk.ok("shape-guard", inst + " (dres itself is handed to C)", nontrivial=False)
    # full-width dres contract, for every evaluator with its own body
    for m2, c2 in evaluator_classes(prog):
        f2 = pf.methods(c2).get("__call__")
        if f2 is None:
            continue
        a2 = [x.arg for x in f2.args.args]
        if len(a2) < 4:
            continue
        xp, dp = a2[1], a2[3]
        g2 = cfgm.CFG(f2)
        for n in g2.nodes:
            st = n.ast
            if n.kind != "test" or not isinstance(st, ast.If) or not _mentions_attr_of(st.test, dp, "shape") \
                    or not cfgm._raises(st.body):
                continue
            inst = "%s.__call__: dres is compared with the shape of the original input" % c2.name
            okc = False
            for x in ast.walk(st.test):
                if isinstance(x, ast.Attribute) and x.attr == "shape" and isinstance(x.value, ast.Name) \
                        and x.value.id == xp:
                    okc = er.reaching_defs(g2, xp, n) == [None]
                elif isinstance(x, ast.Name) and x.id not in (dp, xp):
                    for st3, v3, k3 in er.assigns_to(f2, x.id):
                        if isinstance(v3, ast.Attribute) and v3.attr == "shape" and isinstance(v3.value, ast.Name) \
                                and v3.value.id == xp and er.reaching_defs(g2, xp, g2.node_of(st3)) == [None]:
                            okc = True
            if okc:
                chk.ok("shape-guard", inst)
            else:
                chk.violation("shape-guard", m2.rel, "%s.__call__" % c2.name, pf.src(st.test), st.lineno,
                              "`%s.shape` is not compared with the shape of the input `%s` as it was passed in (the "
                              "input is rebound to a column selection first): the evaluator's gradient contract is "
                              "the full input width, like its sibling evaluators" % (dp, xp), instance=inst)


# ----------------------------------------------------------------------------
# rule 4: cutoff pairing (shared with C08)
# ----------------------------------------------------------------------------
def rule_cutoff_pair(chk, prog):
    er.check_cutoff_pairing(chk, prog, ((XE, "MappedDFTKernel"), (XE2, "MappedDFTKernel2")))


# ----------------------------------------------------------------------------
# rule 5: degree of the native baselines (degree engine sa/deg.py)
# ----------------------------------------------------------------------------
def rule_baseline_degree(chk, prog):
    try:
        from sa import deg
    except Exception as ex:  # the engine is a separate module
        raise core.AnalysisError("degree engine sa/deg.py not importable: %s" % ex)
    mod = prog.module(BL)
    # the per-spin exchange kernels: module functions that a registered baseline hands on as a callable
    # (found from the public registry, not by name)
    helpers = {h: code for h, code in er.baseline_graph(mod)["helpers"].items()
               if len(mod.functions[h].args.args) == 3}
    if len(helpers) < 3:
        raise core.AnalysisError("fewer than 3 per-spin exchange kernels are handed on as callables by the functions "
                                 "registered in BASELINE_CODES")
    try:
        hooks = deg.ProgramHooks(prog)
        for hname, code in sorted(helpers.items()):
            fn = mod.functions[hname]
            a = [x.arg for x in fn.args.args]
            if len(a) != 3:
                raise core.AnalysisError("%s does not take (X0T, e, dedx)" % hname)
            eng = deg.Engine(hooks)
            X = deg.rows(0, {0: deg.Q(deg.Deg.of(rho=1))}, default=deg.Q(deg.D0))
            r = eng.run_function(fn, [X, deg.Q(deg.ANY), deg.rows(0, {}, default=deg.Q(deg.ANY))], mod=mod)
            ev, dv = r.env.get(a[1]), r.env.get(a[2])
            for mm in eng.mismatches:
                chk.violation("baseline-degree", BL, hname, mm.text, getattr(mm.node, "lineno", fn.lineno),
                              "terms of different degree in the density are combined: %s vs %s" % (
                                  deg.fmt(mm.left), deg.fmt(mm.right)),
                              instance="%s internal consistency" % hname)
            if not isinstance(ev, deg.Q) or ev.deg is deg.ANY or not isinstance(dv, deg.Q) or not dv.rows:
                raise core.AnalysisError("%s: the engine could not type the increments of e / dedx (%s, %s)" % (
                    hname, deg.fmt(ev), deg.fmt(dv)))
            for k in sorted(dv.rows):
                row = dv.row(k)
                xk = X.row(k)
                inst = "%s (%s): deg(dedx[%d]) = deg(e) - deg(X0T[%d])" % (hname, code, k, k)
                if not isinstance(row, deg.Q) or row.deg is deg.ANY:
                    chk.ok("baseline-degree", inst + " not comparable", nontrivial=False)
                    continue
                want = ev.deg - xk.deg
                if row.deg == want:
                    chk.ok("baseline-degree", inst, detail="e: %s, dedx[%d]: %s" % (deg.fmt(ev), k, deg.fmt(row)))
                else:
                    st = next((n for n in pf.walk_no_nested(fn) if isinstance(n, ast.AugAssign)
                               and isinstance(n.target, ast.Subscript) and pf.base_name(n.target) == a[2]
                               and isinstance(n.target.slice, ast.Constant) and n.target.slice.value == k), fn)
                    chk.violation("baseline-degree", BL, hname, pf.src(st) if st is not fn else "dedx[%d]" % k,
                                  st.lineno,
                                  "with X0T[0] (the density) of degree 1 and the other features of degree 0, the "
                                  "energy increment has degree %s, so d e / d X0T[%d] must have degree %s, but the "
                                  "increment of dedx[%d] has degree %s" % (
                                      deg.fmt(ev), k, deg.fmt(deg.Q(want)), k, deg.fmt(row)), instance=inst)
    except core.AnalysisError:
        raise
    except (AttributeError, TypeError) as ex:
        raise core.AnalysisError("degree engine API differs from the one this rule was written against: %r" % ex)
    chk.count("native exchange helpers", len(helpers))


def rule_grad_pairing_shared(chk, prog, tree):
    import importlib
    c11 = importlib.import_module("checks.c11")
    c11.rule_grad_pairing(chk, prog, tree)


def rule_baseline_singular(chk, prog):
    """C08's non-finite-taint rule restricted to the native baselines (same engine, same code)."""
    import importlib
    c08 = importlib.import_module("checks.c08")
    d = c08.Den(chk, prog)
    entries = c08.baseline_entries(prog)
    for rel, qual, fn in entries:
        d.interp.call_function(fn, {})
    c08.rule_singular_override(chk, d, len(entries))


# ----------------------------------------------------------------------------
# rule 8: read slot == write slot for spin-resolved inputs and their derivative buffers
# ----------------------------------------------------------------------------
def rule_slot_pairing(chk, prog):
    done = set()
    n = 0
    for rel, cname in LADDER_CLASSES:
        mod = prog.module(rel)
        for m, c in prog.mro(mod, mod.cls(cname)):
            for mname, fn in pf.methods(c).items():
                if id(fn) in done:
                    continue
                done.add(id(fn))
                for rec in er.slot_pairing(fn):
                    n += 1
                    where = "%s.%s" % (c.name, mname)
                    rs = {s_ for s_, _ in rec["reads"]}
                    ws = {s_ for s_, _ in rec["writes"]}
                    inst = "%s: slots of `%s` read == slots of its derivative buffer written" % (where, rec["template"])
                    if rs == ws:
                        chk.ok("slot-pairing", inst, detail="slot(s) %s" % sorted(rs))
                        continue
                    bad = next((nd for s_, nd in rec["reads"] if s_ not in ws), None)
                    if bad is None:
                        bad = next(nd for s_, nd in rec["writes"] if s_ not in rs)
                    stmt = bad
                    while not isinstance(stmt, ast.stmt):
                        stmt = pf.parent(stmt)
                    chk.violation("slot-pairing", m.rel, where, pf.src(stmt).splitlines()[0][:110], bad.lineno,
                                  "inside `for %s in %s`, `%s` is read at slot(s) %s but the buffer created as "
                                  "zeros_like(%s), which receives the derivative with respect to it, is written at "
                                  "slot(s) %s: the derivative stored for a spin channel is not the derivative with "
                                  "respect to the input that was evaluated" % (
                                      rec["loop"].target.id, pf.src(rec["loop"].iter), rec["template"], sorted(rs),
                                      rec["template"], sorted(ws)), instance=inst)
    chk.count("input/derivative-buffer slot pairs", n)


# ----------------------------------------------------------------------------
# rule 9: constant None/truth tests on methods; the guard of the additive baseline
# ----------------------------------------------------------------------------
def _truth_tests(fn):
    """(expression `self.<name>`, kind) for every None comparison / truthiness use of a self attribute"""
    out = []
    for n in pf.walk_no_nested(fn):
        if isinstance(n, ast.Compare) and len(n.ops) == 1 and isinstance(n.ops[0], (ast.Is, ast.IsNot, ast.Eq, ast.NotEq)) \
                and isinstance(n.comparators[0], ast.Constant) and n.comparators[0].value is None \
                and pf.is_self_attr(n.left):
            out.append((n.left, "compared with None", n))
        tests = []
        if isinstance(n, (ast.If, ast.While, ast.IfExp, ast.Assert)):
            tests.append(n.test)
        elif isinstance(n, ast.BoolOp):
            tests += n.values
        elif isinstance(n, ast.UnaryOp) and isinstance(n.op, ast.Not):
            tests.append(n.operand)
        for t in tests:
            if pf.is_self_attr(t):
                out.append((t, "used as a truth value", n))
    return out


def _data_attrs(prog, mod, cls):
    """names that are (also) data on instances of cls: class-level assignments and self.<name> = ... stores
    anywhere in the classes of the MRO"""
    out = set()
    for m, c in prog.mro(mod, cls):
        out |= set(pf.class_attrs(c))
        for fn in pf.methods(c).values():
            for n in pf.walk_no_nested(fn):
                if isinstance(n, (ast.Assign, ast.AugAssign, ast.AnnAssign)):
                    for t in (n.targets if isinstance(n, ast.Assign) else [n.target]):
                        for x in ast.walk(t):
                            if pf.is_self_attr(x) and isinstance(x.ctx, ast.Store):
                                out.add(x.attr)
    return out


def rule_method_truth(chk, prog):
    ntests = 0
    for rel in (XE, XE2):
        mod = prog.module(rel)
        for cname, cls in mod.classes.items():
            data = _data_attrs(prog, mod, cls)
            for mname, fn in pf.methods(cls).items():
                for attr, kind, node in _truth_tests(fn):
                    r = prog.find_method(mod, cls, attr.attr)
                    ntests += 1
                    inst = "%s.%s: `%s` %s is a test on data" % (cname, mname, pf.src(attr), kind)
                    if r is None or attr.attr in data or any(
                            pf.src(d).split(".")[-1] in ("property", "cached_property", "setter")
                            for d in r[2].decorator_list):
                        chk.ok("method-truth", inst)
                        continue
                    chk.violation("method-truth", rel, "%s.%s" % (cname, mname), pf.src(node)[:110], node.lineno,
                                  "`%s` is %s, but it resolves to the method %s.%s (not a property, never assigned "
                                  "on the instance): a bound method is never None and always true, so the test is "
                                  "constant and the state it was meant to inspect is never checked" % (
                                      pf.src(attr), kind, r[1].name, attr.attr), instance=inst)
    chk.count("None/truth tests on self attributes", ntests)
    # twins: the call of the additive baseline is guarded by a None test on an attribute that the
    # additive-baseline method itself reads
    for rel, cname in ((XE, "KernelEvalBase"), (XE2, "KernelEvalBase2")):
        mod = prog.module(rel)
        cls = mod.cls(cname)
        r = prog.find_method(mod, cls, "additive_baseline")
        if r is None:
            raise core.AnalysisError("%s.additive_baseline vanished" % cname)
        reads = {x.attr for x in ast.walk(r[2]) if pf.is_self_attr(x) and isinstance(x.ctx, ast.Load)
                 and prog.find_method(mod, cls, x.attr) is None}
        sites = 0
        for mname, fn in pf.methods(cls).items():
            if fn is r[2]:
                continue
            for call in pf.walk_no_nested(fn):
                if not (isinstance(call, ast.Call) and pf.is_self_attr(call.func, "additive_baseline")):
                    continue
                sites += 1
                guards = set()
                for t, pol, kind in cfgm.conditions_at(call):
                    exprs = [t]
                    for x in ast.walk(t):
                        if isinstance(x, ast.Name):
                            d = er.reaching_assign(fn, x.id, call)
                            if d is not None:
                                exprs.append(d.value)
                    for e in exprs:
                        for x in ast.walk(e):
                            if isinstance(x, ast.Compare) and len(x.ops) == 1 and isinstance(x.ops[0], (ast.Is, ast.IsNot)) \
                                    and isinstance(x.comparators[0], ast.Constant) and x.comparators[0].value is None \
                                    and pf.is_self_attr(x.left):
                                guards.add(x.left.attr)
                inst = "%s.%s: the additive baseline is guarded by the attribute it reads" % (cname, mname)
                own_guard = any(isinstance(x, ast.Compare) and pf.is_self_attr(x.left) and x.left.attr in reads
                                and isinstance(x.comparators[0], ast.Constant) and x.comparators[0].value is None
                                for x in ast.walk(r[2]))
                if guards & reads or (not guards and own_guard):
                    chk.ok("method-truth", inst, detail="guard on self.%s" % sorted((guards & reads) or reads)[0])
                elif guards:
                    chk.violation("method-truth", rel, "%s.%s" % (cname, mname), pf.src(call)[:100], call.lineno,
                                  "the call of additive_baseline is guarded by a None test on self.%s, but "
                                  "additive_baseline reads self.%s: the guard does not inspect the state the call "
                                  "depends on (its twin class guards on the attribute it reads)" % (
                                      sorted(guards)[0], "/self.".join(sorted(reads)) or "<nothing>"), instance=inst)
                else:
                    chk.ok("method-truth", inst + " (unguarded call; the method handles None itself)",
                           nontrivial=False)
        if not sites:
            raise core.AnalysisError("%s never calls self.additive_baseline(...)" % cname)


# ----------------------------------------------------------------------------
# rule 10: a leading dimension is not a spin count unless the rank / mode says so; twin agreement on the
#          duplicated-channel factor
# ----------------------------------------------------------------------------
def _conjuncts(t, out):
    if isinstance(t, ast.BoolOp) and isinstance(t.op, ast.And):
        for v in t.values:
            _conjuncts(v, out)
    else:
        out.append(t)


def rule_spin_axis(chk, prog):
    n_tests = 0
    for rel in (XE, XE2):
        mod = prog.module(rel)
        er.register_str_consts(mod)
        for cname, cls in mod.classes.items():
            for mname, fn in pf.methods(cls).items():
                # arrays whose rank is fixed in this function: `a, b, c = A.shape`, `assert A.ndim == k`
                ranked = set()
                for n in pf.walk_no_nested(fn):
                    if isinstance(n, ast.Assign) and isinstance(n.targets[0], (ast.Tuple, ast.List)) \
                            and isinstance(n.value, ast.Attribute) and n.value.attr == "shape":
                        ranked.add(pf.src(n.value.value))
                    a_ = er.asserted_stmt(n) if isinstance(n, (ast.Assert, ast.If)) else None
                    if a_ is not None and not isinstance(a_, tuple):
                        lits = []
                        _conjuncts(a_, lits)
                        for l in lits:
                            if isinstance(l, ast.Compare) and isinstance(l.left, ast.Attribute) and l.left.attr == "ndim" \
                                    and isinstance(l.ops[0], ast.Eq):
                                ranked.add(pf.src(l.left.value))
                for n in pf.walk_no_nested(fn):
                    if not (isinstance(n, ast.Compare) and len(n.ops) == 1 and isinstance(n.ops[0], (ast.Eq, ast.NotEq))
                            and isinstance(n.comparators[0], ast.Constant) and isinstance(n.comparators[0].value, int)
                            and not isinstance(n.comparators[0].value, bool)
                            and isinstance(n.left, ast.Subscript) and isinstance(n.left.value, ast.Attribute)
                            and n.left.value.attr == "shape" and isinstance(n.left.slice, ast.Constant)
                            and n.left.slice.value == 0):
                        continue
                    arr = pf.src(n.left.value.value)
                    n_tests += 1
                    # the conjunction the test belongs to, plus the conditions it runs under
                    top = n
                    while isinstance(pf.parent(top), ast.BoolOp) and isinstance(pf.parent(top).op, ast.And):
                        top = pf.parent(top)
                    lits = []
                    _conjuncts(top, lits)
                    lits += [t for t, pol, k in cfgm.conditions_at(n) if pol]
                    flat = []
                    for l in lits:
                        _conjuncts(l, flat)
                    okc = arr in ranked
                    for l in flat:
                        if er.mode_set_of_test(l) is not None:
                            okc = True
                        if isinstance(l, ast.Compare) and isinstance(l.left, ast.Attribute) and l.left.attr == "ndim" \
                                and pf.src(l.left.value) == arr:
                            okc = True
                    inst = "%s.%s: `%s` is tied to the rank / spin mode of %s" % (cname, mname, pf.src(n), arr)
                    if okc:
                        chk.ok("spin-axis", inst)
                    else:
                        chk.violation("spin-axis", rel, "%s.%s" % (cname, mname), pf.src(top)[:110], n.lineno,
                                      "`%s` is used as \"there are %s spin channels\", but nothing in this condition "
                                      "fixes the rank of `%s` or the spin mode: when axis 0 is the flattened "
                                      "(spin x sample) axis, a batch of exactly %s samples takes this branch too"
                                      % (pf.src(n), n.comparators[0].value, arr, n.comparators[0].value), instance=inst)
    chk.count("leading-dimension tests", n_tests)
    # twins: the duplicated-channel factor of POL mode with a single input channel
    facts = {}
    for rel, cname in ((XE, "MappedDFTKernel"), (XE2, "MappedDFTKernel2")):
        mod, fn = er.anchor(prog, rel, "%s.__call__" % cname)
        rets = [x for x in pf.walk_no_nested(fn) if isinstance(x, ast.Return)]
        if len(rets) != 1 or not isinstance(rets[0].value, ast.Tuple) or len(rets[0].value.elts) != 2:
            raise core.AnalysisError("%s.__call__: expected `return <value>, <derivative>`" % cname)
        dname = pf.src(rets[0].value.elts[1])
        dflow = er.flow_closure(fn, dname)
        found = set()
        for st in pf.walk_no_nested(fn):
            if not (isinstance(st, ast.Assign) and len(st.targets) == 1 and isinstance(st.targets[0], ast.Name)
                    and st.targets[0].id in dflow):
                continue
            v, t = st.value, st.targets[0].id
            if isinstance(v, ast.BinOp) and isinstance(v.op, ast.Mult):
                for c_, x_ in ((v.left, v.right), (v.right, v.left)):
                    if isinstance(c_, ast.Constant) and isinstance(x_, ast.Subscript) and pf.base_name(x_) == t \
                            and isinstance(x_.slice, ast.Slice) and pf.src(x_.slice) in (":1", "0:1"):
                        modes, other = er.split_conditions(st)
                        found.add((c_.value, tuple(sorted(modes)),
                                   tuple(sorted((txt.replace(" ", ""), p) for txt, p in other))))
        facts[cname] = found
    (c1, f1), (c2, f2) = sorted(facts.items())
    inst = "MappedDFTKernel and MappedDFTKernel2 agree on the duplicated-channel factor of the derivative"
    if f1 == f2:
        chk.ok("spin-axis", inst, detail=str(sorted(f1)))
    else:
        missing, has = (c1, c2) if f2 - f1 else (c2, c1)
        item = sorted((f2 - f1) or (f1 - f2))[0]
        chk.violation("spin-axis", XE if missing == "MappedDFTKernel" else XE2, "%s.__call__" % missing,
                      "duplicated-channel factor", 0,
                      "%s.__call__ multiplies the derivative by %s and keeps one channel under modes %s, conditions %s; "
                      "its twin %s.__call__ has no such statement: for the same inputs the two evaluators return "
                      "derivatives that differ by that factor" % (has, item[0], list(item[1]), list(item[2]), missing),
                      instance=inst)


# ----------------------------------------------------------------------------
# rule 11: forward and backward feature transforms are evaluated at the same point
# ----------------------------------------------------------------------------
def _inline_point(fn, e, at, depth=0):
    """text of the expression with single reaching-assignment locals inlined (X0T_sum -> X0T.mean(0))"""
    if isinstance(e, ast.Name) and depth < 3:
        d = er.reaching_assign(fn, e.id, at)
        if d is not None and not isinstance(d.value, ast.Call) or (
                d is not None and isinstance(d.value, ast.Call) and isinstance(d.value.func, ast.Attribute)
                and d.value.func.attr in ("mean", "sum", "copy")):
            return _inline_point(fn, d.value, d, depth + 1)
    return pf.src(e).replace(" ", "")


def rule_fwd_bwd_point(chk, prog):
    per_class = {}
    for rel, cname in ((XE, "KernelEvalBase"), (XE2, "KernelEvalBase2")):
        mod = prog.module(rel)
        er.register_str_consts(mod)
        cls = mod.cls(cname)
        fwd, bwd = {}, {}
        for m, c in prog.mro(mod, cls):
            for mname, fn in pf.methods(c).items():
                for call in pf.walk_no_nested(fn):
                    if not (isinstance(call, ast.Call) and isinstance(call.func, ast.Attribute)
                            and call.func.attr in ("fill_vals_", "fill_derivs_") and call.args):
                        continue
                    point = _inline_point(fn, call.args[-1], call)
                    modes, _ = er.split_conditions(call)
                    tgt = fwd if call.func.attr == "fill_vals_" else bwd
                    for md in modes:
                        tgt.setdefault(md, {}).setdefault(point, (mname, call))
        if not fwd or not bwd:
            raise core.AnalysisError("%s: fill_vals_/fill_derivs_ calls not found" % cname)
        per_class[cname] = (rel, fwd, bwd)
        for md in er.MODES:
            f_, b_ = fwd.get(md, {}), bwd.get(md, {})
            inst = "%s mode %s: fill_derivs_ linearises at the point fill_vals_ was evaluated at" % (cname, md)
            if set(f_) == set(b_):
                chk.ok("fwd-bwd-point", inst, detail=", ".join(sorted(f_)))
            else:
                odd = sorted(set(b_) - set(f_)) or sorted(set(f_) - set(b_))
                mname, call = (b_.get(odd[0]) or f_.get(odd[0]))
                chk.violation("fwd-bwd-point", rel, "%s.%s" % (cname, mname), pf.src(call)[:110], call.lineno,
                              "mode %s: the descriptors are computed by fill_vals_ at %s but their derivative is "
                              "propagated back by fill_derivs_ at %s: the chain rule is applied at a different "
                              "point than the one the model was evaluated at" % (md, sorted(f_), sorted(b_)),
                              instance=inst)
    (c1, (r1, f1, b1)), (c2, (r2, f2, b2)) = sorted(per_class.items())
    for md in er.MODES:
        inst = "mode %s: %s and %s evaluate the feature transforms at the same points" % (md, c1, c2)
        if set(f1.get(md, {})) == set(f2.get(md, {})) and set(b1.get(md, {})) == set(b2.get(md, {})):
            chk.ok("fwd-bwd-point", inst, nontrivial=False)
        else:
            chk.note("fwd-bwd-point", "%s / %s" % (r1, r2), "mode %s: the twin classes use different points: %s vs %s"
                     % (md, sorted(set(f1.get(md, {})) | set(b1.get(md, {}))),
                        sorted(set(f2.get(md, {})) | set(b2.get(md, {})))))
            chk.ok("fwd-bwd-point", inst + " (differ, noted)", nontrivial=False)


# ----------------------------------------------------------------------------
# rule 6: mode ladders
# ----------------------------------------------------------------------------
LADDER_CLASSES = ((XE, "KernelEvalBase"), (XE, "MappedDFTKernel"), (XE2, "KernelEvalBase2"),
                  (XE2, "MappedDFTKernel2"))


def rule_mode_ladders(chk, prog):
    nl = 0
    for rel, cname in LADDER_CLASSES:
        er.register_str_consts(prog.module(rel))
        cls = prog.module(rel).cls(cname)
        for mname, fn in pf.methods(cls).items():
            # the universe of modes is frozen; a new literal means the rule's table is stale
            for n in pf.walk_no_nested(fn):
                if isinstance(n, ast.Compare) and pf.is_self_attr(n.left, "mode"):
                    for c in n.comparators:
                        for k in ast.walk(c):
                            kv = er._str_value(k) if isinstance(k, (ast.Constant, ast.Name)) else None
                            if kv is not None and kv not in er.MODES:
                                raise core.AnalysisError("%s.%s compares self.mode with %r, not one of %s" % (
                                    cname, mname, kv, er.MODES))
            for head, arms, els in er.mode_ladders(fn):
                nl += 1
                where = "%s.%s" % (cname, mname)
                desc = " / ".join("|".join(sorted(ms)) for ms, _ in arms) + (" / else" if els else "")
                for mode in er.MODES:
                    inst = "%s ladder [%s] mode %s" % (where, desc, mode)
                    arm = next((body for ms, body in arms if mode in ms), None)
                    if arm is None:
                        arm = els
                    if arm is not None and er.raises_only(arm):
                        chk.violation("mode-ladder", rel, where, "ladder [%s] mode %s" % (desc, mode), head.lineno,
                                      "spin mode %s reaches `%s` in this ladder: the evaluator cannot be used in "
                                      "one of its three documented modes" % (mode, pf.src(arm[0])), instance=inst)
                    elif arm is None:
                        # no arm, no else: fine unless the arms bind a local that is needed afterwards
                        bound = None
                        for ms, body in arms:
                            if er.raises_only(body):
                                continue
                            b = set()
                            for st in body:
                                for x in ast.walk(st):
                                    if isinstance(x, ast.Name) and isinstance(x.ctx, ast.Store):
                                        b.add(x.id)
                            bound = b if bound is None else (bound & b)
                        bound = bound or set()
                        before = set(er.param_names(fn))
                        after = set()
                        end = head.end_lineno
                        for x in pf.walk_no_nested(fn):
                            if isinstance(x, ast.Name):
                                if isinstance(x.ctx, ast.Store) and x.lineno < head.lineno:
                                    before.add(x.id)
                                elif isinstance(x.ctx, ast.Load) and x.lineno > end:
                                    after.add(x.id)
                        need = (bound - before) & after
                        if need:
                            chk.violation("mode-ladder", rel, where, "ladder [%s] mode %s" % (desc, mode),
                                          head.lineno,
                                          "spin mode %s matches no arm and there is no else: %s stay(s) unbound "
                                          "but is read after the ladder" % (mode, sorted(need)), instance=inst)
                        else:
                            chk.ok("mode-ladder", inst + " (no arm needed)", nontrivial=False)
                    else:
                        chk.ok("mode-ladder", inst)
    chk.count("mode ladders", nl)


# ----------------------------------------------------------------------------
def _analyse_own(chk):
    tree = chk.tree
    prog = pf.Program(tree, [XE, XE2, BL, "ciderpress/dft/settings.py"])
    chk.rule("ret-arity", "every BASELINE_CODES function returns a (value, derivative) 2-tuple on every path")
    chk.rule("accumulate-py", "FuncEvaluator.__call__ writes res/dres only by += / -= or checked delegation")
    chk.rule("accumulate-c", "C kernels behind RBFEvaluator._fn write out/outd only by compound assignment")
    chk.rule("shape-guard", "shape and contiguity guards lie on every path to the native call")
    chk.rule("cutoff-pair", "every spin mode zeroes value and derivative under masks of the same density/cutoff")
    chk.rule("mode-ladder", "every self.mode ladder serves SEP, NPOL and POL")
    chk.rule("baseline-degree", "native baselines: degree(dedx[k] increment) = degree(e increment) - degree(X0T[k])")
    chk.guard(rule_ret_arity, prog)
    chk.guard(rule_accumulate, prog, tree)
    chk.guard(rule_shape_guard, prog)
    chk.guard(rule_cutoff_pair, prog)
    chk.rule("stale-loop-var", "evaluator classes: no `for` target is read after its loop has ended (a statement "
                               "dedented out of a per-spin / per-term loop acts on the last item only)")
    chk.guard(lambda c_: er.check_stale_loop_vars(
        c_, prog, list(LADDER_CLASSES) + [(m_.rel, k_.name) for m_, k_ in evaluator_classes(prog)]))
    chk.floor("stale-loop-var", 4, "methods with loops in the evaluator base classes and FuncEvaluator subclasses")
    chk.guard(rule_mode_ladders, prog)
    # C kernels: the gradient stores pair with the value's exponent terms and no (sample, control) pair is skipped
    # on a condition on the sample (C11's grad-pairing rule, same code): the derivative is the gradient of the value
    chk.rule("grad-pairing", "C kernels: gradient calls differentiate the factor they are given; no sample-conditioned skip")
    chk.guard(rule_grad_pairing_shared, prog, tree)
    chk.floor("grad-pairing", 5, "gradient calls and completeness obligations of the 3 bound kernels")
    chk.rule("fwd-bwd-point", "per spin mode, fill_derivs_ receives the same input point as fill_vals_")
    chk.guard(rule_fwd_bwd_point, prog)
    chk.floor("fwd-bwd-point", 3, "2 classes x 3 modes")
    chk.rule("spin-axis", "a test `A.shape[0] == k` standing for k spin channels is tied to the rank of A or to the "
                          "spin mode; the twin mapped kernels apply the same duplicated-channel factor")
    chk.guard(rule_spin_axis, prog)
    chk.floor("spin-axis", 3, "leading-dimension tests in the evaluator modules + the twin comparison")
    chk.rule("method-truth", "no None/truthiness test on a self attribute that resolves to a plain method; the "
                             "additive baseline is guarded by a None test on the attribute its method reads")
    chk.guard(rule_method_truth, prog)
    chk.floor("method-truth", 3, "None tests on self attributes + the two additive-baseline call sites")
    chk.rule("slot-pairing", "spin loops: the slot of an input array that is read and the slot of its zeros_like "
                             "derivative buffer that is written are the same expression of the loop variable")
    chk.guard(rule_slot_pairing, prog)
    chk.floor("slot-pairing", 1, "rho, sigma, tau of the per-spin libxc baseline")
    chk.guard(rule_baseline_degree, prog)
    chk.rule("singular-override", "native baselines: no output carries a singular factor after the masked override "
                                  "that repairs it (rule shared with C08: a derivative made singular again is not "
                                  "the gradient of the repaired value)")
    chk.guard(rule_baseline_singular, prog)
    chk.floor("singular-override", 8, "increments of the 4 exchange helpers")
    chk.floor("baseline-degree", 3, "4 native exchange helpers")
    chk.floor("ret-arity", 4, "8 entries of BASELINE_CODES today")
    chk.floor("accumulate-py", 5, "5 evaluator classes with their own body")
    chk.floor("accumulate-c", 3, "3 native kernels")
    chk.floor("shape-guard", 3, "shape + contiguity guards of RBFEvaluator.__call__")
    chk.floor("cutoff-pair", 4, "2 classes x 3 modes + ordering")
    chk.floor("mode-ladder", 15, "about 13 ladders x 3 modes today")
    chk.assumptions += [
        "densities are non-negative (a per-spin mask `rho_s < cut` contains the summed mask `sum_s rho_s < cut`)",
        "the evaluators of one MappedDFTKernel share f/df exactly as written in MappedDFTKernel*.__call__",
        "numpy `x[...] += y` and `x += y` on ndarrays update in place",
    ]
    chk.not_decided += [
        "numerical equality of dres with the gradient of res",
        "numeric coefficients of the native baselines' derivatives (the degree rule sees exponents, not factors)",
        "what libxc returns for the libxc-backed baselines",
    ]


def analyse(chk):
    _analyse_own(chk)
    chk.guard(lambda c_: core.include_findings(c_, 'C09', files=['ciderpress/dft/baselines.py', 'ciderpress/dft/xc_evaluator'], rules=['hidden-write'],
                                               why='a baseline or evaluator that overwrites its input arrays makes the returned derivatives inconsistent with the energy of the inputs the caller still holds'))
    chk.guard(lambda c_: core.include_findings(c_, 'C10', files=['ciderpress/lib/mod_cider/model_utils.c'], rules=None,
                                               why='a data race in the native kernel evaluators corrupts res/dres'))


def _drop_x1_contiguity(text):
    a = "X1 = np.ascontiguousarray(X1[..., self._indexes])\n        if res is None:"
    b = "for arr in [res, dsub, X1]:"
    if text.count(a) != 1 or text.count(b) != 1:
        return None
    return text.replace(a, "X1 = X1[..., self._indexes]\n        if res is None:").replace(b, "for arr in [res, dsub]:")


def mutants(tree):
    return [
        Mutant("baseline loses its return", BL, "    e[:] /= nspin\n    dedx[:] /= nspin\n    return e, dedx\n",
               "    e[:] /= nspin\n    dedx[:] /= nspin\n", expect="ret-arity"),
        Mutant("baseline returns only the value", BL, "    return e * rho.sum(0), dedx\n",
               "    return e * rho.sum(0)\n", expect="ret-arity"),
        Mutant("one_xc returns 3-tuple", BL, "    e = np.ones(nsamp)\n    dedx = np.zeros_like(X0T)\n    return e, dedx",
               "    e = np.ones(nsamp)\n    dedx = np.zeros_like(X0T)\n    return e, dedx, None", expect="ret-arity"),
        Mutant("lda_x derivative exponent 1/3 -> 4/3", BL, "dedx[0] += 4.0 / 3 * LDA_FACTOR * rho ** (1.0 / 3)\n\n\ndef _vi",
               "dedx[0] += 4.0 / 3 * LDA_FACTOR * rho ** (4.0 / 3)\n\n\ndef _vi", expect="baseline-degree"),
        Mutant("pbe_x gradient-slot derivative loses rho**(4/3)", BL, "dedx[1] += LDA_FACTOR * rho ** (4.0 / 3) * dfx",
               "dedx[1] += LDA_FACTOR * rho ** (1.0 / 3) * dfx", expect="baseline-degree"),
        Mutant("chachiyo: small-s2 override moved before the chain-rule factor (shared C08 rule)", BL,
               "    dchfx *= dx\n    chfx[s2 < 1e-8] = 1 + 8 * s2[s2 < 1e-8] / 27\n    dchfx[s2 < 1e-8] = 8.0 / 27\n",
               "    chfx[s2 < 1e-8] = 1 + 8 * s2[s2 < 1e-8] / 27\n    dchfx[s2 < 1e-8] = 8.0 / 27\n    dchfx *= dx\n",
               expect="singular-override"),
        Mutant("v1 SEP: derivative zeroing dedented out of the spin loop", XE,
               "                    res[s][cond[s]] = 0.0\n                    dres[s][:, cond[s]] = 0.0\n",
               "                    res[s][cond[s]] = 0.0\n                dres[s][:, cond[s]] = 0.0\n",
               expect="stale-loop-var"),
        Mutant("spline evaluator: gradient accumulation dedented out of the term loop", XE,
               "            res[:] += y * self.scale[t]\n            dres[:, ind_set] += dy * self.scale[t]\n",
               "            res[:] += y * self.scale[t]\n        dres[:, ind_set] += dy * self.scale[t]\n",
               expect="stale-loop-var"),
        Mutant("per-spin baseline: sigma read at slot s, derivative written at slot 2*s", XE2,
               "tuple_s.append(4 * rho_tuple[1][2 * s : 2 * s + 1])", "tuple_s.append(4 * rho_tuple[1][s : s + 1])",
               expect="slot-pairing"),
        Mutant("per-spin baseline: sigma derivative written at slot s", XE2,
               "sep_res[2][2 * s] = 2 * res[2]", "sep_res[2][s] = 2 * res[2]", expect="slot-pairing"),
        Mutant("additive-baseline guard tests the bound method", XE,
               "add_base = add_base and self._add_basefunc is not None",
               "add_base = add_base and self.additive_baseline is not None", expect="method-truth"),
        Mutant("v2 additive-baseline guard tests the bound method", XE2,
               "add_base = add_base and self._add_basefunc is not None",
               "add_base = add_base and self.additive_baseline is not None", expect="method-truth"),
        Mutant("truthiness of a method used as a flag", XE,
               "        if add_base:\n            a, da = self.additive_baseline(X0T)\n",
               "        if add_base and self.multiplicative_baseline:\n            a, da = self.additive_baseline(X0T)\n",
               expect="method-truth"),
        Mutant("apply_descriptor_grad: leading dimension 2 taken for two spin channels", XE,
               "            force_polarize\n            and self.mode == \"POL\"\n            and dfdX1.ndim == 3\n            and dfdX1.shape[0] == 2",
               "            force_polarize\n            and dfdX1.shape[0] == 2", expect="spin-axis"),
        Mutant("v1 loses the duplicated-channel factor", XE,
               "        if self.mode == \"POL\" and X0T.shape[0] == 1:\n            # Both (identical) spin channels depend on the single input\n            # channel, so d/dX0T = d/dX1_a + d/dX1_b = 2 * d/dX1_a.\n            df = 2 * df[:1]\n",
               "", expect="spin-axis"),
        Mutant("v2 duplicated-channel factor becomes 1", XE2, "            df = 2 * df[:1]\n", "            df = 1 * df[:1]\n",
               expect="spin-axis"),
        Mutant("RBFEvaluator: control points not reduced with the inputs", XE,
               "            X1ctrl = X1ctrl[..., indexes]\n", "", expect="shape-guard"),
        Mutant("RBFEvaluator: dres compared with the selected-column shape", XE,
               "        elif dres.shape != full_shape:", "        elif dres.shape != X1.shape:", expect="shape-guard"),
        Mutant("RBFEvaluator: scratch gradient never scattered into dres", XE,
               "        dres[..., self._indexes] += dsub\n", "", expect=None),
        Mutant("v2 NPOL: derivative propagated at the first channel instead of the spin mean", XE2,
               "self.feature_list.fill_derivs_(dfdX0T[0], dfdX1.T, X0T.mean(0))",
               "self.feature_list.fill_derivs_(dfdX0T[0], dfdX1.T, X0T[0])", expect="fwd-bwd-point"),
        Mutant("v1 NPOL: descriptors evaluated at the spin sum, derivative at the mean", XE,
               "            X0T_sum = X0T.mean(0)\n            X1 = np.zeros((Nsamp, N1))\n            self.feature_list.fill_vals_(X1.T, X0T_sum)\n        else:\n            raise NotImplementedError\n        if force_polarize",
               "            X0T_sum = X0T.sum(0)\n            X1 = np.zeros((Nsamp, N1))\n            self.feature_list.fill_vals_(X1.T, X0T_sum)\n        else:\n            raise NotImplementedError\n        if force_polarize",
               expect="fwd-bwd-point"),
        Mutant("antisym kernel: pair skipped when the first two sample features coincide", MU_C_REL,
               "            double fac = _evaluate_se(xi + 2, xc + 2, exps + 1, nfeat - 2);",
               "            if (xi[0] == xi[1] || xc[0] == xc[1]) {\n                continue;\n            }\n            double fac = _evaluate_se(xi + 2, xc + 2, exps + 1, nfeat - 2);",
               expect="grad-pairing"),
        Mutant("gradient helper adds a term only when its weighted factor exceeds an absolute tolerance", MU_C_REL,
               "        grad[j] += 2 * exps[j] * (x1[j] - x0[j]) * fac;\n",
               "        double w = 2 * exps[j] * fac;\n        if (w > 1e-14 || w < -1e-14) {\n"
               "            grad[j] += w * (x1[j] - x0[j]);\n        }\n",
               expect="grad-pairing"),
        Mutant("linear evaluator overwrites res", XE, "res[:] += X1.dot(self.consts)", "res[:] = X1.dot(self.consts)",
               expect="accumulate-py"),
        Mutant("spline evaluator overwrites dres columns", XE, "dres[:, ind_set] += dy * self.scale[t]",
               "dres[:, ind_set] = dy * self.scale[t]", expect="accumulate-py"),
        Mutant("kernel evaluator rebinds res", XE, "res[i0:i1] += k.dot(self.alpha)",
               "res = res + 0 * k.dot(self.alpha).sum()", expect="accumulate-py"),
        Mutant("NN evaluator drops derivative accumulation", XE,
               "        dres[:] += output_grad.cpu().detach().numpy()\n", "", expect="accumulate-py"),
        Mutant("C kernel overwrites out", MU_C_REL, "out[i] += tot;", "out[i] = tot;", expect="accumulate-c"),
        Mutant("C helper overwrites grad", MU_C_REL, "grad[j] += 2 * exps[j]", "grad[j] = 2 * exps[j]",
               expect="accumulate-c"),
        Mutant("C antisym kernel overwrites od[1]", MU_C_REL, "od[1] -= 2 * exps[0] * tmp * fac * (xi[1] - xc[1]);",
               "od[1] = -2 * exps[0] * tmp * fac * (xi[1] - xc[1]);", expect="accumulate-c"),
        Mutant("C spin kernel overwrites out", MU_C_REL, "out[i] += aabb + abba;", "out[i] = aabb + abba;",
               expect="accumulate-c"),
        Mutant("res shape guard deleted", XE,
               "            res = np.zeros(X1.shape[-2])\n        elif res.shape != (X1.shape[-2],):\n            raise ValueError\n",
               "            res = np.zeros(X1.shape[-2])\n", expect="shape-guard"),
        Mutant("inputs handed to C neither made contiguous nor asserted contiguous", XE, fn=_drop_x1_contiguity,
               expect="shape-guard"),
        Mutant("gradient scratch buffer allocated with the unselected width", XE, "dsub = np.zeros(X1.shape)",
               "dsub = np.zeros(full_shape)", expect="shape-guard"),
        Mutant("zero res but not dres (v1, non-SEP)", XE, "                res[..., cond] = 0.0\n                dres[..., cond] = 0.0\n",
               "                res[..., cond] = 0.0\n", expect="cutoff-pair"),
        Mutant("zero res but not dres (v1, SEP)", XE, "                    dres[s][:, cond[s]] = 0.0\n", "",
               expect="cutoff-pair"),
        Mutant("zero f but not df (v2, NPOL/POL)", XE2, "                df[..., scond, :] = 0.0\n", "",
               expect="cutoff-pair"),
        Mutant("v2 SEP derivative mask from other array", XE2,
               "            cond = rho_tuple[0].shape[0] * rho_tuple[0] < rhocut\n            if self.mode == \"SEP\":\n                f[cond] = 0.0\n                df[cond] = 0.0",
               "            cond = rho_tuple[0].shape[0] * rho_tuple[0] < rhocut\n            if self.mode == \"SEP\":\n                f[cond] = 0.0\n                df[rho_tuple[1][::2] < rhocut] = 0.0",
               expect="cutoff-pair"),
        Mutant("POL dropped from descriptor ladder", XE,
               "        if self.mode == \"SEP\" or self.mode == \"POL\":\n            dfdX0T = np.zeros_like(X0T)",
               "        if self.mode == \"SEP\":\n            dfdX0T = np.zeros_like(X0T)", expect="mode-ladder"),
        Mutant("NPOL arm removed from baseline product", XE,
               "            elif self.mode == \"NPOL\" or self.mode == \"POL\":\n                dres = dfdX0T * m + f * dm",
               "            elif self.mode == \"POL\":\n                dres = dfdX0T * m + f * dm", expect="mode-ladder"),
        Mutant("v2 NPOL arm removed", XE2, "        elif self.mode == \"NPOL\":\n            dfdX0T = np.zeros_like(X0T)",
               "        elif self.mode == \"POL\":\n            dfdX0T = np.zeros_like(X0T)", expect="mode-ladder"),
    ]


if __name__ == "__main__":
    sys.exit(core.main(PROP, analyse, mutants, __doc__))
