"""C04: libxc-backed meta-GGA baselines read the kinetic-energy density with the wrong
memory layout when it is a C-ordered (nspin=2, ngrid) array.

get_libxc_mgga_baseline converts rho and sigma with np.asfortranarray (libxc wants the
spin index fastest) but passes `tau` through unchanged.  For a C-contiguous tau of shape
(2, n) libxc therefore reads tau_a(0), tau_a(1) as (tau_a(0), tau_b(0)) and so on.  The
returned energy depends on the memory order of an input array, and the returned
derivative (vrho/vsigma/vtau) is not the gradient of the returned energy.

(The GPAW driver ciderpress/gpaw/cider_kernel.py passes C-ordered views of n_sg,
sigma_xg, tau_sg as rho_tuple; np.asfortranarray is applied to the other two members.)
"""
import os
import sys

sys.path.insert(0, os.path.join(os.path.dirname(os.path.abspath(__file__)), "..", "common"))
import hx  # noqa: E402

hx.install()

import numpy as np  # noqa: E402

from ciderpress.dft.baselines import get_libxc_baseline  # noqa: E402
from ciderpress.dft.transform_data import FeatureList, LMap, UMap  # noqa: E402
from ciderpress.dft.xc_evaluator import GlobalLinearEvaluator  # noqa: E402
from ciderpress.dft.xc_evaluator2 import MappedDFTKernel2, MappedXC2  # noqa: E402

rng = np.random.default_rng(0)
fail = False
n = 6


def make(nspin):
    rho = rng.uniform(0.3, 2.0, size=(nspin, n))
    g = rng.normal(size=(nspin, 3, n)) * 0.5
    sigma = np.zeros((2 * nspin - 1, n))
    sigma[::2] = np.einsum("sxg,sxg->sg", g, g)
    if nspin == 2:
        sigma[1] = np.einsum("xg,xg->g", g[0], g[1])
    tau = sigma[::2] / (8 * rho) + rng.uniform(0.1, 1.0, size=(nspin, n))
    return rho, sigma, tau


print("(a) get_libxc_baseline: same numbers, C- vs F-ordered input arrays (nspin=2)")
rho, sigma, tau = make(2)
for xcid in ["GGA_C_PBE", "MGGA_X_R2SCAN", "MGGA_C_R2SCAN"]:
    resF = get_libxc_baseline(xcid, tuple(np.asfortranarray(a) for a in (rho, sigma, tau)))
    resC = get_libxc_baseline(xcid, tuple(np.ascontiguousarray(a) for a in (rho, sigma, tau)))
    errs = [np.abs(np.asarray(a) - np.asarray(b)).max() for a, b in zip(resF, resC)]
    print("  %-14s max|F-order result - C-order result| (exc, vrho, vsigma[, vtau]) =" % xcid,
          ["%.2e" % e for e in errs])
    fail |= max(errs) > 1e-10

print("(b) MappedXC2.__call__, NPOL mode, nspin=2, C-ordered rho_tuple: FD vs returned derivatives")
fl = FeatureList([UMap(1, 0.3), UMap(2, 0.5), LMap(3)])
fev = GlobalLinearEvaluator(rng.normal(size=3))
X0T = rng.uniform(0.3, 2.0, size=(2, 4, n))
for xcid in ["GGA_C_PBE", "MGGA_C_R2SCAN"]:
    model = MappedXC2([MappedDFTKernel2(fev, fl, "NPOL", xcid, None)], None)
    rt = [np.ascontiguousarray(a) for a in (rho, sigma, tau)]
    res, dres, vr = model(X0T, rt)
    h = 1e-6
    errs = []
    for k in range(3):
        gk = np.zeros_like(rt[k])
        for s in range(rt[k].shape[0]):
            rp = [a.copy() for a in rt]
            rp[k][s] += h
            rm = [a.copy() for a in rt]
            rm[k][s] -= h
            gk[s] = (model(X0T, rp)[0] - model(X0T, rm)[0]) / (2 * h)
        errs.append(np.abs(gk - vr[k]).max())
    print("  %-14s max|FD - analytic| for (vrho, vsigma, vtau) =" % xcid, ["%.2e" % e for e in errs])
    fail |= max(errs) > 1e-5

if fail:
    print("FAIL: MGGA libxc baseline depends on the memory order of tau / derivative inconsistent")
    sys.exit(1)
print("OK")
