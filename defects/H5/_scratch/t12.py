import cider_build
from ciderpress.dft.settings import *
from toy import make_ni
fl = FracLaplSettings([-1.0, -0.5, 0.5], 2, 2, [(0,1), (-1, 0), (1,1)], nd1=2, ld_dots=[(0,0),(-1,1)], ndd=1)
sl = SemilocalSettings("nst")
ni = make_ni(sl=sl, nlof=fl)
print(type(ni).__mro__)
print(ni.settings)
