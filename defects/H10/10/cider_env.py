"""Helper: build libmcider (out of tree) and patch numpy.ctypeslib.load_library
so the real ciderpress Python wrappers use it.  Other libraries -> MagicMock."""
import ctypes
import os
import subprocess
import sys
from unittest.mock import MagicMock

import numpy

ROOT = os.path.abspath(os.path.join(os.path.dirname(__file__), "..", ".."))
SRC = os.path.join(ROOT, "ciderpress", "lib", "mod_cider")
BUILD = os.path.join(ROOT, "hunt_out", "build")
FILES = [
    "frac_lapl.c", "cider_coefs.c", "cider_grids.c", "spline.c", "sph_harm.c",
    "conv_interpolation.c", "convolutions.c", "fast_sdmx.c", "debug_numint.c",
    "model_utils.c",
]


def build(force=False):
    os.makedirs(BUILD, exist_ok=True)
    out = os.path.join(BUILD, "libmcider.so")
    srcs = [os.path.join(SRC, f) for f in FILES]
    if (not force) and os.path.exists(out):
        if all(os.path.getmtime(out) >= os.path.getmtime(s) for s in srcs):
            return out
    cmd = ["gcc", "-O2", "-fopenmp", "-shared", "-fPIC", "-I" + SRC, "-o", out]
    cmd += srcs + ["-lopenblas", "-llapack", "-lm"]
    subprocess.check_call(cmd, stderr=subprocess.DEVNULL)
    return out


def install():
    path = build()
    lib = ctypes.CDLL(path)
    orig = numpy.ctypeslib.load_library

    def fake(libname, loader_path):
        if "mcider" in libname:
            return lib
        try:
            return orig(libname, loader_path)
        except OSError:
            return MagicMock()

    numpy.ctypeslib.load_library = fake
    return lib
