"""Helper: compile libmcider / libxc_utils from the package sources into a temp
directory and make ciderpress.lib.load_library load them."""
import glob
import os
import subprocess
import sys
import tempfile

import numpy
import numpy.ctypeslib


def _pkg_dir():
    import importlib.util

    spec = importlib.util.find_spec("ciderpress")
    return os.path.dirname(spec.origin)


def boot(builddir=None):
    pkg = _pkg_dir()
    lib = os.path.join(pkg, "lib")
    import pyscf

    pl = os.path.join(os.path.dirname(pyscf.__file__), "lib")
    ob = glob.glob(os.path.join(pl, "libopenblas*.so"))[0]
    if builddir is None:
        builddir = os.path.join(tempfile.gettempdir(), "cider_build_%d" % os.getuid())
    os.makedirs(builddir, exist_ok=True)
    m = os.path.join(lib, "mod_cider")
    srcs = [
        os.path.join(m, f)
        for f in [
            "frac_lapl.c",
            "cider_coefs.c",
            "cider_grids.c",
            "spline.c",
            "sph_harm.c",
            "conv_interpolation.c",
            "convolutions.c",
            "fast_sdmx.c",
            "debug_numint.c",
            "model_utils.c",
        ]
    ]
    out = os.path.join(builddir, "libmcider.so")
    newest = max(os.path.getmtime(s) for s in glob.glob(os.path.join(m, "*.[ch]")))
    if not os.path.exists(out) or os.path.getmtime(out) < newest:
        subprocess.check_call(
            ["gcc", "-O2", "-w", "-fopenmp", "-shared", "-fPIC", "-o", out]
            + srcs
            + ["-I" + m, ob, "-Wl,-rpath," + pl, "-lm"]
        )
    out2 = os.path.join(builddir, "libxc_utils.so")
    src2 = os.path.join(lib, "xc_utils", "libxc_baselines.c")
    if not os.path.exists(out2) or os.path.getmtime(out2) < os.path.getmtime(src2):
        subprocess.check_call(
            [
                "gcc", "-O2", "-w", "-fopenmp", "-shared", "-fPIC", "-o", out2, src2,
                "-I" + os.path.join(pl, "deps", "include"),
                os.path.join(pl, "deps", "lib", "libxc.so"),
                "-Wl,-rpath," + os.path.join(pl, "deps", "lib"),
            ]
        )
    orig = numpy.ctypeslib.load_library

    def patched(libname, loader_path):
        if os.path.abspath(loader_path) != os.path.abspath(lib):
            return orig(libname, loader_path)
        p = os.path.join(builddir, libname + ".so")
        if os.path.exists(p):
            return orig(libname, builddir)
        from unittest.mock import MagicMock

        return MagicMock()

    numpy.ctypeslib.load_library = patched
    return builddir
