"""
C15 (observed at DFTKernel.get_k_and_deriv) -- the input gradient returned by
DFTKernel.get_k_and_deriv is not the derivative of DFTKernel.get_k when the
feature list contains a VZMap with gamma != 1.  Root cause:
ciderpress/dft/transform_data.py, VZMap.fill_deriv_ -- the chain-rule factor
d(x + x^2)/dx = 1 + 2x is written as
    1 + (gamma + 1) x + (gamma - 1) x (3 x + 2 x^2),
which only reduces to 1 + 2x for gamma == 1.
"""
import sys
from unittest.mock import MagicMock

import numpy as np

# The C extension libraries are not built; DFTKernel itself is pure Python.
_orig_load = np.ctypeslib.load_library
np.ctypeslib.load_library = lambda name, path: (
    MagicMock() if "ciderpress" in str(path) else _orig_load(name, path)
)

from ciderpress.dft import baselines  # noqa: E402
from ciderpress.dft.transform_data import FeatureList, UMap, VZMap  # noqa: E402
from ciderpress.models import kernels as K  # noqa: E402
from ciderpress.models.dft_kernel import DFTKernel  # noqa: E402

rng = np.random.default_rng(0)
fails = []

# (a) the map by itself
x = rng.uniform(0.1, 2.0, size=(3, 7))
for gamma in (1.0, 0.3, 2.5):
    m = VZMap(1, gamma, scale=2.0, center=0.5)
    d = np.zeros_like(x)
    m.fill_deriv_(d, np.ones(7), x)
    yp, ym = np.zeros(7), np.zeros(7)
    xp, xm = x.copy(), x.copy()
    xp[1] += 1e-6
    xm[1] -= 1e-6
    m.fill_feat_(yp, xp)
    m.fill_feat_(ym, xm)
    ref = (yp - ym) / 2e-6
    err = np.abs(d[1] - ref).max()
    print("VZMap gamma=%.1f: max|fill_deriv_ - finite difference| = %.3e" % (gamma, err))
    if err > 1e-6:
        fails.append("VZMap gamma=%s" % gamma)

# (b) through DFTKernel
kern = K.DiffConstantKernel(0.7) * K.DiffRBF(np.array([0.4, 0.6]))
for gamma in (1.0, 0.3):
    fl = FeatureList([UMap(1, 0.5), VZMap(2, gamma)])
    for mode in ("SEP", "NPOL"):
        for nspin in (1, 2):
            dk = DFTKernel(kern, fl, mode, baselines.lda_x, baselines.zero_xc)
            dk.set_control_points(
                [rng.uniform(0.1, 1.5, size=(nspin, 3, 9))], reduce=False
            )
            X0T = rng.uniform(0.1, 1.5, size=(nspin, 3, 5))
            k, dkdX = dk.get_k_and_deriv(X0T)
            assert np.array_equal(k, dk.get_k(X0T))
            ref = np.zeros_like(dkdX)
            for s in range(nspin):
                for a in range(3):
                    Xp, Xm = X0T.copy(), X0T.copy()
                    Xp[s, a] += 1e-6
                    Xm[s, a] -= 1e-6
                    df = (dk.get_k(Xp) - dk.get_k(Xm)) / 2e-6
                    ref[:, s, a] = df[:, s] if mode == "SEP" else df
            err = np.abs(dkdX - ref).max()
            print(
                "DFTKernel mode=%s nspin=%d VZMap gamma=%.1f: "
                "max|get_k_and_deriv - d get_k/dX0| = %.3e" % (mode, nspin, gamma, err)
            )
            if err > 1e-6:
                fails.append((mode, nspin, gamma))

if fails:
    print("FAIL:", fails)
    sys.exit(1)
print("OK")
