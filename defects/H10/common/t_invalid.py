import numpy as np
from ciderpress.dft.settings import *
def tryit(name, f):
    try:
        s = f()
        info = ""
        try:
            info = "nfeat=%s usps=%d ueg=%d" % (s.nfeat, len(s.get_feat_usps()), len(s.ueg_vector()))
        except Exception as e:
            info = "then %r" % e
        print("ACCEPTED", name, info)
    except Exception as e:
        print("rejected", name, type(e).__name__)
th=[1.0,0.0,0.03]
tryit("VJ a0=0", lambda: NLDFSettingsVJ("MGGA", th, "one", ["se"], [[0.0,0.0,0.03]]))
tryit("VJ a0<0", lambda: NLDFSettingsVJ("MGGA", th, "one", ["se"], [[-1.0,0.0,0.03]]))
tryit("VJ erf mult 0", lambda: NLDFSettingsVJ("MGGA", th, "one", ["se_erf_rinv"], [[1.0,0.0,0.03,0.0]]))
tryit("VJ erf mult <0", lambda: NLDFSettingsVJ("MGGA", th, "one", ["se_erf_rinv"], [[1.0,0.0,0.03,-2.0]]))
tryit("VJ nan", lambda: NLDFSettingsVJ("MGGA", th, "one", ["se"], [[float('nan'),0.0,0.03]]))
tryit("VJ theta a0 = tau_fac (B=0)", lambda: NLDFSettingsVJ("MGGA", [0.01,0.0,1.0], "one", ["se"], [[1.0,0.0,0.03]]))
tryit("VJ bool", lambda: NLDFSettingsVJ("MGGA", [True,0.0,0.03], "one", ["se"], [[1.0,0.0,0.03]]))
tryit("VK rho_damp none", lambda: NLDFSettingsVK("MGGA", th, "one", [[1.0,0.0,0.03]], "none"))
tryit("VK 4 params", lambda: NLDFSettingsVK("MGGA", th, "one", [[1.0,0.0,0.03,1.0]], "exponential"))
tryit("VI dots float", lambda: NLDFSettingsVI("MGGA", th, "one", ["se"], ["se_grad"], [(0.5,0)]))
tryit("VI dots -2", lambda: NLDFSettingsVI("MGGA", th, "one", ["se"], ["se_grad"], [(-2,0)]))
tryit("VI spec in wrong list", lambda: NLDFSettingsVI("MGGA", th, "one", ["se_grad"], ["se"], []))
tryit("VIJ l1 spec str (not list)", lambda: NLDFSettingsVIJ("MGGA", th, "one", "se", [], [], ["se"], [[1.,0.,0.03]]))
tryit("FL nk0=-1", lambda: FracLaplSettings([0.5,1.0], -1, 1, [(0,0)]))
tryit("FL nk1=-1", lambda: FracLaplSettings([0.5,1.0], 1, -1, []))
tryit("FL nd1=-1 ndd=-1", lambda: FracLaplSettings([0.5,1.0], 1, 0, [], -1, [], -1))
tryit("FL ndd=-1", lambda: FracLaplSettings([0.5,1.0], 1, 0, [], 1, [], -1))
tryit("FL s<=-1.5", lambda: FracLaplSettings([-2.0], 1, 0, []))
tryit("SDMXG ndt=-1", lambda: SDMXGSettings([0,1,2], -1))
tryit("SDMX1 n1=-1", lambda: SDMX1Settings([0,1,2], -1))
tryit("SDMXG1 -1 -1", lambda: SDMXG1Settings([0,1,2], -1, -1))
tryit("SDMXFull neg", lambda: SDMXFullSettings({1.0: ([0,1,2],[-1,0,0,0])}))
tryit("SDMXFull ratio<1", lambda: SDMXFullSettings({0.5: ([0,1,2],[1,0,0,0])}))
tryit("SDMXFull float counts", lambda: SDMXFullSettings({1.0: ([0,1,2],[1.5,0,0,0])}))
tryit("SDMX pows=[3]", lambda: SDMXSettings([3]))
tryit("SL mode", lambda: SemilocalSettings("foo"))
tryit("SADM", lambda: SADMSettings("foo"))
