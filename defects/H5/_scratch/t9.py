import cider_build
import numpy as np, sys
from pyscf import gto, dft
from ciderpress.pyscf.gen_cider_grid import CiderGrids
from ciderpress.pyscf.nldf_convolutions import PyscfNLDFGenerator
from ciderpress.dft.settings import *
from toy import make_ni, ToyKernel

theta_params = [1.0, 0.0, 0.03125]
vj = NLDFSettingsVJ("MGGA", theta_params, "one", ["se"], [[2.0, 0.0, 0.04]])
sl = SemilocalSettings("nst")
mol = gto.M(atom="O 0 0 0; H 0.15 0.85 0.45; F -0.75 -0.35 0.95", basis="def2-svp", verbose=0, spin=0)
ks = dft.RKS(mol); ks.xc = "PBE"; ks.kernel(); dm = ks.make_rdm1()
mo = ks.mo_coeff
P = np.outer(mo[:, 5], mo[:, 13]); P = P + P.T
grids = CiderGrids(mol, lmax=6); grids.level = 0; grids.build(with_non0tab=True)
ni0 = dft.numint.NumInt()
ao = ni0.eval_ao(mol, grids.coords, deriv=1)
def getrho(dm):
    return ni0.eval_rho(mol, ao, dm, xctype="MGGA", with_lapl=False)
ni = make_ni(sl=sl, nldf=vj, plan_type="spline")
n, e, v = ni.nr_rks(mol, grids, "", dm)
an = np.sum(v * P)
d = 1e-4
ep = ni.nr_rks(mol, grids, "", dm + d*P)[1]; em = ni.nr_rks(mol, grids, "", dm - d*P)[1]
print("numint: E", e, "fd", (ep-em)/(2*d), "an", an)
# manual
gen = ni.nldfgen
kern = ni.mlxc.kernels[0]
def E(dm):
    rho = getrho(dm)
    f = gen.get_features(rho)
    X = np.concatenate([ni.sl_plan.get_feat(rho[None])[0], f], axis=0)
    res, dres = kern(X[None])
    return np.dot(res, grids.weights), X, dres, rho
e0, X, dres, rho = E(dm)
print("manual E", e0)
print("manual fd", (E(dm + d*P)[0] - E(dm - d*P)[0])/(2*d))
# manual nldf-only contributions
nsl = 3
def Enl(dm):
    rho = getrho(dm)
    f = gen.get_features(rho)
    X = np.concatenate([X0[:nsl], f], axis=0)
    res, dres = kern(X[None])
    return np.dot(res, grids.weights)
X0 = X.copy()
fd_nl = (Enl(dm + d*P) - Enl(dm - d*P))/(2*d)
gen.get_features(rho)
vrho = gen.get_potential(dres[0, nsl:] * grids.weights)
an_nl = np.sum(vrho * getrho(P))
print("nl-only fd", fd_nl, "an", an_nl)
