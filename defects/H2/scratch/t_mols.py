from ref import *
import ref, sys
from ciderpress.pyscf.gen_cider_grid import CiderGrids
from ciderpress.pyscf.nldf_convolutions import PyscfNLDFGenerator
np.random.seed(0)
ni = NumInt()
th=[1.0,0.0,0.03125]; fp=[[2.0,0.0,0.04],[2.0,0.0,0.04,2.0]]
vij = NLDFSettingsVIJ('MGGA', th, 'one', ["se_ap","se_r2"], ["se_grad","se_rvec"], [(0,0),(-1,1)], ["se","se_erf_rinv"], fp)
vk = NLDFSettingsVK('MGGA', th, 'one', [[1.0,0.0,0.02],[4.0,0.0,0.08]], "exponential")
for atom, basis in [("Ne 0.1 0.2 -0.3", "def2-svp"), ("He 0 0 0", "cc-pvdz"), ("Li 0 0 0; H 0 0 1.6; F 2.5 0.3 0; O -1.0 -2.0 0.4; H -1.2 -2.1 1.3", "def2-svp")]:
    mol = gto.M(atom=atom, basis=basis, spin=0, verbose=0)
    ks = dft.RKS(mol); ks.xc='PBE'; ks.grids.level=1; ks.kernel()
    dm = ks.make_rdm1()
    grids = CiderGrids(mol, lmax=10); grids.level=1; grids.build(with_non0tab=False)
    rho = get_full_rho(ni, mol, dm, grids, 'MGGA')[0]
    sel0 = np.where(rho[0] > 1e-3)[0]
    sel = np.random.choice(sel0, 100, replace=False)
    coords = grids.coords[sel]
    for s in [vij, vk]:
        refv = reference(mol, dm, s, coords)
        for itype in ['onsite_direct', 'onsite_spline', 'train_gen']:
            gen = PyscfNLDFGenerator.from_mol_and_settings(mol, grids.grids_indexer, 1, s, interpolator_type=itype)
            if itype == 'train_gen':
                gen.interpolator.set_coords(coords)
                pred = gen.get_features_and_occ_derivs(rho, np.empty(0), rho[:, sel], np.empty(0))[0]
            else:
                gen.interpolator.set_coords(grids.coords)
                pred = gen.get_features(rho)[:, sel]
            err = np.abs(pred - refv).max(axis=1)/np.abs(refv).max(axis=1)
            print(atom[:12], s.version, itype, ' '.join('%.0e'%x for x in err))
