import sys, os, traceback
sys.path.insert(0, os.path.dirname(__file__))
import cider_env; cider_env.install()
import numpy as np
from pyscf import gto, dft
from ciderpress.pyscf.sdmx import EXXSphGenerator
from ciderpress.dft.settings import *
mol = gto.M(atom="He 0 0 0; H 0 0 1.2", basis="def2-svp", verbose=0, charge=1)
g = dft.Grids(mol); g.level=0; g.build()
dm = dft.RKS(mol).get_init_guess()
for sd in [{1.0: ([0,1],[1,0,1,1])}, {1.0: ([0,1],[1,0,0,1])}, {1.0: ([0,1],[2,1,0,0])}]:
    s = SDMXFullSettings(sd)
    try:
        gen = EXXSphGenerator.from_settings_and_mol(s, 1, mol)
        f = gen.get_features(dm, mol, g.coords)
        print(sd, f.shape, np.abs(f).max(axis=1))
    except Exception as e:
        print(sd, "EXC", repr(e)); traceback.print_exc(limit=4)
