"""C18 demo: SplineSetEvaluator only checks that its four lists have the same length.
A coefficient array that is smaller than the spline grid requires is accepted; the
(bounds-check-free) compiled spline routine then reads past the coefficient array."""
import os
import sys

sys.path.insert(0, os.path.dirname(os.path.abspath(__file__)))
import cider_env  # noqa: E402

cider_env.install()

import numpy as np  # noqa: E402
from interpolation.splines import filter_cubic  # noqa: E402

from ciderpress.dft.xc_evaluator import SplineSetEvaluator  # noqa: E402

fails = 0
grid = ((0.0, 1.0, 10),)
x = np.linspace(0, 1, 10)
coeffs = filter_cubic(grid, np.sin(3 * x))  # shape (12,) = (n + 2,)
X = np.array([[0.1, 0.3], [0.5, 0.2], [0.95, 0.9]])

ev = SplineSetEvaluator([1.0], [[0]], [grid], [coeffs])
ref = ev(X)[0]
print("control: spline(sin 3x) at", X[:, 0], "=", ref.round(5))

print("case 1: coefficient array with 6 entries for a grid that needs 12")
block = np.zeros(40)
block[:6] = coeffs[:6]
try:
    ev = SplineSetEvaluator([1.0], [[0]], [grid], [block[:6]])
    r1 = ev(X)[0].copy()
    block[6:] = 1e3  # only memory behind the coefficient array changes
    r2 = ev(X)[0].copy()
    print("  accepted; result A", r1.round(4), " result B", r2.round(4))
    if not np.array_equal(r1, r2):
        print("  -> evaluation READ past the end of the coefficient array")
    fails += 1
except (ValueError, AssertionError) as e:
    print("  rejected:", repr(e))

print("case 2: grid claims 20 nodes (needs 22 coefficients) but gets the 12 of a 10-node fit")
grid20 = ((0.0, 1.0, 20),)
block = np.zeros(64)
block[:12] = coeffs
try:
    ev = SplineSetEvaluator([1.0], [[0]], [grid20], [block[:12]])
    r1 = ev(X)[0].copy()
    block[12:] = -50.0
    r2 = ev(X)[0].copy()
    print("  accepted; result A", r1.round(4), " result B", r2.round(4))
    if not np.array_equal(r1, r2):
        print("  -> evaluation READ past the end of the coefficient array")
    fails += 1
except (ValueError, AssertionError) as e:
    print("  rejected:", repr(e))

print("failures:", fails)
sys.exit(1 if fails else 0)
