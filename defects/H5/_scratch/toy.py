import numpy as np
from ciderpress.dft.xc_evaluator import MappedXC
from ciderpress.dft.settings import *
from ciderpress.pyscf.numint import CiderNumInt, NLDFNumInt, NLOFNumInt, NLDFNLOFNumInt
from ciderpress.pyscf.nldf_convolutions import PySCFNLDFInitializer
from ciderpress.pyscf.sdmx import PySCFSDMXInitializer


class ToyKernel:
    """e = sum_s sum_i a_i * x_si / sqrt(1 + (b_i x_si)^2)  (smooth, bounded slope)"""
    def __init__(self, nfeat, seed=0):
        rng = np.random.default_rng(seed)
        self.a = 0.05 * rng.uniform(0.5, 1.5, nfeat) * rng.choice([-1, 1], nfeat)
        self.b = rng.uniform(0.2, 1.0, nfeat)

    def __call__(self, X0T, rhocut=0):
        # e = sum_s n_s * G(x_s),  G = sum_i a_i x_i / sqrt(1 + (b_i x_i)^2); x_0 = n_s is the SL density feature
        a = self.a[None, :, None]
        b = self.b[None, :, None]
        den = np.sqrt(1 + (b * X0T) ** 2)
        G = (a * X0T / den).sum(axis=1)  # (nspin, ng)
        n = X0T[:, 0]
        res = (n * G).sum(axis=0)
        dres = n[:, None, :] * a / den**3
        dres[:, 0] += G
        return res, dres


def make_ni(sl=None, nldf=None, nlof=None, sdmx=None, slxc="", seed=0, **nldf_kwargs):
    settings = FeatureSettings(sl_settings=sl, nldf_settings=nldf, nlof_settings=nlof, sdmx_settings=sdmx)
    mlxc = MappedXC([ToyKernel(settings.nfeat, seed)], settings)
    nldf_init = PySCFNLDFInitializer(nldf, **nldf_kwargs) if nldf is not None else None
    sdmx_init = PySCFSDMXInitializer(sdmx) if sdmx is not None else None
    if nldf is not None and nlof is not None:
        cls = NLDFNLOFNumInt
    elif nldf is not None:
        cls = NLDFNumInt
    elif nlof is not None:
        cls = NLOFNumInt
    else:
        cls = CiderNumInt
    ni = cls(mlxc, slxc, nldf_init, sdmx_init, xmix=1.0, rhocut=1e-11)
    ni.build()
    return ni
