from sdmx_ref import *
from ciderpress.dft.settings import *
from ciderpress.pyscf import sdmx as sdmx_fast, sdmx_slow
np.random.seed(1)
mol = gto.M(atom="H 0 0 0; F 0 0 0.9", basis="def2-svp", spin=0, verbose=0)
ks = dft.RKS(mol); ks.xc='PBE'; ks.grids.level=1; ks.kernel()
dm = ks.make_rdm1()
coords = np.random.normal(size=(12,3))*0.8 + np.array([0,0,0.85])
t, R, rho0, rho1 = sdmx_reference(mol, dm, coords)
refs = {j: H_feats(t, R, rho0, rho1, j) for j in [0,1,2]}
pows=[0,1,2]
def show(name, pred, ref):
    print(name, ' '.join('%.1e' % x for x in np.abs(pred-ref).max(axis=-1)/np.abs(ref).max(axis=-1)))
for modname, mod in [('fast', sdmx_fast), ('slow', sdmx_slow)]:
    for lambd in [1.8, 1.4]:
        s = SDMXG1Settings(pows, 3, 3)
        gen = mod.EXXSphGenerator.from_settings_and_mol(s, 1, mol, lambd=lambd)
        f = gen.get_features(dm, mol, coords)
        ref = np.array([refs[j]['0'] for j in pows]+[refs[j]['0d'] for j in pows]+[refs[j]['1'] for j in pows])
        show('%s G1 lambd=%s'%(modname,lambd), f, ref)
        s = SDMXFullSettings({1.0: (pows, [3,3,3,3])})
        gen = mod.EXXSphGenerator.from_settings_and_mol(s, 1, mol, lambd=lambd)
        f = gen.get_features(dm, mol, coords)
        ref = np.array([refs[j]['0'] for j in pows]+[refs[j]['0d'] for j in pows]+[refs[j]['1'] for j in pows]+[refs[j]['1d'] for j in pows])
        show('%s Full lambd=%s'%(modname,lambd), f, ref)
        ref = np.array([refs[j]['0'] for j in pows]+[refs[j]['0d'] for j in pows]+[refs[j]['1'] for j in pows]+[refs[j]['1d_alt'] for j in pows])
        show('%s Full(alt 1d) lambd=%s'%(modname,lambd), f, ref)
