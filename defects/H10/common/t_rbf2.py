import sys, os
sys.path.insert(0, os.path.dirname(__file__))
import cider_env; cider_env.install()
import numpy as np
from ciderpress.dft.xc_evaluator import RBFEvaluator, AntisymRBFEvaluator, SpinRBFEvaluator
from ciderpress.models.kernels import DiffRBF, DiffConstantKernel
rng = np.random.default_rng(1)
L=3; nctrl=5; n=4
k = DiffConstantKernel(1.3)*DiffRBF(length_scale=np.array([1.,2.,3.]))
ev = AntisymRBFEvaluator(k, rng.normal(size=(nctrl,L+1)), rng.normal(size=nctrl))
print(ev(rng.normal(size=(n,L+1)))[0])
print(ev(rng.normal(size=(1,n,L+1)))[0])
ev = SpinRBFEvaluator(k, rng.normal(size=(2,nctrl,L)), rng.normal(size=nctrl))
print(ev(rng.normal(size=(2,n,L)))[0])
