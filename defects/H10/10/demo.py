"""C18 demo (bookkeeping of plan work buffers): SDMXBasePlan.get_features and
SDMXIntPlan.get_features allocate the l=1 work buffer only `elif` the l=0 buffer was
supplied.  With the documented defaults (l0tmp=None, l1tmp=None) every settings object
that has l=1 features (SDMX1Settings, SDMXG1Settings, SDMXFullSettings with n1/n1d
terms) makes the plan crash with a TypeError instead of producing its nfeat features."""
import os
import sys

sys.path.insert(0, os.path.dirname(os.path.abspath(__file__)))
import cider_env  # noqa: E402

cider_env.install()

import numpy as np  # noqa: E402

from ciderpress.dft.plans import SDMXFullPlan, SDMXIntPlan, SDMXPlan  # noqa: E402
from ciderpress.dft.settings import (  # noqa: E402
    SDMX1Settings,
    SDMXFullSettings,
    SDMXG1Settings,
    SDMXGSettings,
)

rng = np.random.default_rng(0)
nalpha, ng = 8, 5
p_vag = rng.normal(size=(4, nalpha, ng))
fails = 0
full = SDMXFullSettings({1.0: ([0, 1], [2, 1, 1, 1])})
cases = [
    ("SDMXPlan + SDMXGSettings([0,1],1)   (no l=1 terms, control)",
     SDMXPlan(SDMXGSettings([0, 1], 1), 1, 0.01, 2.0, nalpha)),
    ("SDMXPlan + SDMX1Settings([0,1],1)", SDMXPlan(SDMX1Settings([0, 1], 1), 1, 0.01, 2.0, nalpha)),
    ("SDMXPlan + SDMXG1Settings([0,1],1,2)",
     SDMXPlan(SDMXG1Settings([0, 1], 1, 2), 1, 0.01, 2.0, nalpha)),
    ("SDMXFullPlan + SDMXFullSettings(l1 terms)", SDMXFullPlan(full, 1, 0.01, 2.0, nalpha)),
    ("SDMXIntPlan + SDMXFullSettings(l1 terms)", SDMXIntPlan(full, 1, 0.01, 2.0, nalpha)),
]
for tag, plan in cases:
    nfeat = plan.settings.nfeat
    n0, n1 = plan.num_l0_feat, plan.num_l1_feat
    # reference: same call with explicitly supplied work buffers
    if isinstance(plan, SDMXIntPlan):
        l0tmp, l1tmp = np.empty((nalpha, ng)), np.empty((3, nalpha, ng))
    else:
        l0tmp, l1tmp = np.empty((n0, nalpha, ng)), np.empty((n1, 3, nalpha, ng))
    ref = plan.get_features(p_vag, out=np.empty((nfeat, ng)), l0tmp=l0tmp, l1tmp=l1tmp)
    try:
        out = plan.get_features(p_vag)
    except TypeError as e:
        print("FAIL %-60s expected %d features; observed %r" % (tag, nfeat, e))
        fails += 1
        continue
    ok = out.shape == (nfeat, ng) and np.allclose(out, ref)
    print("%s %-60s %d features (n0=%d, n1=%d)" % ("ok  " if ok else "FAIL", tag, nfeat, n0, n1))
    fails += 0 if ok else 1
print("failures:", fails)
sys.exit(1 if fails else 0)
