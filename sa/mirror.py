"""E-mirror: adjoint (transpose) structure comparison (DESIGN.md §1.9, §C05).

Level 1 (C kernels).  A function body (clang JSON AST through sa.cfacts) is
*symbolically executed* once: scalar and pointer locals are inlined, simple
induction variables (`mq++` in a for-increment, `p_q += stride` at the end of a
loop body) get their closed form, index expressions become polynomials in
normal form over Z (class Poly: expand products of sums, collect monomials --
no CAS), DGEMM calls are expanded into the element-wise update they perform
(three bound variables i, j, k; transposition flags and leading dimensions end
up in the index polynomials).  The result is a list of *store records*
`W[iw] (=|+=) rhs`.  `reduce()` turns the records into linear edges
`W[iw] += c * R[ir]` (one per term of a sum), composing through private buffers
and read-after-write on data arrays, and applies sequential kill semantics
(`X[i] = 0`).  `compare()` checks that the backward edge set is the forward one
with the end points exchanged, modulo a bijection of the bound (loop)
variables.

Nothing here executes repository code.
"""
import ast
import itertools
from fractions import Fraction

from sa import cfacts
from sa.cfacts import kids

# ----------------------------------------------------------------------------
# polynomial normal form
# ----------------------------------------------------------------------------


class Poly:
    """Immutable polynomial with rational coefficients over hashable atoms.
    terms: dict {monomial: coef}, monomial = tuple(sorted((atom, exp)))."""
    __slots__ = ("t", "_key", "_hash")

    def __init__(self, terms=None):
        self.t = {m: c for m, c in (terms or {}).items() if c != 0}
        self._key = None
        self._hash = None

    # -- construction
    @staticmethod
    def const(c):
        return Poly({(): Fraction(c)})

    @staticmethod
    def atom(a):
        return Poly({((a, 1),): Fraction(1)})

    @property
    def key(self):
        if self._key is None:
            self._key = tuple(sorted(((_mkey(m), c) for m, c in self.t.items())))
        return self._key

    def __hash__(self):
        if self._hash is None:
            self._hash = hash(self.key)
        return self._hash

    def __eq__(self, o):
        return isinstance(o, Poly) and self.t == o.t

    def __lt__(self, o):
        return self.key < o.key

    def __add__(self, o):
        d = dict(self.t)
        for m, c in o.t.items():
            d[m] = d.get(m, 0) + c
        return Poly(d)

    def __neg__(self):
        return Poly({m: -c for m, c in self.t.items()})

    def __sub__(self, o):
        return self + (-o)

    def __mul__(self, o):
        d = {}
        for m1, c1 in self.t.items():
            for m2, c2 in o.t.items():
                m = _mmul(m1, m2)
                d[m] = d.get(m, 0) + c1 * c2
        return Poly(d)

    def scale(self, c):
        return Poly({m: v * c for m, v in self.t.items()})

    def is_const(self):
        return all(m == () for m in self.t)

    def const_value(self):
        return self.t.get((), Fraction(0)) if self.is_const() else None

    def is_zero(self):
        return not self.t

    def atoms(self, deep=True):
        """all atoms occurring (deep: also inside nested atoms)."""
        out = set()
        for m in self.t:
            for a, _ in m:
                out.add(a)
                if deep:
                    out |= atom_atoms(a)
        return out

    def subst(self, mp):
        """mp: atom -> Poly.  Applied at top level and inside nested atoms."""
        if not mp:
            return self
        res = Poly()
        for m, c in self.t.items():
            term = Poly.const(c)
            for a, e in m:
                if a in mp:
                    f = mp[a]
                else:
                    a2 = atom_subst(a, mp)
                    f = Poly.atom(a2)
                for _ in range(e):
                    term = term * f
            res = res + term
        return res

    def __repr__(self):
        return show(self)


def _mkey(m):
    return tuple((_akey(a), e) for a, e in m)


def _akey(a):
    """total-order key for atoms (tuples possibly containing Poly / tuples)."""
    if isinstance(a, Poly):
        return ("~P", a.key)
    if isinstance(a, tuple):
        return ("~T",) + tuple(_akey(x) for x in a)
    if isinstance(a, Fraction):
        return ("~F", a)
    return ("~S", str(a))


def _mmul(m1, m2):
    if not m1:
        return m2
    if not m2:
        return m1
    d = dict(m1)
    for a, e in m2:
        d[a] = d.get(a, 0) + e
    return tuple(sorted(d.items(), key=lambda ae: _akey(ae[0])))


def atom_atoms(a):
    out = set()
    if isinstance(a, tuple):
        for x in a:
            if isinstance(x, Poly):
                out |= x.atoms(True)
            elif isinstance(x, tuple):
                out.add(x) if _is_atom(x) else None
                out |= atom_atoms(x)
    return out


def _is_atom(x):
    return isinstance(x, tuple) and x and x[0] in ("sym", "loop", "ld", "call", "op", "fld")


def atom_subst(a, mp):
    if a in mp:
        # only reachable for nested root atoms; a root must stay an atom
        p = mp[a]
        if len(p.t) == 1:
            (m, c), = p.t.items()
            if c == 1 and len(m) == 1 and m[0][1] == 1:
                return m[0][0]
        return ("op", "subst", (p,))
    if not isinstance(a, tuple):
        return a
    out = []
    for x in a:
        if isinstance(x, Poly):
            out.append(x.subst(mp))
        elif isinstance(x, tuple):
            out.append(atom_subst(x, mp))
        else:
            out.append(x)
    return tuple(out)


def show_atom(a):
    if not isinstance(a, tuple):
        return str(a)
    k = a[0]
    if k == "sym":
        return a[1]
    if k == "loop":
        return a[2]
    if k == "par":
        return a[1]
    if k == "buf":
        return a[1]
    if k == "fld":
        return "%s->%s" % (show_loc(a[1], a[2]), a[3])
    if k == "ld":
        return "%s[%s]" % (show_atom(a[1]), show(a[2]))
    if k == "call":
        return "%s(%s)" % (a[1], ", ".join(show(x) for x in a[2]))
    if k == "op":
        return "%s(%s)" % (a[1], ", ".join(show(x) if isinstance(x, Poly) else str(x) for x in a[2]))
    return str(a)


def show_loc(root, off):
    if off.is_zero():
        return show_atom(root)
    return "%s[%s]" % (show_atom(root), show(off))


def show(p):
    if isinstance(p, Ptr):
        return "&" + show_loc(p.root, p.off)
    if not isinstance(p, Poly):
        return str(p)
    if not p.t:
        return "0"
    parts = []
    for mk, c in sorted(((_mkey(m), (m, c)) for m, c in p.t.items())):
        m, c = c
        fs = []
        for a, e in m:
            s = show_atom(a)
            fs.append(s if e == 1 else "%s^%d" % (s, e))
        cs = str(c.numerator) if c.denominator == 1 else "%s/%s" % (c.numerator, c.denominator)
        if fs:
            if c == 1:
                parts.append("*".join(fs))
            elif c == -1:
                parts.append("-" + "*".join(fs))
            else:
                parts.append(cs + "*" + "*".join(fs))
        else:
            parts.append(cs)
    return " + ".join(parts).replace("+ -", "- ")


ZERO = Poly()
ONE = Poly.const(1)


class Ptr:
    """pointer value = (root array, element offset)."""
    __slots__ = ("root", "off")

    def __init__(self, root, off=ZERO):
        self.root = root
        self.off = off

    def __eq__(self, o):
        return isinstance(o, Ptr) and self.root == o.root and self.off == o.off

    def __hash__(self):
        return hash((self.root, self.off))


class Irreducible(Exception):
    """the function is not in the shape the reducer understands
    (-> `not-comparable`, never a violation)."""


POISON = ("sym", "<value-after-loop>")


def min0(d):
    """canonical min(d, 0): orientation fixed by the sign of the leading term
    (min(d,0) == min(-d,0) + d)."""
    if d.is_zero():
        return ZERO
    cv = d.const_value()
    if cv is not None:
        return Poly.const(min(cv, 0))
    lead = d.key[0][1]
    if lead < 0:
        return Poly.atom(("op", "min0", (-d,))) + d
    return Poly.atom(("op", "min0", (d,)))


def _min_form(c, x, y):
    """`(a < b) ? x : y` with x - y == +-(a - b) is a clipped value (MIN/MAX
    idioms and their hand-written equivalents): y + min(a-b, 0) resp. y - min(a-b, 0)."""
    if not isinstance(c, Poly) or len(c.t) != 1:
        return None
    (m, k), = c.t.items()
    if k != 1 or len(m) != 1 or m[0][1] != 1:
        return None
    a = m[0][0]
    if a[0] != "op" or a[1] not in ("<", "<=", ">", ">="):
        return None
    u, v = a[2]
    d = (u - v) if a[1] in ("<", "<=") else (v - u)     # x is chosen when d < 0
    if (x - y) == d:
        return y + min0(d)
    if (x - y) == -d:
        return y - min0(d)
    return None

# ----------------------------------------------------------------------------
# symbolic execution of one C function
# ----------------------------------------------------------------------------
ARITH = ("int", "double", "float", "size_t", "long", "char", "unsigned", "uint8_t", "const int", "const double")
IGNORED_CALLS = {"free", "printf", "exit", "fprintf", "puts"}


class Loop:
    __slots__ = ("uid", "name", "atom", "lo", "hi", "line", "virtual")

    def __init__(self, uid, name, lo, hi, line, virtual=False):
        self.uid, self.name, self.lo, self.hi, self.line, self.virtual = uid, name, lo, hi, line, virtual
        self.atom = ("loop", uid, name)


class Store:
    """W[idx] op rhs under loop context ctx."""
    __slots__ = ("root", "idx", "op", "rhs", "ctx", "seq", "text", "line", "gemm", "cond")

    def __init__(self, root, idx, op, rhs, ctx, seq, text, line, gemm=None, cond=()):
        self.root, self.idx, self.op, self.rhs, self.ctx = root, idx, op, rhs, tuple(ctx)
        self.seq, self.text, self.line, self.gemm = seq, text, line, gemm
        self.cond = tuple(cond)      # (skip condition Poly, line): the store is not executed when it holds

    def live_conds(self, edge=False):
        """skip conditions that are not vacuous for this store (a condition `T == 0` where T is
        the trip count of one of the store's own loops skips nothing)"""
        out = []
        for c, line in self.cond:
            t = _zero_trip_of(c)
            vac = False
            if t is not None:
                for lp in self.ctx:
                    if self.gemm is not None and lp.atom == self.gemm["sum"] and not edge:
                        continue       # DGEMM with K = 0 still assigns its output block
                    if (lp.hi - lp.lo) == t:
                        vac = True
            if not vac:
                out.append((c, line))
        return out


def _zero_trip_of(c):
    """c is `T == 0`, `T <= 0` or `T < 1`  ->  T"""
    if len(c.t) != 1:
        return None
    (m, k), = c.t.items()
    if k != 1 or len(m) != 1 or m[0][1] != 1 or m[0][0][0] != "op":
        return None
    a = m[0][0]
    u, v = a[2] if len(a[2]) == 2 else (None, None)
    if u is None:
        return None
    if a[1] in ("==", "<=") and v.is_zero():
        return u
    if a[1] == "<" and v == ONE:
        return u
    if a[1] == "==" and u.is_zero():
        return v
    return None


def unless_atom(c):
    return ("op", "unless", (c,))


class Exec:
    def __init__(self, tu, fname, consts=None, opaque=()):
        self.tu = tu
        self.fname = fname
        self.env = {}      # decl id -> Poly | Ptr
        self.names = {}    # decl id -> name
        self.params = []   # (name, type)
        self.stores = []
        self.ctx = []
        self.path = []
        self.buffers = {}
        self.record = True
        self.opaque = set(opaque)
        self.consts = dict(consts or {})
        self.seq = 0
        fn = tu.func(fname)
        for p in tu.params(fname):
            nm, ty = p.get("name"), p.get("type", {}).get("qualType", "")
            self.params.append((nm, ty))
            self.names[p["id"]] = nm
            if nm in self.consts:
                self.env[p["id"]] = Poly.const(self.consts[nm])
            elif ty.rstrip().endswith("*"):
                self.env[p["id"]] = Ptr(("par", nm))
            else:
                self.env[p["id"]] = Poly.atom(("sym", nm))
        body = tu.body(fname)
        if body is None:
            raise Irreducible("no body")
        self.stmt(body)

    # -- helpers
    def fail(self, node, why):
        raise Irreducible("%s:%s: %s: %s" % (self.fname, self.tu.line_of(node), why,
                                             " ".join(self.tu.text_of(node).split())[:90]))

    def qt(self, n):
        return (n.get("type") or {}).get("qualType", "")

    def is_ptr_type(self, n):
        return self.qt(n).rstrip().endswith("*")

    def is_arith_type(self, n):
        t = self.qt(n).replace("const ", "").strip()
        return t in ARITH or t.startswith("unsigned") or t in ("long long", "short")

    # -- statements
    def stmt(self, n):
        k = n.get("kind")
        if k == "CompoundStmt":
            pushed = 0
            try:
                for c in kids(n):
                    sk = self.conditional_continue(c)
                    if sk is None:
                        self.stmt(c)
                        continue
                    cv = sk.const_value()
                    if cv is not None:
                        if cv != 0:
                            break            # unconditional continue: the rest is dead
                        continue
                    self.path.append((sk, self.tu.line_of(c)))
                    pushed += 1
            finally:
                for _ in range(pushed):
                    self.path.pop()
        elif k == "DeclStmt":
            for d in kids(n):
                if d.get("kind") == "VarDecl":
                    self.decl(d)
        elif k in ("OMPParallelDirective", "OMPForDirective", "OMPParallelForDirective",
                   "OMPCriticalDirective", "OMPSimdDirective", "OMPForSimdDirective"):
            self.stmt(self.omp_body(n))
        elif k == "CapturedStmt":
            self.stmt(self.omp_body(n))
        elif k == "ForStmt":
            self.for_loop(n)
        elif k == "IfStmt":
            self.if_stmt(n)
        elif k == "NullStmt":
            pass
        elif k == "AttributedStmt":
            for c in kids(n):
                if not c["kind"].endswith("Attr"):
                    self.stmt(c)
        elif k in ("BinaryOperator", "CompoundAssignOperator", "UnaryOperator", "CallExpr",
                   "ParenExpr", "ImplicitCastExpr", "CStyleCastExpr"):
            self.effect(n)
        elif k == "ReturnStmt":
            if self.ctx:
                self.fail(n, "return inside a loop")
        else:
            self.fail(n, "unsupported statement kind %s" % k)

    def conditional_continue(self, n):
        """`if (c) continue;` directly in a loop body -> the condition (Poly), else None"""
        if n.get("kind") != "IfStmt" or not self.ctx:
            return None
        ks = kids(n)
        if len(ks) != 2:
            return None
        then = ks[1]
        if then.get("kind") == "CompoundStmt":
            tk = kids(then)
            if len(tk) != 1:
                return None
            then = tk[0]
        if then.get("kind") != "ContinueStmt":
            return None
        try:
            v = self.ev(ks[0])
        except Irreducible:
            return None
        if not isinstance(v, Poly):
            return None
        if getattr(self, "induct_depth", 0):
            self.fail(n, "conditional `continue` in a loop that carries an induction variable")
        return v

    def omp_body(self, n):
        for c in kids(n):
            if c.get("kind") == "CapturedStmt":
                for d in kids(c):
                    if d.get("kind") == "CapturedDecl":
                        ks = kids(d)
                        if ks:
                            return ks[0]
            elif c.get("kind") == "CapturedDecl":
                ks = kids(c)
                if ks:
                    return ks[0]
        self.fail(n, "OpenMP directive without a captured statement")

    def decl(self, d):
        self.names[d["id"]] = d.get("name")
        ini = [c for c in kids(d)]
        qt = (d.get("type") or {}).get("qualType", "")
        if "[" in qt and not qt.rstrip().endswith("*") and (not ini or ini[0].get("kind") == "InitListExpr"):
            # local (stack) array: a private buffer
            nm = d.get("name")
            self.buffers[nm] = d["id"]
            self.env[d["id"]] = Ptr(("buf", nm))
            return
        if not ini:
            self.env[d["id"]] = None
            return
        e = ini[0]
        c = cfacts.strip(e)
        if c.get("kind") == "CallExpr" and self.callee(c) in ("malloc", "calloc"):
            nm = d.get("name")
            self.buffers[nm] = d["id"]
            self.env[d["id"]] = Ptr(("buf", nm))
            return
        self.env[d["id"]] = self.ev(e)

    def callee(self, c):
        f = cfacts.strip(kids(c)[0])
        return (f.get("referencedDecl") or {}).get("name")

    def only_noise(self, n):
        """statement (tree) made only of printf/exit calls."""
        k = n.get("kind")
        if k == "CompoundStmt":
            return all(self.only_noise(c) for c in kids(n))
        if k == "CallExpr":
            return self.callee(n) in IGNORED_CALLS
        if k == "ReturnStmt":
            return not self.ctx        # argument-check guard before any loop
        return False

    def if_stmt(self, n):
        ks = kids(n)
        cond, then = ks[0], ks[1]
        els = ks[2] if len(ks) > 2 else None
        try:
            v = self.ev(cond)
        except Irreducible:
            v = None
        cv = v.const_value() if isinstance(v, Poly) else None
        if cv is not None:
            if cv != 0:
                self.stmt(then)
            elif els is not None:
                self.stmt(els)
            return
        if self.only_noise(then) and (els is None or self.only_noise(els)):
            return
        self.fail(n, "data-dependent branch")

    # -- expressions with side effects at statement level
    def effect(self, n):
        n0 = n
        n = cfacts.strip(n)
        k = n.get("kind")
        if k == "CallExpr":
            nm = self.callee(n)
            if nm in IGNORED_CALLS:
                return
            if nm == "dgemm_":
                return self.dgemm(n)
            self.fail(n, "call to %s in statement position" % nm)
        if k == "BinaryOperator" and n.get("opcode") == ",":
            for c in kids(n):
                self.effect(c)
            return
        if k == "UnaryOperator" and n.get("opcode") in ("++", "--"):
            tgt = cfacts.strip(kids(n)[0])
            d = ONE if n["opcode"] == "++" else Poly.const(-1)
            return self.assign(tgt, "+=", d, n)
        if k == "BinaryOperator" and n.get("opcode") == "=":
            l, r = kids(n)
            return self.assign(cfacts.strip(l), "=", r, n)
        if k == "CompoundAssignOperator":
            l, r = kids(n)
            op = n.get("opcode")
            if op not in ("+=", "-=", "*="):
                self.fail(n, "compound assignment %s" % op)
            return self.assign(cfacts.strip(l), op, r, n)
        self.fail(n0, "unsupported expression statement")

    def assign(self, tgt, op, rhs, node):
        k = tgt.get("kind")
        if k == "DeclRefExpr":
            rd = tgt["referencedDecl"]
            did = rd["id"]
            self.names.setdefault(did, rd.get("name"))
            if rd.get("name") in self.opaque:
                return
            if did in self.env and rd.get("name") in self.consts and rd.get("kind") == "ParmVarDecl":
                # `fwd = 1;` inside `if (fwd)`: keep the specialised constant
                val = rhs if isinstance(rhs, (Poly, Ptr)) else self.ev(rhs)
                if op == "=" and val == self.env[did]:
                    return
                self.fail(node, "specialised parameter reassigned")
            val = rhs if isinstance(rhs, (Poly, Ptr)) else self.ev(rhs)
            if op == "=":
                self.env[did] = val
                return
            cur = self.env.get(did)
            if cur is None:
                self.fail(node, "update of an uninitialised local")
            if isinstance(val, Ptr):
                self.fail(node, "pointer on the right of a compound assignment")
            if op == "*=":
                if isinstance(cur, Ptr):
                    self.fail(node, "*= on pointer")
                self.env[did] = cur * val
                return
            if op == "-=":
                val = -val
            if isinstance(cur, Ptr):
                self.env[did] = Ptr(cur.root, cur.off + val)
            else:
                self.env[did] = cur + val
            return
        if k in ("ArraySubscriptExpr", "UnaryOperator"):
            if k == "UnaryOperator" and tgt.get("opcode") != "*":
                self.fail(node, "unsupported store target")
            loc = self.lvalue(tgt)
            val = rhs if isinstance(rhs, Poly) else self.ev(rhs)
            if isinstance(val, Ptr):
                self.fail(node, "pointer stored to memory")
            if op == "-=":
                op, val = "+=", -val
            if op == "*=":
                self.fail(node, "in-place scaling of an array element")
            self.emit(loc.root, loc.off, op, val, node)
            return
        self.fail(node, "unsupported assignment target %s" % k)

    def emit(self, root, idx, op, rhs, node, gemm=None, ctx=None):
        if not self.record:
            return
        self.seq += 1
        self.stores.append(Store(root, idx, op, rhs, ctx if ctx is not None else self.ctx, self.seq,
                                 " ".join(self.tu.text_of(node).split()), self.tu.line_of(node), gemm,
                                 cond=tuple(self.path)))

    def lvalue(self, n):
        """-> Ptr (location) of an ArraySubscriptExpr / *p / p->f (struct)"""
        n = cfacts.strip(n)
        k = n.get("kind")
        if k == "ArraySubscriptExpr":
            b, i = kids(n)
            bp = self.ev(b)
            ip = self.ev(i)
            if not isinstance(bp, Ptr):
                bp, ip = ip, bp
            if not isinstance(bp, Ptr) or not isinstance(ip, Poly):
                self.fail(n, "subscript of a non-pointer")
            return Ptr(bp.root, bp.off + ip)
        if k == "UnaryOperator" and n.get("opcode") == "*":
            p = self.ev(kids(n)[0])
            if not isinstance(p, Ptr):
                self.fail(n, "dereference of a non-pointer")
            return p
        self.fail(n, "unsupported lvalue")

    # -- pure expression evaluation -> Poly | Ptr
    def ev(self, n):
        k = n.get("kind")
        if k in ("ImplicitCastExpr", "ParenExpr", "CStyleCastExpr", "ConstantExpr"):
            return self.ev(kids(n)[0])
        if k == "IntegerLiteral":
            return Poly.const(int(n["value"]))
        if k == "FloatingLiteral":
            return Poly.const(Fraction(str(float(n["value"]))) if "value" in n else 0)
        if k == "CharacterLiteral":
            return Poly.const(int(n["value"]))
        if k == "DeclRefExpr":
            rd = n["referencedDecl"]
            if rd.get("kind") == "FunctionDecl":
                return Poly.atom(("sym", "&" + rd.get("name", "?")))
            if rd.get("kind") == "EnumConstantDecl":
                return Poly.atom(("sym", rd.get("name")))
            if rd.get("name") in self.opaque:
                return Poly.atom(("sym", rd.get("name")))
            v = self.env.get(rd["id"])
            if v is None:
                self.fail(n, "use of an unset local `%s`" % rd.get("name"))
            if isinstance(v, Poly) and POISON in v.atoms():
                self.fail(n, "use of `%s` after the loop that sets it" % rd.get("name"))
            return v
        if k == "UnaryOperator":
            op = n.get("opcode")
            (c,) = kids(n)
            if op == "-":
                v = self.ev(c)
                if isinstance(v, Ptr):
                    self.fail(n, "negated pointer")
                return -v
            if op == "+":
                return self.ev(c)
            if op == "&":
                c2 = cfacts.strip(c)
                if c2.get("kind") == "DeclRefExpr":
                    return self.ev(c2)      # &SCALAR passed to Fortran: its value
                if c2.get("kind") == "MemberExpr":
                    return self.ev(c2)
                return self.lvalue(c2)
            if op == "*":
                loc = self.lvalue(n)
                return self.load(loc, n)
            if op == "!":
                v = self.ev(c)
                cv = v.const_value() if isinstance(v, Poly) else None
                if cv is not None:
                    return Poly.const(0 if cv != 0 else 1)
                return Poly.atom(("op", "!", (v,)))
            self.fail(n, "unary %s in an expression" % op)
        if k == "BinaryOperator":
            op = n.get("opcode")
            a, b = kids(n)
            va, vb = self.ev(a), self.ev(b)
            if op in ("+", "-"):
                if isinstance(va, Ptr) and isinstance(vb, Poly):
                    return Ptr(va.root, va.off + (vb if op == "+" else -vb))
                if isinstance(vb, Ptr) and isinstance(va, Poly) and op == "+":
                    return Ptr(vb.root, vb.off + va)
                if isinstance(va, Ptr) and isinstance(vb, Ptr) and op == "-" and va.root == vb.root:
                    return va.off - vb.off
                if isinstance(va, Ptr) or isinstance(vb, Ptr):
                    self.fail(n, "pointer arithmetic")
                return va + vb if op == "+" else va - vb
            if isinstance(va, Ptr) or isinstance(vb, Ptr):
                if op in ("==", "!="):
                    return Poly.atom(("op", op, (Poly.atom(("sym", show(va))), Poly.atom(("sym", show(vb))))))
                self.fail(n, "pointer in %s" % op)
            if op == "*":
                return va * vb
            if op == "/":
                cb = vb.const_value()
                if "double" in self.qt(n) or "float" in self.qt(n):
                    if cb not in (None, 0):
                        return va.scale(Fraction(1) / cb)
                    return va * Poly.atom(("op", "inv", (vb,)))
                ca = va.const_value()
                if ca is not None and cb not in (None, 0):
                    q = abs(ca) // abs(cb)
                    return Poly.const(q if (ca >= 0) == (cb > 0) else -q)
                return Poly.atom(("op", "idiv", (va, vb)))
            if op == "%":
                return Poly.atom(("op", "mod", (va, vb)))
            if op in ("<", ">", "<=", ">=", "==", "!=", "&&", "||"):
                ca, cb = va.const_value(), vb.const_value()
                if ca is not None and cb is not None:
                    r = {"<": ca < cb, ">": ca > cb, "<=": ca <= cb, ">=": ca >= cb, "==": ca == cb,
                         "!=": ca != cb, "&&": bool(ca) and bool(cb), "||": bool(ca) or bool(cb)}[op]
                    return Poly.const(1 if r else 0)
                return Poly.atom(("op", op, (va, vb)))
            self.fail(n, "binary %s in an expression" % op)
        if k == "ConditionalOperator":
            c, a, b = [self.ev(x) for x in kids(n)]
            cv = c.const_value() if isinstance(c, Poly) else None
            if cv is not None:
                return a if cv != 0 else b
            if isinstance(a, Ptr) or isinstance(b, Ptr):
                self.fail(n, "conditional pointer")
            m0 = _min_form(c, a, b)
            if m0 is not None:
                return m0
            return Poly.atom(("op", "?:", (c, a, b)))
        if k == "ArraySubscriptExpr":
            loc = self.lvalue(n)
            return self.load(loc, n)
        if k == "MemberExpr":
            (b,) = kids(n)
            if n.get("isArrow"):
                base = self.ev(b)
            else:
                base = self.lvalue(b) if cfacts.strip(b).get("kind") != "DeclRefExpr" else self.ev(b)
            if not isinstance(base, Ptr):
                self.fail(n, "member of a non-location")
            a = ("fld", base.root, base.off, n.get("name"))
            if self.is_ptr_type(n):
                return Ptr(a)
            if self.is_arith_type(n):
                return Poly.atom(a)
            return Ptr(a)    # nested struct
        if k == "CallExpr":
            nm = self.callee(n)
            args = []
            for c in kids(n)[1:]:
                v = self.ev(c)
                if isinstance(v, Ptr):
                    self.fail(n, "pointer passed to %s inside an expression" % nm)
                args.append(v)
            return Poly.atom(("call", nm, tuple(args)))
        if k == "UnaryExprOrTypeTraitExpr":
            return Poly.atom(("sym", "sizeof"))
        self.fail(n, "unsupported expression kind %s" % k)

    def load(self, loc, n):
        if self.is_ptr_type(n):
            return Ptr(("ld", loc.root, loc.off))
        if self.is_arith_type(n):
            return Poly.atom(("ld", loc.root, loc.off))
        return loc   # struct element: a location

    # -- loops
    def for_loop(self, n):
        ks = n.get("inner") or []
        # clang: [init, condvar(null), cond, inc, body]
        parts = [c if (isinstance(c, dict) and c.get("kind")) else None for c in ks]
        if len(parts) == 5:
            init, _, cond, inc, body = parts
        elif len(parts) == 4:
            init, cond, inc, body = parts
        else:
            self.fail(n, "unrecognised for statement")
        if init is None or cond is None or inc is None or body is None:
            self.fail(n, "for statement without init/cond/inc")
        # loop variable and lower bound
        if init.get("kind") == "DeclStmt":
            ds = [d for d in kids(init) if d.get("kind") == "VarDecl"]
            if len(ds) != 1 or not kids(ds[0]):
                self.fail(n, "for-init declaration")
            vid, vname = ds[0]["id"], ds[0].get("name")
            lo = self.ev(kids(ds[0])[0])
        else:
            i0 = cfacts.strip(init)
            if i0.get("kind") != "BinaryOperator" or i0.get("opcode") != "=":
                self.fail(n, "for-init is not `v = lo`")
            l, r = kids(i0)
            l = cfacts.strip(l)
            if l.get("kind") != "DeclRefExpr":
                self.fail(n, "for-init target")
            vid, vname = l["referencedDecl"]["id"], l["referencedDecl"].get("name")
            lo = self.ev(r)
        self.names[vid] = vname
        c0 = cfacts.strip(cond)
        if c0.get("kind") != "BinaryOperator" or c0.get("opcode") not in ("<", "<="):
            self.fail(n, "for-condition is not `v < hi`")
        cl, cr = kids(c0)
        cl = cfacts.strip(cl)
        if cl.get("kind") != "DeclRefExpr" or cl["referencedDecl"]["id"] != vid:
            self.fail(n, "for-condition does not test the loop variable")
        # increments: v++ [, w++ ...]
        incs = []

        def flat(x):
            x = cfacts.strip(x)
            if x.get("kind") == "BinaryOperator" and x.get("opcode") == ",":
                for y in kids(x):
                    flat(y)
            else:
                incs.append(x)
        flat(inc)
        own = [x for x in incs if x.get("kind") == "UnaryOperator" and x.get("opcode") == "++"
               and cfacts.strip(kids(x)[0]).get("referencedDecl", {}).get("id") == vid]
        if len(own) != 1:
            self.fail(n, "loop variable is not advanced by exactly `v++`")
        others = [x for x in incs if x is not own[0]]
        # variables modified in the loop
        mods = self.modified(body) | set().union(*[self.modified(x) for x in others]) if others else self.modified(body)
        mods.discard(vid)
        hi = self.ev(cr)
        if isinstance(lo, Ptr) or isinstance(hi, Ptr):
            self.fail(n, "pointer loop bounds")
        if c0.get("opcode") == "<=":
            hi = hi + ONE
        for a in hi.atoms() | lo.atoms():
            pass
        # bound must not depend on something modified inside
        hi_ids = self.refs(cr)
        if hi_ids & (mods | {vid}):
            self.fail(n, "loop bound modified inside the loop")
        uid = n.get("id", "L%d" % self.tu.line_of(n))
        lp = Loop(uid, vname, lo, hi, self.tu.line_of(n))
        local = self.loop_locals(body, others, mods)
        induct = [v for v in mods if v not in local and self.env.get(v) is not None]
        delta = {}
        if induct:
            # dry run: per-iteration increment of each induction variable
            saved_env, saved_rec = dict(self.env), self.record
            self.record = False
            marks = {}
            for v in induct:
                mk = ("sym", "@%s" % self.names.get(v, v))
                marks[v] = mk
                cur = self.env[v]
                self.env[v] = Ptr(cur.root, Poly.atom(mk)) if isinstance(cur, Ptr) else Poly.atom(mk)
            self.env[vid] = Poly.atom(lp.atom)
            self.ctx.append(lp)
            try:
                self.stmt(body)
                for x in others:
                    self.effect(x)
                for v in induct:
                    end = self.env[v]
                    off = end.off if isinstance(end, Ptr) else end
                    if isinstance(end, Ptr) != isinstance(saved_env[v], Ptr) or (
                            isinstance(end, Ptr) and end.root != saved_env[v].root):
                        self.fail(n, "`%s` is re-pointed inside the loop" % self.names.get(v))
                    d = off - Poly.atom(marks[v])
                    bad = {a for a in d.atoms() if a in marks.values() or a == lp.atom or a == POISON}
                    if bad:
                        self.fail(n, "`%s` is not a simple induction variable of this loop" % self.names.get(v))
                    delta[v] = d
            finally:
                self.ctx.pop()
                self.env = saved_env
                self.record = saved_rec
        before = dict(self.env)
        it = Poly.atom(lp.atom) - lo
        for v in induct:
            cur = before[v]
            if isinstance(cur, Ptr):
                self.env[v] = Ptr(cur.root, cur.off + it * delta[v])
            else:
                self.env[v] = cur + it * delta[v]
        self.env[vid] = Poly.atom(lp.atom)
        self.ctx.append(lp)
        if induct:
            self.induct_depth = getattr(self, "induct_depth", 0) + 1
        try:
            self.stmt(body)
            for x in others:
                self.effect(x)
        finally:
            self.ctx.pop()
            if induct:
                self.induct_depth -= 1
        trip = hi - lo
        for v in mods:
            if v in delta:
                cur = before[v]
                if isinstance(cur, Ptr):
                    self.env[v] = Ptr(cur.root, cur.off + trip * delta[v])
                else:
                    self.env[v] = cur + trip * delta[v]
            else:
                cur = self.env.get(v)
                self.env[v] = Ptr(("sym", "<pointer-after-loop>")) if isinstance(cur, Ptr) else Poly.atom(POISON)
        self.env[vid] = Poly.atom(POISON)

    def modified(self, n):
        """decl ids assigned (scalar/pointer locals) anywhere under n."""
        out = set()
        for x in cfacts.walk(n):
            k = x.get("kind")
            tgt = None
            if k == "BinaryOperator" and x.get("opcode") == "=":
                tgt = cfacts.strip(kids(x)[0])
            elif k == "CompoundAssignOperator":
                tgt = cfacts.strip(kids(x)[0])
            elif k == "UnaryOperator" and x.get("opcode") in ("++", "--"):
                tgt = cfacts.strip(kids(x)[0])
            elif k == "VarDecl" and kids(x):
                out.add(x["id"])
            if tgt is not None and tgt.get("kind") == "DeclRefExpr":
                out.add(tgt["referencedDecl"]["id"])
        return out

    def refs(self, n):
        return {x["referencedDecl"]["id"] for x in cfacts.walk(n)
                if x.get("kind") == "DeclRefExpr" and "referencedDecl" in x}

    def loop_locals(self, body, others, mods):
        """variables whose first mention (program order) inside the loop body is
        a plain assignment that does not read them: dead on entry."""
        first = {}

        def visit(x):
            k = x.get("kind")
            if k == "BinaryOperator" and x.get("opcode") == "=":
                l, r = kids(x)
                l0 = cfacts.strip(l)
                visit(r)
                if l0.get("kind") == "DeclRefExpr":
                    first.setdefault(l0["referencedDecl"]["id"], "def")
                else:
                    visit(l)
                return
            if k == "VarDecl":
                for c in kids(x):
                    visit(c)
                first.setdefault(x["id"], "def")
                return
            if k == "DeclRefExpr" and "referencedDecl" in x:
                first.setdefault(x["referencedDecl"]["id"], "use")
                return
            if k == "ForStmt":
                parts = [c for c in (x.get("inner") or []) if isinstance(c, dict) and c.get("kind")]
                for c in parts:
                    visit(c)
                return
            if k in ("OMPParallelDirective", "OMPForDirective", "CapturedStmt"):
                visit(self.omp_body(x))
                return
            for c in kids(x):
                visit(c)
        visit(body)
        for o in others:
            visit(o)
        return {v for v in mods if first.get(v) == "def"}

    # -- DGEMM as an element-wise update
    def dgemm(self, n):
        args = kids(n)[1:]
        if len(args) != 13:
            self.fail(n, "dgemm_ with %d arguments" % len(args))
        v = [self.ev(a) for a in args]
        ta, tb, M, N, K, alpha, A, lda, B, ldb, beta, C, ldc = v

        def flag(x):
            c = x.const_value() if isinstance(x, Poly) else None
            if c is None:
                self.fail(n, "transposition flag is not a constant")
            ch = chr(int(c)).upper()
            if ch not in "NT":
                self.fail(n, "transposition flag %r" % ch)
            return ch
        ta, tb = flag(ta), flag(tb)
        for p in (A, B, C):
            if not isinstance(p, Ptr):
                self.fail(n, "dgemm_ matrix operand is not a pointer")
        for s in (M, N, K, lda, ldb, ldc, alpha, beta):
            if not isinstance(s, Poly):
                self.fail(n, "dgemm_ scalar operand")
        bc = beta.const_value()
        if bc not in (0, 1):
            self.fail(n, "dgemm_ BETA is not the constant 0 or 1")
        uid = n.get("id", "G%d" % self.tu.line_of(n))
        li = Loop(uid + ".i", "gemm_i", ZERO, M, self.tu.line_of(n), True)
        lj = Loop(uid + ".j", "gemm_j", ZERO, N, self.tu.line_of(n), True)
        lk = Loop(uid + ".k", "gemm_k", ZERO, K, self.tu.line_of(n), True)
        i, j, k = Poly.atom(li.atom), Poly.atom(lj.atom), Poly.atom(lk.atom)
        ia = (i + k * lda) if ta == "N" else (k + i * lda)
        ib = (k + j * ldb) if tb == "N" else (j + k * ldb)
        ic = i + j * ldc
        rhs = alpha * Poly.atom(("ld", A.root, A.off + ia)) * Poly.atom(("ld", B.root, B.off + ib))
        self.emit(C.root, C.off + ic, "=" if bc == 0 else "+=", rhs, n,
                  gemm={"transa": ta, "transb": tb, "lda": show(lda), "ldb": show(ldb), "ldc": show(ldc),
                        "M": show(M), "N": show(N), "K": show(K), "sum": lk.atom},
                  ctx=self.ctx + [li, lj, lk])


# ----------------------------------------------------------------------------
# div/mod normalisation:  X with idiv(X,N) [and mod(X,N)]  ->  X = Q*N + R
# ----------------------------------------------------------------------------
def _exact_div(p, nn):
    """p / nn when nn is a single term dividing every term of p, else idiv(p, nn)"""
    if len(nn.t) == 1:
        (sm, sc), = nn.t.items()
        out = {}
        for m, c in p.t.items():
            r = _mono_div(m, c, sm, sc)
            if r is None:
                out = None
                break
            out[r[0]] = out.get(r[0], 0) + r[1]
        if out is not None:
            return Poly(out)
    return Poly.atom(("op", "idiv", (p, nn)))


def split_divmod(stores):
    """exact identity of C integer arithmetic: X == (X/N)*N + X%N, applied to
    every loop variable X that occurs as X/N or X%N (flattened double loops)."""
    found = {}

    def scan(p):
        for a in p.atoms():
            if a[0] == "op" and a[1] in ("idiv", "mod"):
                x, nn = a[2]
                if len(x.t) == 1 and list(x.t.values())[0] == 1:
                    (m,) = x.t.keys()
                    if len(m) == 1 and m[0][1] == 1 and m[0][0][0] == "loop":
                        found.setdefault(m[0][0], set()).add(nn)
    for s in stores:
        scan(s.idx)
        scan(s.rhs)
        for lp in s.ctx:
            scan(lp.lo)
            scan(lp.hi)
    newloops = {}
    mp = {}
    for la, nns in found.items():
        if len(nns) != 1:
            continue
        (nn,) = nns
        q = ("loop", la[1] + ".q", "(%s/%s)" % (la[2], show(nn)))
        r = ("loop", la[1] + ".r", "(%s%%%s)" % (la[2], show(nn)))
        mp[("op", "idiv", (Poly.atom(la), nn))] = Poly.atom(q)
        mp[("op", "mod", (Poly.atom(la), nn))] = Poly.atom(r)
        newloops[la] = (q, r, nn)
    if not newloops:
        return stores, {}
    mp2 = {la: Poly.atom(q) * nn + Poly.atom(r) for la, (q, r, nn) in newloops.items()}

    def sub(p):
        return p.subst(mp).subst(mp2)
    out = []
    for s in stores:
        ctx = []
        for lp in s.ctx:
            if lp.atom in newloops:
                q, r, nn = newloops[lp.atom]
                ctx.append(Loop(q[1], q[2], ZERO, _exact_div(sub(lp.hi), nn), lp.line, lp.virtual))
                ctx.append(Loop(r[1], r[2], ZERO, nn, lp.line, lp.virtual))
            else:
                ctx.append(Loop(lp.uid, lp.name, sub(lp.lo), sub(lp.hi), lp.line, lp.virtual))
        out.append(Store(s.root, sub(s.idx), s.op, sub(s.rhs), ctx, s.seq, s.text, s.line, s.gemm,
                         cond=tuple((sub(c), ln) for c, ln in s.cond)))
    return out, newloops


# ----------------------------------------------------------------------------
# store records -> linear edges
# ----------------------------------------------------------------------------
class Edge:
    __slots__ = ("dst_root", "dst_idx", "coef", "src_root", "src_idx", "loops", "op", "text", "line", "seq",
                 "gemm")

    def __init__(self, dst_root, dst_idx, coef, src_root, src_idx, loops, op, text, line, seq, gemm=None):
        self.dst_root, self.dst_idx, self.coef = dst_root, dst_idx, coef
        self.src_root, self.src_idx, self.loops = src_root, src_idx, tuple(loops)
        self.op, self.text, self.line, self.seq, self.gemm = op, text, line, seq, gemm

    def describe(self):
        return "%s += (%s) * %s" % (show_loc(self.dst_root, self.dst_idx), show(self.coef),
                                    show_loc(self.src_root, self.src_idx))


class Reduction:
    def __init__(self):
        self.edges = []
        self.kills = []        # (root, idx, Store) on roots that are also read as input (in-place operators)
        self.inits = []        # output-initialising kills (root, idx, Store)
        self.dead = []         # stores overwritten by a later kill
        self.stores = []
        self.data_roots = set()
        self.stage_buffers = []
        self.coef_buffers = []
        self.leaf_reads = set()
        self.params = []
        self.notes = []


def _root_name(root):
    if root[0] in ("par", "buf", "sym"):
        return root[1]
    if root[0] == "fld":
        return root[3]
    if root[0] == "ld":
        return _root_name(root[1])
    return str(root)


def _data_loads(mono, data_roots):
    top = [(a, e) for a, e in mono if a[0] == "ld" and a[1] in data_roots]
    for a, e in mono:
        inner = atom_atoms(a)
        for b in inner:
            if isinstance(b, tuple) and b and b[0] == "ld" and b[1] in data_roots:
                return None
    return top


def _mono_div(m, c, sm, sc):
    """(m, c) / (sm, sc) -> (quotient monomial, coef) or None"""
    d = dict(m)
    for a, e in sm:
        if d.get(a, 0) < e:
            return None
        d[a] -= e
        if d[a] == 0:
            del d[a]
    q = c / sc
    if q.denominator != 1:
        return None
    return tuple(sorted(d.items(), key=lambda ae: _akey(ae[0]))), q


def unify(w_idx, own, target, reader_own_atoms):
    """Solve  w_idx[own := ?] == target  for the writer's own loop variables.
    own: list of Loop.  Returns dict atom->Poly, None (cells differ), or raises
    Irreducible when the question cannot be decided."""
    shift = {lp.atom: Poly.atom(lp.atom) + lp.lo for lp in own}
    wz = w_idx.subst(shift)            # own variables are now zero-based
    own_atoms = [lp.atom for lp in own]
    zero = {a: ZERO for a in own_atoms}
    base = wz.subst(zero)
    for a in own_atoms:
        if a in base.atoms():
            raise Irreducible("writer index depends non-polynomially on a loop variable: %s" % show(w_idx))
    D = target - base
    lin = wz - base
    strides = []
    for a in own_atoms:
        s = Poly()
        for m, c in lin.t.items():
            dm = dict(m)
            if a in dm:
                if dm[a] != 1 or any(b in own_atoms and b != a for b in dm):
                    raise Irreducible("writer index is not linear in its loop variables: %s" % show(w_idx))
                del dm[a]
                s = s + Poly({tuple(sorted(dm.items(), key=lambda ae: _akey(ae[0]))): c})
        if s.is_zero():
            continue      # summation variable of the writer
        if len(s.t) != 1:
            raise Irreducible("writer stride is not a monomial: %s" % show(s))
        strides.append((a, s))
    strides.sort(key=lambda x: (-sum(e for _, e in list(x[1].t.keys())[0]), -abs(list(x[1].t.values())[0])))
    sol = {}
    rest = dict(D.t)
    for a, s in strides:
        (sm, sc), = s.t.items()
        q = {}
        for m, c in list(rest.items()):
            r = _mono_div(m, c, sm, sc)
            if r is None:
                continue
            qm, qc = r
            if not any(x in reader_own_atoms for x, _ in qm):
                continue
            q[qm] = qc
            del rest[m]
        sol[a] = Poly(q)
    if any(c != 0 for c in rest.values()):
        return None
    # back to the original (non zero-based) variables
    return {lp.atom: sol.get(lp.atom, None) + lp.lo if lp.atom in sol else None for lp in own}


def reduce(ex_stores, params, data_params, buffers, compose_buffers=True):
    """ex_stores: list of Store (after split_divmod).  data_params: names of the
    pointer parameters that carry the linear operand (X or Y)."""
    R = Reduction()
    R.stores = ex_stores
    R.params = params
    data = {("par", n) for n in data_params}
    bufroots = {("buf", b) for b in buffers}
    # which private buffers carry data (transitively)?
    changed = True
    databuf = set()
    while changed:
        changed = False
        for s in ex_stores:
            if s.root in bufroots and s.root not in databuf:
                for m in s.rhs.t:
                    dl = _data_loads(m, data | databuf)
                    if dl is None or dl:
                        databuf.add(s.root)
                        changed = True
                        break
    coefbuf = bufroots - databuf
    R.coef_buffers = sorted(_root_name(b) for b in coefbuf)
    R.stage_buffers = sorted(_root_name(b) for b in databuf)
    all_data = data | databuf
    R.data_roots = all_data
    resolved = {}     # seq -> list of (coef Poly, src_root, src_idx, extra_loops) ; const Poly

    def own_of(w, s):
        ids = {lp.uid for lp in s.ctx}
        return [lp for lp in w.ctx if lp.uid not in ids]

    def reader_atoms(w, s):
        ids = {lp.uid for lp in w.ctx}
        return {lp.atom for lp in s.ctx if lp.uid not in ids}

    def read_cell(root, idx, s, compose):
        """value of cell root[idx] as seen by store s: (list of linear terms, const Poly, has_input)"""
        terms, const, has_in = [], ZERO, True
        if not compose:
            return [(ONE, root, idx, ())], ZERO, True
        for w in ex_stores:
            if w.seq >= s.seq:
                break
            if w.root != root:
                continue
            own = own_of(w, s)
            mp = unify(w.idx, own, idx, reader_atoms(w, s))
            if mp is None:
                continue
            sub = {a: p for a, p in mp.items() if p is not None}
            extra = tuple(lp for lp in own if mp.get(lp.atom) is None)
            wt, wc = resolved[w.seq]
            if w.op == "=":
                terms, const, has_in = [], ZERO, False
            for (c, sr, si, ex) in wt:
                terms.append((c.subst(sub), sr, si.subst(sub), tuple(ex) + extra))
            const = const + wc.subst(sub)
        if has_in:
            terms.insert(0, (ONE, root, idx, ()))
        return terms, const, has_in

    for s in ex_stores:
        terms, const = [], ZERO
        rhs = s.rhs
        # inline coefficient buffers (dx[g]) first
        for _ in range(4):
            cb = [a for a in rhs.atoms(False) if a[0] == "ld" and a[1] in coefbuf]
            if not cb:
                break
            mp = {}
            for a in cb:
                t, c, has_in = read_cell(a[1], a[2], s, True)
                if has_in or t:
                    raise Irreducible("%s:%d: coefficient buffer %s read before it is set" % (
                        "", s.line, _root_name(a[1])))
                mp[a] = c
            rhs = rhs.subst(mp)
        for m, c in rhs.t.items():
            dl = _data_loads(m, all_data)
            if dl is None:
                raise Irreducible("line %d: data element used non-linearly: %s" % (s.line, s.text[:80]))
            if not dl:
                const = const + Poly({m: c})
                continue
            if len(dl) != 1 or dl[0][1] != 1:
                raise Irreducible("line %d: right-hand side is not linear in the data arrays: %s" % (
                    s.line, s.text[:80]))
            a = dl[0][0]
            rest = Poly({tuple(x for x in m if x[0] != a): c})
            compose = compose_buffers or a[1] not in databuf
            t, k, has_in = read_cell(a[1], a[2], s, compose)
            if has_in and a[1] in databuf and compose:
                raise Irreducible("line %d: private buffer %s read before it is set" % (s.line, _root_name(a[1])))
            for (c2, sr, si, ex) in t:
                terms.append((rest * c2, sr, si, ex))
            const = const + rest * k
        if s.root in all_data:
            if not const.is_zero():
                raise Irreducible("line %d: affine (non-linear) update of a data array: %s" % (s.line, s.text[:80]))
        lc = s.live_conds(edge=True)
        if lc:
            f = ONE
            for c, _ in lc:
                f = f * Poly.atom(unless_atom(c))
            terms = [(c * f, sr, si, ex) for (c, sr, si, ex) in terms]
        resolved[s.seq] = (terms, const)
    # dead stores: a later kill of the same cell
    dead = set()
    for k in ex_stores:
        if k.op != "=" or k.root not in all_data:
            continue
        for a in ex_stores:
            if a.seq >= k.seq:
                break
            if a.root != k.root or a.seq in dead:
                continue
            ids = {lp.uid for lp in k.ctx}
            own = [lp for lp in a.ctx if lp.uid not in ids]
            kid = {lp.uid for lp in a.ctx}
            mp = unify(a.idx, own, k.idx, {lp.atom for lp in k.ctx if lp.uid not in kid})
            if mp is not None:
                dead.add(a.seq)
                R.dead.append(a)
    # edges
    merged = {}
    order = []
    for s in ex_stores:
        if s.root not in all_data or s.seq in dead:
            continue
        if s.root in databuf and compose_buffers:
            continue     # eliminated node
        terms, _ = resolved[s.seq]
        for (c, sr, si, ex) in terms:
            if sr == s.root and si == s.idx and c == ONE and s.op == "+=":
                continue
            R.leaf_reads.add(sr)
            key = (s.root, s.idx, sr, si)
            if key in merged:
                merged[key].coef = merged[key].coef + c
                merged[key].loops = tuple(list(merged[key].loops) + [lp for lp in tuple(s.ctx) + tuple(ex)
                                                                     if lp.uid not in {x.uid for x in merged[key].loops}])
            else:
                e = Edge(s.root, s.idx, c, sr, si, tuple(s.ctx) + tuple(ex), s.op, s.text, s.line, s.seq, s.gemm)
                merged[key] = e
                order.append(key)
    R.edges = [merged[k] for k in order if not merged[k].coef.is_zero()]
    for s in ex_stores:
        if s.op == "=" and s.root in all_data and not (s.root in databuf and compose_buffers):
            (R.kills if s.root in R.leaf_reads and s.root in data else R.inits).append((s.root, s.idx, s))
    return R


# ----------------------------------------------------------------------------
# necessary conditions on a single function
# ----------------------------------------------------------------------------
def _covers(idx, lp, ctx):
    """does the cell index distinguish iterations of loop lp?"""
    a = lp.atom
    if a in idx.atoms(False):
        return True
    for b in idx.atoms(True):
        if b[0] == "ld" and "loc" in _root_name(b[1]) and a in b[2].atoms(False):
            return True
    # loc-partition idiom: an inner covered loop runs over [T[lp], T[lp+1])
    seen = False
    for l2 in ctx:
        if l2.uid == lp.uid:
            seen = True
            continue
        if not seen:
            continue
        dep = False
        for bnd in (l2.lo, l2.hi):
            for b in bnd.atoms(True):
                if b[0] == "ld" and "loc" in _root_name(b[1]) and a in b[2].atoms(True):
                    dep = True
        if dep and _covers(idx, l2, ctx):
            return True
    return False


def overwriting_stores(R):
    """`W[i] = c*R[j]` (or DGEMM with BETA=0) inside a loop whose variable does
    not select the written cell while the stored value depends on it: only the
    last iteration survives.  -> list of (Store, [loop names])"""
    out = []
    for s in R.stores:
        if s.op != "=" or s.rhs.is_zero() or s.root[0] != "par" or s.root not in R.data_roots:
            continue
        bad = []
        for lp in s.ctx:
            if s.gemm is not None and lp.atom == s.gemm["sum"]:
                continue
            if _covers(s.idx, lp, s.ctx):
                continue
            dep = lp.atom in s.rhs.atoms(True)
            if not dep:
                for l2 in s.ctx:
                    if (lp.atom in l2.lo.atoms(True) or lp.atom in l2.hi.atoms(True)) and l2.atom in s.rhs.atoms(True):
                        dep = True
            if dep:
                bad.append(lp.name)
        if bad:
            out.append((s, bad))
    return out


def mixed_mode_roots(R):
    """output arrays (not read as input) where some stores overwrite and others
    accumulate into cells never initialised by the function."""
    out = []
    byroot = {}
    for s in R.stores:
        if s.root[0] == "par" and s.root in R.data_roots and s.root not in R.leaf_reads:
            byroot.setdefault(s.root, []).append(s)
    for root, ss in byroot.items():
        kills = [s for s in ss if s.op == "="]
        if not kills:
            continue
        for a in ss:
            if a.op != "+=":
                continue
            covered = False
            for k in kills:
                if k.seq > a.seq:
                    continue
                ids = {lp.uid for lp in a.ctx}
                own = [lp for lp in k.ctx if lp.uid not in ids]
                kid = {lp.uid for lp in k.ctx}
                try:
                    mp = unify(k.idx, own, a.idx, {lp.atom for lp in a.ctx if lp.uid not in kid})
                except Irreducible:
                    mp = {}
                if mp is not None:
                    covered = True
                    break
            if not covered:
                out.append((root, a, kills[0]))
    return out


# ----------------------------------------------------------------------------
# transpose comparison
# ----------------------------------------------------------------------------
def rewrite(x, leaf):
    """rename leaf tuples (('par',n), ('sym',n), ('buf',n), loop atoms) inside polys/atoms."""
    if isinstance(x, Poly):
        res = Poly()
        for m, c in x.t.items():
            term = Poly.const(c)
            for a, e in m:
                f = Poly.atom(rewrite(a, leaf))
                for _ in range(e):
                    term = term * f
            res = res + term
        return res
    if isinstance(x, tuple):
        if x in leaf:
            return leaf[x]
        return tuple(rewrite(y, leaf) for y in x)
    return x


class Triple:
    __slots__ = ("xr", "xi", "yr", "yi", "c", "edge")

    def __init__(self, xr, xi, yr, yi, c, edge):
        self.xr, self.xi, self.yr, self.yi, self.c, self.edge = xr, xi, yr, yi, c, edge

    def key(self):
        return (self.xr, self.xi, self.yr, self.yi, self.c)

    def atoms(self):
        return self.xi.atoms() | self.yi.atoms() | self.c.atoms()

    def subst(self, mp):
        return Triple(self.xr, self.xi.subst(mp), self.yr, self.yi.subst(mp), self.c.subst(mp), self.edge)

    def describe(self):
        return "X=%s  Y=%s  coef=%s" % (show_loc(self.xr, self.xi), show_loc(self.yr, self.yi), show(self.c))


def _presence(t, a):
    def occ(p):
        if a in p.atoms(False):
            return 2
        if a in p.atoms(True):
            return 1
        return 0
    return (t.xr, t.yr, occ(t.xi), occ(t.yi), occ(t.c))


def _signature(triples, a):
    return tuple(sorted((_akey(_presence(t, a)) for t in triples)))


def _fine_signature(triples, a, loopatoms):
    """how `a` enters each triple: its co-factors with the other bound variables masked."""
    mask = {b: ("sym", "_") for b in loopatoms if b != a}
    mask[a] = ("sym", "@")
    out = []
    for t in triples:
        parts = []
        for p in (t.xi, t.yi, t.c):
            if a not in p.atoms(True):
                parts.append("")
                continue
            q = Poly({m: c for m, c in p.t.items() if any(a == x or a in atom_atoms(x) for x, _ in m)})
            parts.append(show(rewrite(q, mask)))
        out.append((show_atom(t.xr), show_atom(t.yr)) + tuple(parts))
    return tuple(sorted(out))


class MatchResult:
    def __init__(self):
        self.ok = False
        self.mapping = {}
        self.unmatched_f = []
        self.unmatched_b = []
        self.comparable = True
        self.why = ""
        self.assumed = []     # bound variable identified with a table lookup
        self.sub_b = {}       # substitution applied to the second set (flattened loop variable)
        self.flat = []        # (variable, polynomial) identifications found by the affine rescue


def match_triples(TF, TB, max_tries=20000):
    """Find a renaming of TF's bound (loop) variables onto TB's atoms under
    which the two multisets of triples coincide."""
    res = MatchResult()
    fa = sorted({a for t in TF for a in t.atoms() if a[0] == "loop"}, key=_akey)
    ba = sorted({a for t in TB for a in t.atoms() if a[0] == "loop"}, key=_akey)
    bdep = sorted({a for t in TB for a in t.atoms() if a[0] == "ld" and any(
        x[0] == "loop" for x in atom_atoms(a) | set())}, key=_akey)
    sigF = {a: _signature(TF, a) for a in fa}
    sigB = {b: _signature(TB, b) for b in ba + bdep}

    def candidates(rel):
        out = []
        for a in fa:
            cs = [b for b in ba + bdep if rel(sigF[a], sigB[b])]
            cs.sort(key=lambda b: (0 if (b[0] == "loop" and b[2] == a[2]) else 1, 0 if b[0] == "loop" else 1))
            out.append(cs)
        return out
    tiers = [lambda x, y: x == y, lambda x, y: set(x) == set(y),
             lambda x, y: set(x) <= set(y) or set(y) <= set(x)]
    allF = set(fa)
    allB = set(ba)
    fineF = {a: _fine_signature(TF, a, allF) for a in fa}
    fineB = {b: _fine_signature(TB, b, allB) for b in ba + bdep}
    cands = []
    for a in fa:
        cs = [b for b in ba + bdep if fineF[a] == fineB[b]]
        cs.sort(key=lambda b: (0 if (b[0] == "loop" and b[2] == a[2]) else 1, 0 if b[0] == "loop" else 1))
        cands.append(cs)
    if not all(cands):
        coarse = None
        for rel in tiers:
            coarse = candidates(rel)
            if all(coarse):
                break
        cands = [c if c else k for c, k in zip(cands, coarse)]
    from collections import Counter
    cb = Counter(t.key() for t in TB)

    def score(mp):
        sub = {a: Poly.atom(b) for a, b in mp.items()}
        cf = Counter(t.subst(sub).key() for t in TF)
        common = sum((cf & cb).values())
        return common, cf

    best = (-1, None, None)
    tries = 0
    cooc = set()
    for t in TF:
        la = [a for a in t.atoms() if a[0] == "loop"]
        for x in la:
            for y in la:
                if x != y:
                    cooc.add((x, y))
    if all(cands) or not fa:
        for combo in itertools.product(*cands) if fa else [()]:
            tries += 1
            if tries > max_tries:
                break
            if len(set(combo)) != len(combo):
                # bound variables are scoped per update: two of them may share an
                # image only if they never occur in the same update
                clash = False
                seen = {}
                for a, b in zip(fa, combo):
                    for a2 in seen.get(b, ()):
                        if (a, a2) in cooc or (a2, a) in cooc:
                            clash = True
                    seen.setdefault(b, []).append(a)
                if clash:
                    continue
            mp = dict(zip(fa, combo))
            sc, cf = score(mp)
            if sc > best[0]:
                best = (sc, mp, cf)
            if cf == cb:
                res.ok = True
                res.mapping = mp
                res.assumed = [(a, b) for a, b in mp.items() if b[0] != "loop"]
                return res
    # affine rescue: one side walks a block with a single flat variable where the other
    # uses nested loops (k  <->  m*n + q).  The flat variable is solved from one array's
    # index and the identification is then checked on everything else.
    resc = _affine_rescue(TF, TB, fa, ba, fineF, fineB, cb)
    if resc is not None:
        if resc["ok"]:
            res.ok = True
            res.mapping = resc["mp"]
            res.sub_b = resc["sub_b"]
            res.flat = resc["flat"]
            return res
        if best[1] is None or resc["score"] >= best[0]:
            res.mapping = resc["mp"]
            res.sub_b = resc["sub_b"]
            res.flat = resc["flat"]
            res.unmatched_f = resc["uf"]
            res.unmatched_b = resc["ub"]
            return res
    if best[1] is None:
        # fall back: identity by loop-variable name
        byname = {}
        for b in ba:
            byname.setdefault(b[2], []).append(b)
        mp = {}
        for a in fa:
            if len(byname.get(a[2], [])) >= 1:
                mp[a] = byname[a[2]][0]
        sc, cf = score(mp)
        best = (sc, mp, cf)
        if cf == cb:
            res.ok = True
            res.mapping = mp
            return res
        total = all(a in mp for a in fa)
        if sc == 0 and not total:
            res.comparable = False
            res.why = "no correspondence between the loop variables of the two functions could be established"
    sc, mp, cf = best
    res.mapping = mp
    sub = {a: Poly.atom(b) for a, b in mp.items()}
    left = Counter(cb)
    for t in TF:
        k = t.subst(sub).key()
        if left.get(k, 0) > 0:
            left[k] -= 1
        else:
            res.unmatched_f.append(t.subst(sub))
    left2 = Counter(cf)
    for t in TB:
        k = t.key()
        if left2.get(k, 0) > 0:
            left2[k] -= 1
        else:
            res.unmatched_b.append(t)
    return res


def _lin_coef(p, v):
    """p = c*v + rest with v absent from c and rest, c a non-zero rational -> (c, rest); else None"""
    c = Fraction(0)
    rest = {}
    for m, k in p.t.items():
        d = dict(m)
        if v in d:
            if d[v] != 1 or len(d) != 1:
                return None
            c += k
        else:
            if any(v in atom_atoms(a) for a, _ in m):
                return None
            rest[m] = k
    if c == 0:
        return None
    return c, Poly(rest)


def _affine_rescue(TF, TB, fa, ba, fineF, fineB, cb):
    from collections import Counter
    mp = {}
    used = set()
    for a in fa:
        cs = [b for b in ba if fineF[a] == fineB[b]]
        if len(cs) == 1 and cs[0] not in used:
            mp[a] = cs[0]
            used.add(cs[0])
    UF = [a for a in fa if a not in mp]
    UB = [b for b in ba if b not in used]
    if not UB and UF:
        # the flat variable may have been paired with the innermost nested variable (same stride 1)
        best = None
        for a0, b0 in list(mp.items()):
            mp2 = {a: b for a, b in mp.items() if a != a0}
            r = _affine_rescue_with(TF, TB, mp2, UF + [a0], [b0])
            if r is not None and (best is None or r["ok"] or r["score"] > best["score"]):
                best = r
                if r["ok"]:
                    break
        return best
    if not UF and UB:
        best = None
        for a0, b0 in list(mp.items()):
            mp2 = {a: b for a, b in mp.items() if a != a0}
            r = _affine_rescue_with(TF, TB, mp2, [a0], UB + [b0])
            if r is not None and (best is None or r["ok"] or r["score"] > best["score"]):
                best = r
                if r["ok"]:
                    break
        return best
    return _affine_rescue_with(TF, TB, mp, UF, UB)


def _affine_rescue_with(TF, TB, mp, UF, UB):
    from collections import Counter
    if not ((len(UB) == 1 and len(UF) >= 2) or (len(UF) == 1 and len(UB) >= 2)):
        return None
    sub_f = {a: Poly.atom(b) for a, b in mp.items()}
    TFm = [t.subst(sub_f) for t in TF]
    flat_in_b = len(UB) == 1
    v = UB[0] if flat_in_b else UF[0]
    others = set(UF) if flat_in_b else set(UB)
    S, O = (TB, TFm) if flat_in_b else (TFm, TB)       # S holds the flat variable
    cands = []
    for ts in S:
        for to in O:
            if (ts.xr, ts.yr) != (to.xr, to.yr):
                continue
            for ps, po in ((ts.xi, to.xi), (ts.yi, to.yi)):
                lc = _lin_coef(ps, v)
                if lc is None:
                    continue
                c, rest = lc
                cand = (po - rest).scale(Fraction(1) / c)
                la = {a for a in cand.atoms() if a[0] == "loop"}
                if not la or not la <= others or any(k.denominator != 1 for k in cand.t.values()):
                    continue
                if cand not in cands:
                    cands.append(cand)
    if not cands:
        return None
    best = None
    for cand in cands:
        sv = {v: cand}
        S2 = [t.subst(sv) for t in S]
        cs, co = Counter(t.key() for t in S2), Counter(t.key() for t in O)
        sc = sum((cs & co).values())
        ok = cs == co
        if best is None or sc > best[0] or ok:
            left = Counter(co)
            us = []
            for t in S2:
                if left.get(t.key(), 0) > 0:
                    left[t.key()] -= 1
                else:
                    us.append(t)
            left = Counter(cs)
            uo = []
            for t in O:
                if left.get(t.key(), 0) > 0:
                    left[t.key()] -= 1
                else:
                    uo.append(t)
            best = (sc, cand, ok, us, uo)
        if ok:
            break
    sc, cand, ok, us, uo = best
    out = {"ok": ok, "score": sc, "mp": dict(mp), "flat": [(v, cand)],
           "sub_b": {v: cand} if flat_in_b else {}}
    if not flat_in_b:
        out["mp_poly"] = {v: cand}
    out["uf"], out["ub"] = (uo, us) if flat_in_b else (us, uo)
    return out


def triples_of(R, transpose=False, leaf=None):
    out = []
    for e in R.edges:
        if transpose:
            t = Triple(e.dst_root, e.dst_idx, e.src_root, e.src_idx, e.coef, e)
        else:
            t = Triple(e.src_root, e.src_idx, e.dst_root, e.dst_idx, e.coef, e)
        if leaf:
            t = Triple(rewrite(t.xr, leaf), rewrite(t.xi, leaf), rewrite(t.yr, leaf), rewrite(t.yi, leaf),
                       rewrite(t.c, leaf), e)
        out.append(t)
    return out


def run_function(tu, fname, consts=None, opaque=()):
    ex = Exec(tu, fname, consts=consts, opaque=opaque)
    stores, split = split_divmod(ex.stores)
    return ex, stores, split


def written_params(stores):
    return {s.root[1] for s in stores if s.root[0] == "par"}


def data_buffer_names(stores, data_params, buffers):
    data = {("par", n) for n in data_params}
    bufroots = {("buf", b) for b in buffers}
    databuf = set()
    changed = True
    while changed:
        changed = False
        for s in stores:
            if s.root in bufroots and s.root not in databuf:
                for m in s.rhs.t:
                    dl = _data_loads(m, data | databuf)
                    if dl is None or dl:
                        databuf.add(s.root)
                        changed = True
                        break
    return sorted(r[1] for r in databuf)


class PairResult:
    def __init__(self, fwd, bwd):
        self.fwd, self.bwd = fwd, bwd
        self.status = "ok"          # ok | violation | not-comparable
        self.why = ""
        self.mode = ""
        self.n_edges = (0, 0)
        self.diffs = []             # (side, Triple)
        self.kill_diffs = []
        self.assumed = []
        self.Rf = self.Rb = None
        self.mapping = {}
        self.n_gemm = 0
        self.flat = []
        self.n_bounds = 0
        self.bound_diffs = []   # (lo|hi, fwd Loop, bwd Loop, fwd text, bwd text)


def param_leafmap(pf, pb):
    """bwd parameter -> fwd parameter: by name, else by position when the types agree."""
    leaf = {}
    nf = [n for n, _ in pf]
    nb = [n for n, _ in pb]
    for i, (n, ty) in enumerate(pb):
        if n in nf:
            continue
        if i < len(pf) and pf[i][1] == ty and pf[i][0] not in nb:
            leaf[("par", n)] = ("par", pf[i][0])
            leaf[("sym", n)] = ("sym", pf[i][0])
    return leaf


def compare_pair(tuf, fname, tub, bname, consts_f=None, consts_b=None, opaque=(), swap=None):
    """swap: dict of fwd-root-name -> bwd-root-name exchanged before the
    comparison (one function with a direction flag: inp/out change roles)."""
    pr = PairResult(fname, bname)
    try:
        exf, sf, _ = run_function(tuf, fname, consts_f, opaque)
        exb, sb, _ = run_function(tub, bname, consts_b, opaque)
        leaf = param_leafmap(exf.params, exb.params)
        if swap:
            for a, b in swap.items():
                leaf[("par", b)] = ("par", a)
                leaf[("par", a)] = ("par", b)
        inv = {v[1]: k[1] for k, v in leaf.items() if k[0] == "par"}
        data_f = written_params(sf) | {leaf.get(("par", n), ("par", n))[1] for n in written_params(sb)}
        data_b = {inv.get(n, n) for n in data_f}
        bf = data_buffer_names(sf, data_f, exf.buffers)
        bb = data_buffer_names(sb, data_b, exb.buffers)
        stage = bool(bf) and len(bf) == len(bb)
        pr.mode = "stage-wise (private buffer kept as a node)" if stage else "operator (intermediates eliminated)"
        Rf = reduce(sf, exf.params, data_f, exf.buffers, not stage)
        Rb = reduce(sb, exb.params, data_b, exb.buffers, not stage)
        pr.Rf, pr.Rb = Rf, Rb
        if stage:
            if len(bf) == 1:
                leaf[("buf", bb[0])] = ("buf", bf[0])
            elif sorted(bf) != sorted(bb):
                pr.status, pr.why = "not-comparable", "several private data buffers with different names"
                return pr
    except Irreducible as e:
        pr.status, pr.why = "not-comparable", str(e)
        return pr
    TF = triples_of(Rf)
    TB = triples_of(Rb, True, leaf)
    pr.n_edges = (len(TF), len(TB))
    pr.n_gemm = sum(1 for e in Rf.edges + Rb.edges if e.gemm)
    if not TF and not TB:
        pr.status, pr.why = "not-comparable", "no linear update statement found in either function"
        return pr
    if not TF or not TB:
        pr.status = "violation"
        pr.diffs = [("fwd", t) for t in TF] + [("bwd", t) for t in TB]
        pr.why = "one direction has no surviving linear update"
        pr.dead = [(s.text, s.line) for s in Rf.dead + Rb.dead]
        return pr
    # map the side with more bound variables onto the other one
    nf = len({a for t in TF for a in t.atoms() if a[0] == "loop"})
    nb = len({a for t in TB for a in t.atoms() if a[0] == "loop"})
    if nf >= nb:
        m = match_triples(TF, TB)
        pr.diffs = [("fwd", t) for t in m.unmatched_f] + [("bwd", t) for t in m.unmatched_b]
    else:
        m = match_triples(TB, TF)
        pr.diffs = [("bwd", t) for t in m.unmatched_f] + [("fwd", t) for t in m.unmatched_b]
    pr.assumed = [(show_atom(a), show_atom(b)) for a, b in m.assumed]
    pr.flat = [(show_atom(a), show(b)) for a, b in m.flat]
    pr.mapping = m.mapping
    if not m.ok:
        if not m.comparable:
            pr.status, pr.why = "not-comparable", m.why
        else:
            pr.status = "violation"
        return pr
    # in-place operators: the zeroed cells (diagonal of the operator) must coincide
    sub = {a: Poly.atom(b) for a, b in m.mapping.items()}
    if nf >= nb:
        kf = {(r, i.subst(sub)) for r, i, _ in Rf.kills}
        kb = {(rewrite(r, leaf), rewrite(i, leaf).subst(m.sub_b)) for r, i, _ in Rb.kills}
    else:
        kf = {(r, i.subst(m.sub_b)) for r, i, _ in Rf.kills}
        kb = {(rewrite(r, leaf), rewrite(i, leaf).subst(sub)) for r, i, _ in Rb.kills}
    if kf != kb:
        pr.status = "violation"
        pr.kill_diffs = [("fwd", show_loc(r, i)) for r, i in kf - kb] + [("bwd", show_loc(r, i)) for r, i in kb - kf]
    # iteration spaces: corresponding loops whose bounds are computed from parameters only
    # (no table lookup on either side) must have the same bounds
    lf = {lp.atom: lp for e in Rf.edges for lp in e.loops}
    lb = {lp.atom: lp for e in Rb.edges for lp in e.loops}
    src, dst, src_is_f = (lf, lb, True) if nf >= nb else (lb, lf, False)

    def has_table(p):
        return any(a[0] == "ld" for a in p.atoms(True))

    def norm_b(p):
        return rewrite(p, leaf)
    for a, b in m.mapping.items():
        if b[0] != "loop" or a not in src or b not in dst:
            continue
        la, lb_ = src[a], dst[b]
        for which in ("lo", "hi"):
            pa, pb = getattr(la, which), getattr(lb_, which)
            if src_is_f:
                pa, pb = pa.subst(sub), norm_b(pb)
            else:
                pa, pb = norm_b(pa).subst(sub), pb
            if any(x[0] == "loop" and x in src for x in pa.atoms(True)):
                continue          # depends on a loop variable that has no image
            ta, tb = has_table(pa), has_table(pb)
            pr.n_bounds += 1
            if pa == pb:
                continue
            if ta or tb:
                pr.n_bounds -= 1
                continue          # driven by index tables: equality is assumed, not decided
            pr.status = "violation"
            f_lp, b_lp = (la, lb_) if src_is_f else (lb_, la)
            pr.bound_diffs.append((which, f_lp, b_lp, show(pa if src_is_f else pb), show(pb if src_is_f else pa)))
    return pr


# ============================================================================
# Level 2: Python compositions -- event traces and dataflow-graph reversal
# ============================================================================
def py_find_def(mod, qualname):
    """'Class.method' or 'func' in a parsed module (ast with _parent links)."""
    parts = qualname.split(".")
    body = mod.body
    node = None
    for i, p in enumerate(parts):
        node = None
        for st in body:
            if isinstance(st, (ast.ClassDef, ast.FunctionDef)) and st.name == p:
                node = st
                break
        if node is None:
            return None
        body = node.body
    return node if isinstance(node, ast.FunctionDef) else None


def _py_poly(e, env):
    """arithmetic over ints -> Poly over opaque atoms (unparse text); None if not arithmetic"""
    if isinstance(e, ast.Constant) and isinstance(e.value, bool):
        return None
    if isinstance(e, ast.Constant) and isinstance(e.value, int):
        return Poly.const(e.value)
    if isinstance(e, ast.Name) and e.id in env:
        return _py_poly(env[e.id], env)
    if isinstance(e, ast.BinOp) and isinstance(e.op, (ast.Add, ast.Sub, ast.Mult)):
        a, b = _py_poly(e.left, env), _py_poly(e.right, env)
        if a is None or b is None:
            return None
        return a + b if isinstance(e.op, ast.Add) else (a - b if isinstance(e.op, ast.Sub) else a * b)
    if isinstance(e, ast.UnaryOp) and isinstance(e.op, ast.USub):
        a = _py_poly(e.operand, env)
        return None if a is None else -a
    if isinstance(e, (ast.Name, ast.Attribute, ast.Subscript, ast.Call)):
        return Poly.atom(("sym", canon_py(e, env, arith=False)))
    return None


class _Subst(ast.NodeTransformer):
    def __init__(self, env):
        self.env = env

    def visit_Name(self, n):
        if isinstance(n.ctx, ast.Load) and n.id in self.env:
            # stored values are already fully inlined
            return ast.parse(ast.unparse(self.env[n.id]), mode="eval").body
        return n

    def visit_UnaryOp(self, n):
        n = self.generic_visit(n)
        if isinstance(n.op, ast.Not) and isinstance(n.operand, ast.Constant) and isinstance(n.operand.value, bool):
            return ast.Constant(value=not n.operand.value)
        return n

    def visit_IfExp(self, n):
        n = self.generic_visit(n)
        if isinstance(n.test, ast.Constant):
            return n.body if n.test.value else n.orelse
        return n


def py_inline(e, env):
    new = _Subst(env).visit(ast.parse(ast.unparse(e), mode="eval").body)
    return ast.fix_missing_locations(new)


def canon_py(e, env, arith=True):
    e2 = py_inline(e, env)
    if arith:
        p = _py_poly(e2, {})
        if p is not None:
            return show(p)
    return ast.unparse(e2)


def strip_ctypes(e):
    """x.ctypes.data_as(...) -> x ; ctypes.c_int(v) -> v"""
    if isinstance(e, ast.Call) and isinstance(e.func, ast.Attribute):
        if e.func.attr == "data_as" and isinstance(e.func.value, ast.Attribute) and e.func.value.attr == "ctypes":
            return e.func.value.value
        if isinstance(e.func.value, ast.Name) and e.func.value.id == "ctypes" and e.func.attr.startswith("c_") \
                and len(e.args) == 1:
            return e.args[0]
    return e


def buffer_root(e, alias):
    """root local name of a buffer expression + static view text"""
    e = strip_ctypes(e)
    view = ""
    while True:
        if isinstance(e, ast.Subscript):
            view = "[%s]%s" % (ast.unparse(e.slice), view)
            e = e.value
        elif isinstance(e, ast.Call) and isinstance(e.func, ast.Attribute) and e.func.attr in (
                "transpose", "copy", "reshape") and not isinstance(e.func.value, ast.Name) is None:
            view = ".%s(%s)%s" % (e.func.attr, ", ".join(ast.unparse(a) for a in e.args), view)
            e = e.func.value
        elif isinstance(e, ast.Attribute) and e.attr == "T":
            view = ".T" + view
            e = e.value
        else:
            break
    if isinstance(e, ast.Name):
        r, v0 = alias.get(e.id, (e.id, ""))
        return r, v0 + view
    return ast.unparse(e), view


def guard_form(test, env):
    """canonical text of a branch condition: negations pushed inwards, `X > 0`, `X != 0`, `0 < X`
    and plain `X` are one form (counts), likewise `X == 0` / `not X`; `a and b` is order-free."""
    t = py_inline(test, env)

    def norm(e, neg):
        if isinstance(e, ast.UnaryOp) and isinstance(e.op, ast.Not):
            return norm(e.operand, not neg)
        if isinstance(e, ast.BoolOp):
            parts = sorted(norm(v, neg) for v in e.values)
            is_and = isinstance(e.op, ast.And) != neg
            return "(" + (" and " if is_and else " or ").join(parts) + ")"
        if isinstance(e, ast.Compare) and len(e.ops) == 1:
            a, op, b = e.left, e.ops[0], e.comparators[0]
            if isinstance(a, ast.Constant) and not isinstance(b, ast.Constant):
                flip = {ast.Lt: ast.Gt, ast.Gt: ast.Lt, ast.LtE: ast.GtE, ast.GtE: ast.LtE}
                a, b = b, a
                op = flip.get(type(op), type(op))()
            zero = isinstance(b, ast.Constant) and not isinstance(b.value, bool) and b.value == 0
            txt = canon_py(a, {}, arith=True)
            if zero and isinstance(op, (ast.Gt, ast.NotEq)):
                return ("not " if neg else "") + txt
            if zero and isinstance(op, (ast.Eq, ast.LtE)):
                return ("" if neg else "not ") + txt
            if isinstance(op, (ast.Is, ast.IsNot)) and isinstance(b, ast.Constant) and b.value is None:
                pos = isinstance(op, ast.Is) != neg
                return "%s is %sNone" % (txt, "" if pos else "not ")
            inv = {ast.Eq: "!=", ast.NotEq: "==", ast.Lt: ">=", ast.GtE: "<", ast.Gt: "<=", ast.LtE: ">"}
            same = {ast.Eq: "==", ast.NotEq: "!=", ast.Lt: "<", ast.GtE: ">=", ast.Gt: ">", ast.LtE: "<="}
            tab = inv if neg else same
            if type(op) in tab:
                return "%s %s %s" % (txt, tab[type(op)], canon_py(b, {}, arith=True))
        txt = ast.unparse(e)
        return ("not (%s)" % txt) if neg else txt
    return norm(t, False)


class Event:
    def __init__(self, prim, flag, statics, bufs, guards, node, order):
        self.prim, self.flag, self.statics, self.bufs = prim, flag, statics, bufs
        self.guards, self.node, self.order = guards, node, order
        self.text = " ".join(ast.unparse(node).split())[:150]
        self.line = getattr(node, "lineno", 0)

    def __repr__(self):
        return "<%s flag=%s %s %s %s>" % (self.prim, self.flag, self.statics, self.bufs, self.guards)


class PySpec:
    """Primitive table for one pair.  prims: name -> dict(
         partner=name (other direction; default: itself),
         dir=True/False for partner-named primitives (None when a flag decides),
         flag=parameter name or position holding the direction flag,
         params=[positional parameter names] (bound by position/keyword),
         X=[params read when forward], Y=[params written when forward], IO=[in-place params],
         ret=role of the returned value: 'X' | 'Y' | ('Y','aux',...) for tuples )"""

    def __init__(self, prims, consts_f=None, consts_b=None, ignore_if=False, ignore_for=False, inline=(),
                 ignore_statics=False):
        self.prims = prims
        self.ignore_statics = ignore_statics
        self.consts_f = consts_f or {}
        self.consts_b = consts_b or {}
        self.ignore_if = ignore_if
        self.ignore_for = ignore_for
        self.inline = tuple(inline)


def _norm_lib(e):
    """getattr(libcider, "name") -> libcider.name"""
    if isinstance(e, ast.Call) and isinstance(e.func, ast.Name) and e.func.id == "getattr" and len(e.args) == 2 \
            and isinstance(e.args[1], ast.Constant) and isinstance(e.args[1].value, str):
        return ast.Attribute(value=e.args[0], attr=e.args[1].value, ctx=ast.Load())
    return e


def py_resolve(mod, cls, name):
    """method `name` of class `cls` (searching same-module base classes), else a module-level function"""
    seen = set()
    todo = [cls] if cls else []
    while todo:
        c = todo.pop(0)
        if c in seen:
            continue
        seen.add(c)
        for st in mod.body:
            if isinstance(st, ast.ClassDef) and st.name == c:
                for m in st.body:
                    if isinstance(m, ast.FunctionDef) and m.name == name:
                        return m
                for b in st.bases:
                    if isinstance(b, ast.Name):
                        todo.append(b.id)
    for st in mod.body:
        if isinstance(st, ast.FunctionDef) and st.name == name:
            return st
    return None


def _callee_name(call):
    f = _norm_lib(call.func)
    if isinstance(f, ast.Attribute):
        return f.attr
    if isinstance(f, ast.Name):
        return f.id
    return None


class Tracer:
    def __init__(self, spec, mod, func, consts, find_method=None):
        self.spec, self.mod, self.func = spec, mod, func
        self.env = {}
        for k, v in consts.items():
            self.env[k] = ast.Constant(value=v)
        self.alias = {}
        self.fnvar = {}      # local name -> libcider function selected
        self.events = []
        self.guards = []
        self.find_method = find_method
        self.assigned = {}
        self.block(func.body)

    def fold(self, test):
        t = py_inline(test, self.env)
        if isinstance(t, ast.Constant):
            return bool(t.value)
        return None

    def block(self, stmts):
        pushed = 0
        for st in stmts:
            self.stmt(st)
            # early return / raise: the rest of the block runs under the negated test
            if isinstance(st, ast.If) and not st.orelse and st.body and isinstance(st.body[-1], (ast.Return, ast.Raise)) \
                    and self.fold(st.test) is None and not any(
                        isinstance(x, ast.Call) and self.is_prim(x) for b in st.body for x in ast.walk(b)):
                if isinstance(st.body[-1], ast.Return):
                    self.guards.append(("if", guard_form(ast.UnaryOp(op=ast.Not(), operand=st.test), self.env)))
                    pushed += 1
        for _ in range(pushed):
            self.guards.pop()

    def stmt(self, st):
        if isinstance(st, ast.If):
            v = self.fold(st.test)
            if v is True:
                return self.block(st.body)
            if v is False:
                return self.block(st.orelse)
            self.guards.append(("if", guard_form(st.test, self.env)))
            self.block(st.body)
            self.guards.pop()
            if st.orelse:
                self.guards.append(("if", guard_form(ast.UnaryOp(op=ast.Not(), operand=st.test), self.env)))
                self.block(st.orelse)
                self.guards.pop()
            return
        if isinstance(st, ast.For):
            g = "for %s in %s" % (ast.unparse(st.target), canon_py(st.iter, self.env, arith=False))
            self.guards.append(("for", g))
            self.block(st.body)
            self.guards.pop()
            return
        if isinstance(st, (ast.With,)):
            return self.block(st.body)
        if isinstance(st, ast.Assign) and len(st.targets) == 1:
            tgt, val = st.targets[0], st.value
            if isinstance(val, ast.Call) and self.is_prim(val):
                return self.event(val, st, tgt)
            # zeroing of (a window of) a buffer:  B[...] = 0
            if isinstance(tgt, ast.Subscript) and isinstance(tgt.value, ast.Name) and _is_zero_const(val):
                self.record_clear(tgt.value, tgt.slice, st)
                return
            # index-map scatter:  B[IDX] = A
            if isinstance(tgt, ast.Subscript) and isinstance(tgt.value, ast.Name) and isinstance(val, ast.Name) \
                    and "index_map" in self.spec.prims and not isinstance(tgt.slice, (ast.Slice, ast.Tuple)) \
                    and not isinstance(tgt.slice, ast.Constant):
                return self.index_event(False, tgt.value, tgt.slice, val, st)
            if isinstance(tgt, ast.Name):
                self.define(tgt.id, val)
            elif isinstance(tgt, ast.Tuple) and isinstance(val, ast.Tuple) and len(tgt.elts) == len(val.elts):
                for t, v in zip(tgt.elts, val.elts):
                    if isinstance(t, ast.Name):
                        self.define(t.id, v)
            return
        if isinstance(st, ast.AugAssign):
            if isinstance(st.value, ast.Call) and self.is_prim(st.value):
                return self.event(st.value, st, st.target)
            # index-map gather:  A[:] += B[IDX]
            if isinstance(st.op, ast.Add) and isinstance(st.target, ast.Subscript) and isinstance(st.value, ast.Subscript) \
                    and isinstance(st.value.value, ast.Name) and "index_map" in self.spec.prims:
                return self.index_event(True, st.value.value, st.value.slice, st.target.value, st)
            return
        if isinstance(st, ast.Expr) and isinstance(st.value, ast.Call):
            if self.is_prim(st.value):
                return self.event(st.value, st, None)
            c = st.value
            if isinstance(c.func, ast.Attribute) and c.func.attr == "fill" and isinstance(c.func.value, ast.Name) \
                    and c.args and _is_zero_const(c.args[0]):
                self.record_clear(c.func.value, None, st)
            return
        if isinstance(st, ast.Return) and st.value is not None:
            v = st.value
            if isinstance(v, ast.Tuple) and v.elts and isinstance(v.elts[0], ast.Call) and self.is_prim(v.elts[0]):
                v = v.elts[0]
            if isinstance(v, ast.Call) and self.is_prim(v):
                return self.event(v, st, ast.Name(id="<return>", ctx=ast.Store()))
            return

    def record_clear(self, bname, slc, st):
        root, view = buffer_root(bname, self.alias)
        full = view == "" and (slc is None or ast.unparse(slc) in (":", "...") or (
            isinstance(slc, ast.Tuple) and all(ast.unparse(x) == ":" for x in slc.elts)))
        lo = hi = None
        if not full and slc is not None:
            last = slc.elts[-1] if isinstance(slc, ast.Tuple) else slc
            lead = slc.elts[:-1] if isinstance(slc, ast.Tuple) else []
            if isinstance(last, ast.Slice) and last.lower is not None and last.upper is not None and last.step is None \
                    and all(ast.unparse(x) == ":" for x in lead):
                lo, hi = py_inline(last.lower, self.env), py_inline(last.upper, self.env)
        self.__dict__.setdefault("clears", []).append(
            {"root": root, "full": full, "lo": lo, "hi": hi, "node": st, "pos": len(self.events),
             "guards": tuple(self.guards)})

    def define(self, name, val):
        self.assigned[name] = self.assigned.get(name, 0) + 1
        # libcider function selection (attribute, getattr(), or a ternary on a folded flag)
        val = _norm_lib(val)
        if isinstance(val, ast.IfExp):
            v = self.fold(val.test)
            if v is not None:
                val = _norm_lib(val.body if v else val.orelse)
        if isinstance(val, ast.Subscript) and isinstance(val.value, ast.Dict):
            k = py_inline(val.slice, self.env)
            if isinstance(k, ast.Constant):
                for kk, vv in zip(val.value.keys, val.value.values):
                    if isinstance(kk, ast.Constant) and kk.value == k.value:
                        val = _norm_lib(vv)
        if isinstance(val, ast.Attribute) and isinstance(val.value, ast.Name) and val.value.id == "libcider":
            self.fnvar[name] = val.attr
            return
        v = strip_ctypes(val)
        if isinstance(v, (ast.Name, ast.Subscript)) or (isinstance(v, ast.Attribute) and v.attr == "T"):
            r, view = buffer_root(v, self.alias)
            if isinstance(v, ast.Name) or (r in self.func_locals()):
                self.alias[name] = (r, view)
                return
        # static scalar local: inline (last definition wins in straight-line code); a parameter
        # given a default inside an `if` (`if offset is None: offset = 0`) stays symbolic
        if any(k == "if" for k, _ in self.guards) and name in {a.arg for a in self.func.args.args}:
            self.env.pop(name, None)
            return
        if not any(isinstance(x, ast.Call) and self.is_prim(x) for x in ast.walk(val)):
            self.env[name] = py_inline(val, self.env)

    def func_locals(self):
        if not hasattr(self, "_locals"):
            s = {a.arg for a in self.func.args.args + self.func.args.kwonlyargs}
            for n in ast.walk(self.func):
                if isinstance(n, ast.Name) and isinstance(n.ctx, ast.Store):
                    s.add(n.id)
            self._locals = s
        return self._locals

    def prim_name(self, call):
        nm = _callee_name(call)
        clib = False
        f = _norm_lib(call.func)
        if isinstance(call.func, ast.Name) and call.func.id in self.fnvar:
            nm = self.fnvar[call.func.id]
            clib = True
        elif isinstance(f, ast.Attribute) and isinstance(f.value, ast.Name) and f.value.id == "libcider":
            clib = True
        if clib and ("libcider:%s" % nm) in self.spec.prims:
            return "libcider:%s" % nm
        return nm

    def is_prim(self, call):
        nm = self.prim_name(call)
        return nm in self.spec.prims or nm in self.spec.inline or self.helper_def(call) is not None

    def helper_def(self, call):
        """`self._h(...)`, `cls._h(...)` or a same-module function that (itself) calls a primitive:
        followed one level so that extracting a helper does not change the trace."""
        if getattr(self, "depth", 0) >= 2 or self.find_method is None:
            return None
        f = call.func
        if isinstance(f, ast.Attribute) and isinstance(f.value, ast.Name) and f.value.id in ("self", "cls"):
            nm = f.attr
        elif isinstance(f, ast.Name) and f.id not in self.fnvar:
            nm = f.id
        else:
            return None
        if nm in self.spec.prims or nm in self.spec.inline:
            return None
        cache = self.__dict__.setdefault("_helper_cache", {})
        if nm not in cache:
            fn = self.find_method(nm)
            ok = False
            if fn is not None and fn is not self.func:
                for x in ast.walk(fn):
                    if isinstance(x, ast.Call):
                        n2 = _callee_name(x)
                        if n2 in self.spec.prims or ("libcider:%s" % n2) in self.spec.prims or n2 in self.spec.inline:
                            ok = True
                            break
            cache[nm] = fn if ok else None
        return cache[nm]

    def index_event(self, gather, bname, idx, aname, st):
        bufs = {"B": buffer_root(bname, self.alias), "A": buffer_root(aname, self.alias)}
        self.events.append(Event("index_map", gather, {"idx": canon_py(idx, self.env, arith=False)}, bufs,
                                 tuple(self.guards), st, len(self.events)))

    def event(self, call, st, target):
        nm = self.prim_name(call)
        if nm in self.spec.inline:
            return self.splice(nm, call, st, target)
        if nm not in self.spec.prims:
            hd = self.helper_def(call)
            if hd is not None:
                return self.splice(hd.name, call, st, target, fn=hd)
        p = self.spec.prims[nm]
        params = p.get("params")
        bound = {}
        args = list(call.args)
        if any(isinstance(a, ast.Starred) for a in args):
            # fn(*args) with args a literal list local
            if len(args) == 1 and isinstance(args[0].value, ast.Name) and isinstance(
                    self.env.get(args[0].value.id), ast.List):
                args = list(self.env[args[0].value.id].elts)
            else:
                raise Irreducible("line %d: starred call of %s cannot be expanded" % (st.lineno, nm))
        for i, a in enumerate(args):
            key = params[i] if params and i < len(params) else i
            bound[key] = a
        for kw in call.keywords:
            if kw.arg is None:
                raise Irreducible("line %d: **kwargs in call of %s" % (st.lineno, nm))
            bound[kw.arg] = kw.value
        flag = p.get("dir")
        fk = p.get("flag")
        if fk is not None:
            if fk in bound:
                fv = py_inline(strip_ctypes(bound[fk]), self.env)
                if isinstance(fv, ast.Constant):
                    flag = bool(fv.value)
                else:
                    flag = "expr:" + ast.unparse(fv)
            else:
                flag = p.get("flag_default", True)
        roles = {}
        for role in ("X", "Y", "IO", "AUX", "IN", "OUT"):
            for k in p.get(role, ()):
                roles[k] = role
        bufs, statics = {}, {}
        for k, a in bound.items():
            if k == fk:
                continue
            if k in roles:
                r, view = buffer_root(a, self.alias)
                bufs[k] = (r, view)
                if view:
                    statics["view(%s)" % k] = view
            else:
                statics[str(k)] = canon_py(strip_ctypes(a), self.env)
        ret = p.get("ret")
        if ret and target is not None:
            tl = target.elts if isinstance(target, ast.Tuple) else [target]
            rl = ret if isinstance(ret, (list, tuple)) else [ret]
            for i, t in enumerate(tl):
                if i < len(rl):
                    r, view = buffer_root(t, self.alias)
                    bufs["<ret%d>" % i] = (r, view)
                    roles["<ret%d>" % i] = rl[i]
                    if view:
                        statics["view(<ret%d>)" % i] = view
        ev = Event(nm, flag, statics, bufs, tuple(self.guards), st, len(self.events))
        ev.roles = roles
        self.events.append(ev)

    def splice(self, nm, call, st, target, fn=None):
        fn = fn or self.find_method(nm)
        if fn is None:
            raise Irreducible("helper %s to inline not found" % nm)
        sub = Tracer.__new__(Tracer)
        sub.spec, sub.mod, sub.func = self.spec, self.mod, fn
        sub.env, sub.alias, sub.fnvar, sub.events = dict(), dict(), dict(), []
        sub.guards, sub.find_method, sub.assigned = list(self.guards), self.find_method, {}
        sub.depth = getattr(self, "depth", 0) + 1
        names = [a.arg for a in fn.args.args]
        deco = {ast.unparse(d) for d in fn.decorator_list}
        if names and names[0] in ("self", "cls") and "staticmethod" not in deco:
            names = names[1:]
        # the helper's own locals get roots of their own
        for loc in sub.func_locals():
            sub.alias[loc] = ("%s::%s" % (nm, loc), "")
        bound = {}
        for i, a in enumerate(call.args):
            if i < len(names):
                bound[names[i]] = a
        for kw in call.keywords:
            if kw.arg:
                bound[kw.arg] = kw.value
        # parameter defaults that are literals
        pos = fn.args.args
        for a, d in zip(pos[len(pos) - len(fn.args.defaults):], fn.args.defaults):
            if a.arg not in bound and isinstance(d, ast.Constant):
                sub.env[a.arg] = d
        for a, d in zip(fn.args.kwonlyargs, fn.args.kw_defaults):
            if a.arg not in bound and isinstance(d, ast.Constant):
                sub.env[a.arg] = d
        for pname, a in bound.items():
            sub.alias[pname] = buffer_root(a, self.alias)
            sub.env[pname] = py_inline(a, self.env)
        sub.block(fn.body)
        for c in sub.__dict__.get("clears", []):
            c2 = dict(c)
            c2["pos"] = len(self.events) + c["pos"]
            self.__dict__.setdefault("clears", []).append(c2)
        site = getattr(self, "site", None) or st
        for e in sub.events:
            e.order = len(self.events)
            if not hasattr(e, "site"):
                e.site = site
            e.frames = getattr(e, "frames", []) + [(fn, sub)]
            # the helper's returned value is the caller's assignment target
            if target is not None:
                for k, (r, v) in list(e.bufs.items()):
                    if r == "<return>":
                        e.bufs[k] = buffer_root(target, self.alias)
            self.events.append(e)
        # `return buf` / `return a, b`: the caller's target names alias the helper's buffers
        if target is not None and fn.body and isinstance(fn.body[-1], ast.Return) and fn.body[-1].value is not None:
            rv = fn.body[-1].value
            rl = rv.elts if isinstance(rv, ast.Tuple) else [rv]
            tl = target.elts if isinstance(target, ast.Tuple) else [target]
            if len(rl) == len(tl):
                for t, r in zip(tl, rl):
                    if isinstance(t, ast.Name) and isinstance(r, ast.Name) and t.id != "<return>":
                        self.alias[t.id] = buffer_root(r, sub.alias)


def _dir_roles(e):
    """(reads, writes, inplace) buffer roots of an event, given its direction"""
    reads, writes, io = set(), set(), set()
    fwd = e.flag is True
    for k, (r, v) in e.bufs.items():
        role = getattr(e, "roles", {}).get(k)
        if e.prim == "index_map":
            role = "X" if k == "B" else "Y"
        if role == "IO":
            io.add(r)
        elif role == "AUX":
            reads.add(r)
            writes.add(r)
        elif role == "IN":
            reads.add(r)
        elif role == "OUT":
            writes.add(r)
        elif role == "X":
            (reads if fwd else writes).add(r)
        elif role == "Y":
            (writes if fwd else reads).add(r)
    return reads, writes, io


def _conflict(e1, e2):
    r1, w1, io1 = _dir_roles(e1)
    r2, w2, io2 = _dir_roles(e2)
    if (w1 | io1) & (r2 | io2) or (r1 | io1) & (w2 | io2):
        return True
    if io1 & w2 or io2 & w1:
        return True
    return False


class TraceDiff:
    def __init__(self):
        self.unmatched_f, self.unmatched_b, self.order, self.bufmap_conflicts = [], [], [], []
        self.n_events = (0, 0)
        self.n_order = 0


def compare_traces(spec, EF, EB):
    """Backward trace must be the reversal of the forward trace."""
    d = TraceDiff()
    d.n_events = (len(EF), len(EB))

    def guards(e):
        gs = []
        for kind, g in e.guards:
            if kind == "if" and spec.ignore_if:
                continue
            if kind == "for" and spec.ignore_for:
                continue
            gs.append(g)
        return tuple(sorted(gs))

    def partner_sig(e):
        p = spec.prims[e.prim]
        pn = p.get("partner", e.prim)
        flag = (not e.flag) if isinstance(e.flag, bool) else e.flag
        return pn, flag

    def statics_common(e, o):
        if spec.ignore_statics:
            return {}
        ks = set(e.statics) & set(o.statics)
        if spec.prims[e.prim].get("partner", e.prim) == e.prim:
            ks = set(e.statics) | set(o.statics)
        return {k: (e.statics.get(k), o.statics.get(k)) for k in ks}

    used = set()
    match = {}
    for e in EF:
        pn, flag = partner_sig(e)
        best = None
        for j, o in enumerate(EB):
            if j in used or o.prim != pn or o.flag != flag:
                continue
            if guards(o) != guards(e):
                continue
            sc = statics_common(e, o)
            if any(a != b for a, b in sc.values()):
                continue
            best = j
            break
        if best is None:
            d.unmatched_f.append(e)
        else:
            used.add(best)
            match[e.order] = EB[best]
    for j, o in enumerate(EB):
        if j not in used:
            d.unmatched_b.append(o)
    # buffer correspondence must be one-to-one
    f2b, b2f = {}, {}
    for e in EF:
        o = match.get(e.order)
        if o is None:
            continue
        rf, wf, iof = _dir_roles(e)
        rb, wb, iob = _dir_roles(o)
        for sf, sb in ((rf, wb), (wf, rb), (iof, iob)):
            if len(sf) == 1 and len(sb) == 1:
                a, b = next(iter(sf)), next(iter(sb))
                if f2b.setdefault(a, b) != b or b2f.setdefault(b, a) != a:
                    d.bufmap_conflicts.append((e, o, a, b, f2b.get(a), b2f.get(b)))
    # order reversal of dependent calls
    for i, e1 in enumerate(EF):
        for e2 in EF[i + 1:]:
            o1, o2 = match.get(e1.order), match.get(e2.order)
            if o1 is None or o2 is None:
                continue
            if _conflict(e1, e2):
                d.n_order += 1
                if not (o2.order < o1.order):
                    d.order.append((e1, e2, o1, o2))
    return d


# ----------------------------------------------------------------------------
# accumulate-only outputs and their initialisation (py-zeroinit)
# ----------------------------------------------------------------------------
def c_accumulated_params(R):
    """C pointer parameters the function only adds to (`+=` / DGEMM BETA=1) without
    initialising the element first: the caller must supply initialised storage."""
    out = set()
    byroot = {}
    for s in R.stores:
        if s.root[0] == "par" and s.root in R.data_roots:
            byroot.setdefault(s.root, []).append(s)
    for root, ss in byroot.items():
        if root in R.leaf_reads:
            continue           # in-place operator: reads its own input
        kills = [s for s in ss if s.op == "="]
        for a in ss:
            if a.op != "+=":
                continue
            covered = False
            for k in kills:
                if k.seq > a.seq:
                    continue
                ids = {lp.uid for lp in a.ctx}
                own = [lp for lp in k.ctx if lp.uid not in ids]
                kid = {lp.uid for lp in k.ctx}
                try:
                    mp = unify(k.idx, own, a.idx, {lp.atom for lp in a.ctx if lp.uid not in kid})
                except Irreducible:
                    mp = {}
                if mp is not None:
                    covered = True
                    break
            if not covered:
                out.add(root[1])
                break
    return out


def c_written_params(R):
    return {s.root[1] for s in R.stores if s.root[0] == "par" and s.root in R.data_roots}


ZERO_ALLOC = {"zeros", "zeros_like"}


def _is_zero_const(e):
    return isinstance(e, ast.Constant) and isinstance(e.value, (int, float)) and not isinstance(e.value, bool) \
        and e.value == 0


def is_zeroing(st, names, fold=None):
    """statement initialises the buffer(s) `names`: fresh zeros, `b[...] = 0`, `b.fill(0)`,
    `b = None` (the primitive then allocates), or an `if` all of whose live branches do."""
    if isinstance(st, ast.Assign) and len(st.targets) == 1:
        t, v = st.targets[0], st.value
        if isinstance(t, ast.Name) and t.id in names:
            if isinstance(v, ast.Call) and _callee_name(v) in ZERO_ALLOC:
                return True
            if isinstance(v, ast.Constant) and v.value is None:
                return True
        if isinstance(t, ast.Subscript) and isinstance(t.value, ast.Name) and t.value.id in names and _is_zero_const(v):
            return True
    if isinstance(st, ast.Expr) and isinstance(st.value, ast.Call) and isinstance(st.value.func, ast.Attribute) \
            and st.value.func.attr == "fill" and isinstance(st.value.func.value, ast.Name) \
            and st.value.func.value.id in names and st.value.args and _is_zero_const(st.value.args[0]):
        return True
    if isinstance(st, ast.If):
        v = fold(st.test) if fold else None
        if v is True:
            return any(is_zeroing(x, names, fold) for x in st.body)
        if v is False:
            return any(is_zeroing(x, names, fold) for x in st.orelse)
        return bool(st.orelse) and any(is_zeroing(x, names, fold) for x in st.body) \
            and any(is_zeroing(x, names, fold) for x in st.orelse)
    # the reset is delegated to a helper: self._reset(buf) / self._reset() zeroing self.<attr>
    tr = getattr(fold, "__self__", None)
    call = st.value if isinstance(st, ast.Expr) and isinstance(st.value, ast.Call) else None
    if call is not None and isinstance(tr, Tracer) and tr.find_method is not None and getattr(tr, "depth", 0) < 2:
        f = call.func
        nm = f.attr if isinstance(f, ast.Attribute) and isinstance(f.value, ast.Name) and f.value.id in ("self", "cls") \
            else (f.id if isinstance(f, ast.Name) else None)
        hd = tr.find_method(nm) if nm else None
        if hd is not None and hd is not tr.func:
            pn = [a.arg for a in hd.args.args]
            if pn and pn[0] in ("self", "cls"):
                pn = pn[1:]
            inner = set()
            for i, a in enumerate(call.args):
                if i < len(pn) and isinstance(a, ast.Name) and a.id in names:
                    inner.add(pn[i])
            for kw in call.keywords:
                if kw.arg and isinstance(kw.value, ast.Name) and kw.value.id in names:
                    inner.add(kw.arg)
            attrs = {ast.unparse(tr.env[n]) for n in names if n in tr.env and isinstance(tr.env[n], ast.Attribute)}
            for x in hd.body:
                if inner and is_zeroing(x, inner, None):
                    return True
                if isinstance(x, ast.Assign) and len(x.targets) == 1 and isinstance(x.targets[0], ast.Subscript) \
                        and ast.unparse(x.targets[0].value) in attrs and _is_zero_const(x.value):
                    return True
                if isinstance(x, ast.Expr) and isinstance(x.value, ast.Call) and isinstance(x.value.func, ast.Attribute) \
                        and x.value.func.attr == "fill" and ast.unparse(x.value.func.value) in attrs \
                        and x.value.args and _is_zero_const(x.value.args[0]):
                    return True
    return False


def dominating_siblings(fn, stmt):
    """statements that precede `stmt` in its own block or in an enclosing block of fn"""
    cur = stmt
    while cur is not fn and cur is not None:
        par = getattr(cur, "_parent", None)
        if par is None:
            return
        for fld in ("body", "orelse", "finalbody"):
            blk = getattr(par, fld, None)
            if isinstance(blk, list) and any(x is cur for x in blk):
                pre = []
                for x in blk:
                    if x is cur:
                        break
                    pre.append(x)
                for x in reversed(pre):       # nearest first
                    yield x
        cur = par


def zeroed_before(fn, names, stmt, fold=None):
    """the most recent dominating definition/initialisation of the buffer is a zeroing one"""
    for x in dominating_siblings(fn, stmt):
        if is_zeroing(x, names, fold):
            return True
        if isinstance(x, ast.Assign) and any(isinstance(t, ast.Name) and t.id in names for t in x.targets):
            return False      # re-bound to something that is not known to be zero
    return False


def names_of_root(tracer, root):
    return {root} | {n for n, (r, v) in tracer.alias.items() if r == root}


# ----------------------------------------------------------------------------
# c-scratch-layout: producer/consumer layout agreement of private scratch arrays
# ----------------------------------------------------------------------------
def _stride_of(idx, atom):
    """coefficient polynomial of a loop variable occurring linearly at top level; None if it
    occurs otherwise; ZERO if absent"""
    if atom not in idx.atoms(True):
        return ZERO
    out = Poly()
    for m, c in idx.t.items():
        d = dict(m)
        if atom in d:
            if d[atom] != 1:
                return None
            del d[atom]
            if any(atom in atom_atoms(a) for a in d):
                return None
            out = out + Poly({tuple(sorted(d.items(), key=lambda ae: _akey(ae[0]))): c})
        elif any(atom in atom_atoms(a) for a, _ in m):
            return None
    return out


def _divides(a, b):
    """a | b for polynomials: True / False / None (undecided)"""
    if a == b:
        return True
    if len(a.t) != 1 or len(b.t) != 1:
        return None
    (am, ac), = a.t.items()
    (bm, bc), = b.t.items()
    return _mono_div(bm, bc, am, ac) is not None


def _nested(inner, outer):
    """index range [stride, stride*trip] of `inner` lies inside one step range of `outer`"""
    (si, ti), (so, to) = inner, outer
    if si == so and ti == to:
        return True
    a = _divides(so, si)
    b = _divides(si * ti, so * to)
    if a is False or b is False:
        return False
    if a is None or b is None:
        return None
    return True


def scratch_layout(stores, buffers):
    """-> list of (buffer, verdict, reader Store, reader index, detail) with verdict in
    ok | mismatch | undecided, one entry per (buffer, distinct reader index)."""
    out = []
    bufroots = {("buf", b) for b in buffers}
    writers = {}
    for s in stores:
        if s.root in bufroots:
            writers.setdefault(s.root, []).append(s)
    seen = set()
    for s in stores:
        polys = [s.rhs, s.idx] + [b for lp in s.ctx for b in (lp.lo, lp.hi)]
        reads = set()
        for p in polys:
            for a in p.atoms(True):
                if a[0] == "ld" and a[1] in bufroots:
                    reads.add(a)
        for a in sorted(reads, key=_akey):
            root, q = a[1], a[2]
            ws = [w for w in writers.get(root, []) if w.seq < s.seq or (w.seq == s.seq and w is not s)]
            if not ws or (root, q) in seen:
                continue
            seen.add((root, q))
            verdicts = []
            for w in ws:
                shared = {lp.uid for lp in w.ctx} & {lp.uid for lp in s.ctx}
                r_own = [lp for lp in s.ctx if lp.uid not in shared]
                w_own = [lp for lp in w.ctx if lp.uid not in shared]
                rv = []
                bad = False
                for lp in r_own:
                    st = _stride_of(q, lp.atom)
                    if st is None:
                        bad = True
                        break
                    if not st.is_zero():
                        rv.append((lp, st, lp.hi - lp.lo))
                wv = []
                for lp in w_own:
                    st = _stride_of(w.idx, lp.atom)
                    if st is None:
                        bad = True
                        break
                    if not st.is_zero():
                        wv.append((lp, st, lp.hi - lp.lo))
                if bad:
                    verdicts.append(("undecided", w, None))
                    continue
                if not rv or not wv:
                    verdicts.append(("ok", w, None))
                    continue
                v = "ok"
                why = None
                for lp, st, tr in rv:
                    res = []
                    for lw, sw, tw in wv:
                        n1, n2 = _nested((st, tr), (sw, tw)), _nested((sw, tw), (st, tr))
                        res.append(True if (n1 is True or n2 is True) else (None if (n1 is None or n2 is None) else False))
                    if any(r is True for r in res):
                        continue
                    if any(r is None for r in res):
                        if v == "ok":
                            v = "undecided"
                        continue
                    v = "mismatch"
                    why = (lp, st, tr, wv)
                    break
                verdicts.append((v, w, why))
            if any(v == "ok" for v, _, _ in verdicts):
                out.append((root[1], "ok", s, q, None))
            elif any(v == "undecided" for v, _, _ in verdicts):
                out.append((root[1], "undecided", s, q, None))
            else:
                v, w, why = verdicts[0]
                out.append((root[1], "mismatch", s, q, (w, why)))
    return out


def skipped_assignments(R):
    """overwriting stores (`=`, DGEMM BETA=0) into an output parameter that a data-dependent
    `continue` can skip: on that path the block keeps whatever the caller's buffer held."""
    out = []
    for s in R.stores:
        if s.op != "=" or s.root[0] != "par" or s.root not in R.data_roots or s.root in R.leaf_reads:
            continue
        lc = s.live_conds()
        if lc:
            out.append((s, lc))
    return out
