#!/usr/bin/env python3
"""C20 -- FFT plan wrapper (ciderpress/lib/fft_plan.py over fft_wrapper/cider_fft.c).
Thin static rules (DESIGN.md §C20); that the output *is* the DFT is not decidable here.

 shape-guard   in FFTWrapper.call the test `x.shape != self._inshape -> raise` lies on every path to
               every libfft call, and the output buffer is allocated with self._outshape
 ffi           the libfft call sites of fft_plan.py conform to the C prototypes; restype is set for
               every pointer-returning function whose result is used
 layout        frozen C layout table: stride/idist/odist per batch_first; write_fft_input and
               read_fft_output use the same padded row variables, row length 2*(dm1/2+1)*nt, mirrored copies
 shape-table   _inshape/_outshape for the 8 combinations of (r2c, batch_first, fwd) equal the frozen
               decision table (r2c halves only the last axis, batch axis first/last, fwd/bwd swap), and
               the table agrees with the branches of allocate_fftnd_plan (fft_in_size / fft_out_size)
               and with the element types read_fft_output / write_fft_input copy
"""
import ast
import itertools
import os
import re
import sys

sys.path.insert(0, os.path.dirname(os.path.dirname(os.path.abspath(__file__))))
from sa import core, pyfacts as pf, cfg as cfgm, cfacts, ffi  # noqa: E402
from sa.selftest import Mutant  # noqa: E402

PROP = "C20"
FP = "ciderpress/lib/fft_plan.py"
CF = "fft_wrapper/cider_fft.c"
CFULL = "ciderpress/lib/" + CF


# ----------------------------------------------------------------------------
def rule_shape_guard(chk, eng, mod):
    fn = mod.func("FFTWrapper.call")
    g = cfgm.CFG(fn)
    params = [a.arg for a in fn.args.args[1:]]
    if not params:
        raise core.AnalysisError("FFTWrapper.call takes no input array")
    x = params[0]

    def is_guard(nd):
        a = nd.ast
        if nd.kind != "test" or not isinstance(a, ast.If) or not cfgm._raises(a.body) or a.orelse:
            return False
        t = a.test
        if not (isinstance(t, ast.Compare) and len(t.ops) == 1 and isinstance(t.ops[0], ast.NotEq)):
            return False
        sides = {pf.src(t.left), pf.src(t.comparators[0])}
        return sides == {"%s.shape" % x, "self._inshape"}

    guard_ids = [nd.id for nd in g.nodes if nd.ast is not None and is_guard(nd)]
    inst0 = "FFTWrapper.call: the shape test sees the array as passed (parameter %s not re-bound before it)" % x
    rebinds = []
    for nd in g.nodes:
        a = nd.ast
        if a is None or nd.id in guard_ids:
            continue
        stores = [n for n in (ast.walk(a) if nd.kind == "stmt" else ast.walk(getattr(a, "target", ast.Pass())))
                  if isinstance(n, ast.Name) and n.id == x and isinstance(n.ctx, ast.Store)]
        if stores and any(gid in g.reachable(nd.id) for gid in guard_ids):
            rebinds.append(a)
    if guard_ids and not rebinds:
        chk.ok("shape-guard", inst0)
    elif guard_ids:
        chk.violation("shape-guard", FP, "FFTWrapper.call", "parameter %s re-bound before the shape test" % x,
                      rebinds[0].lineno, "`%s` assigns %s before `if %s.shape != self._inshape`: the test no longer "
                      "sees the shape the caller passed, so a wrongly shaped input can be accepted"
                      % (pf.src(rebinds[0])[:80], x, x), instance=inst0)
    sites = [s for s in eng.sites if s.rel == FP and s.func == "FFTWrapper.call"]
    if len(sites) < 3:
        raise core.AnalysisError("FFTWrapper.call makes %d libfft call(s); 3 expected (write/execute/read)" % len(sites))
    for s in sites:
        cn = g.stmt_of_expr(s.node)
        okp, _ = g.must_pass(is_guard, dst=cn.id)
        inst = "FFTWrapper.call: shape test before %s" % "|".join(s.callees)
        if okp:
            chk.ok("shape-guard", inst)
        else:
            chk.violation("shape-guard", FP, "FFTWrapper.call", "shape test before %s" % "|".join(s.callees), s.line,
                          "a path reaches libfft.%s without passing `if %s.shape != self._inshape: raise`; "
                          "write_fft_input copies ntransform*fft_in_size elements from the array regardless of "
                          "its size" % ("|".join(s.callees), x), instance=inst)
    # the buffer handed to read_fft_output is allocated with the advertised output shape
    rd = [s for s in sites if "read_fft_output" in s.callees]
    if not rd:
        raise core.AnalysisError("FFTWrapper.call no longer calls read_fft_output")
    out_src = None
    for c, al in rd[0].pairs:
        if al and len(al) >= 2 and ".ctypes" in al[1][1]:
            out_src = al[1][1].split(".ctypes")[0]
    allocs = [n for n in pf.walk_no_nested(fn) if isinstance(n, ast.Assign) and len(n.targets) == 1
              and isinstance(n.targets[0], ast.Name) and n.targets[0].id == out_src]
    inst = "FFTWrapper.call: output buffer allocated with self._outshape"
    good = len(allocs) == 1 and isinstance(allocs[0].value, ast.Call) \
        and pf.call_name(allocs[0].value) in ("np.empty", "np.zeros") and allocs[0].value.args \
        and pf.src(allocs[0].value.args[0]) == "self._outshape"
    if good:
        chk.ok("shape-guard", inst)
    else:
        chk.violation("shape-guard", FP, "FFTWrapper.call", "out = np.empty(self._outshape, ...)", fn.lineno,
                      "the array passed to read_fft_output (`%s`) is not allocated in call() as "
                      "np.empty(self._outshape, ...): read_fft_output writes ntransform*fft_out_size elements"
                      % out_src, instance=inst)


# ----------------------------------------------------------------------------
# symbolic evaluation of the shape construction in FFTWrapper.__init__
# ----------------------------------------------------------------------------
class _Sym:
    """tiny evaluator over python lists of symbolic dimension strings"""

    def __init__(self, flags):
        self.env = {"dims": ["d0", "d1", "dL"], "ntransform": "nt"}
        self.env.update(flags)
        self.attrs = {}

    def ev(self, e):
        if isinstance(e, ast.Constant):
            return e.value
        if isinstance(e, ast.Name):
            if e.id not in self.env:
                raise core.AnalysisError("shape construction reads unknown name %s" % e.id)
            return self.env[e.id]
        if pf.is_self_attr(e):
            if e.attr not in self.attrs:
                raise core.AnalysisError("shape construction reads self.%s before it is set" % e.attr)
            return self.attrs[e.attr]
        if isinstance(e, ast.ListComp) and len(e.generators) == 1 and not e.generators[0].ifs \
                and isinstance(e.elt, ast.Name) and isinstance(e.generators[0].target, ast.Name) \
                and e.elt.id == e.generators[0].target.id:
            return list(self.ev(e.generators[0].iter))
        if isinstance(e, ast.List):
            return [self.ev(x) for x in e.elts]
        if isinstance(e, ast.Subscript):
            base = self.ev(e.value)
            if isinstance(e.slice, ast.Slice):
                lo = self.ev(e.slice.lower) if e.slice.lower else None
                hi = self.ev(e.slice.upper) if e.slice.upper else None
                return base[lo:hi]
            return base[self.ev(e.slice)]
        if isinstance(e, ast.UnaryOp) and isinstance(e.op, ast.USub):
            return -self.ev(e.operand)
        if isinstance(e, ast.BinOp):
            a, b = self.ev(e.left), self.ev(e.right)
            if isinstance(a, list) and isinstance(b, list) and isinstance(e.op, ast.Add):
                return a + b
            if isinstance(a, int) and isinstance(b, int):
                return {ast.Add: a + b, ast.Sub: a - b, ast.Mult: a * b}.get(type(e.op))
            op = {ast.Add: "+", ast.Sub: "-", ast.Mult: "*", ast.FloorDiv: "//", ast.Div: "/"}.get(type(e.op))
            if op is None:
                raise core.AnalysisError("operator in shape construction: %s" % pf.src(e))
            return "(%s%s%s)" % (a, op, b)
        if isinstance(e, ast.Call) and pf.call_name(e) in ("tuple", "list") and len(e.args) == 1:
            return list(self.ev(e.args[0]))
        raise core.AnalysisError("expression in shape construction not modelled: %s" % pf.src(e))

    def run(self, stmts):
        for st in stmts:
            if isinstance(st, ast.Assign) and len(st.targets) == 1:
                t = st.targets[0]
                if pf.is_self_attr(t) and t.attr in ("_inshape", "_outshape"):
                    self.attrs[t.attr] = self.ev(st.value)
                elif pf.is_self_attr(t):
                    try:
                        self.attrs[t.attr] = self.ev(st.value)
                    except core.AnalysisError:
                        self.attrs.pop(t.attr, None)
                elif isinstance(t, ast.Name):
                    try:
                        self.env[t.id] = self.ev(st.value)
                    except core.AnalysisError:
                        if t.id in ("rshape", "kshape"):
                            raise
                        self.env.pop(t.id, None)
            elif isinstance(st, ast.If):
                c = self.ev(st.test)
                if not isinstance(c, bool):
                    raise core.AnalysisError("shape construction branches on %s" % pf.src(st.test))
                self.run(st.body if c else st.orelse)
            elif isinstance(st, ast.Expr) and isinstance(st.value, ast.Call) and isinstance(st.value.func, ast.Attribute) \
                    and isinstance(st.value.func.value, ast.Name) and st.value.func.value.id in self.env \
                    and st.value.func.attr in ("insert", "append"):
                lst = self.env[st.value.func.value.id]
                args = [self.ev(a) for a in st.value.args]
                if st.value.func.attr == "insert":
                    lst.insert(args[0], args[1])
                else:
                    lst.append(args[0])
            if "_inshape" in self.attrs and "_outshape" in self.attrs:
                return


def expected_shapes(r2c, batch_first, fwd):
    real = ["d0", "d1", "dL"]
    recip = ["d0", "d1", "((dL//2)+1)"] if r2c else list(real)
    for s in (real, recip):
        if batch_first:
            s.insert(0, "nt")
        else:
            s.append("nt")
    return (real, recip) if fwd else (recip, real)


def c_size_table(tu):
    """{(r2c, fwd): (in_var, out_var)} from the branches of allocate_fftnd_plan + defining texts"""
    body = tu.body("allocate_fftnd_plan")
    if body is None:
        raise core.AnalysisError("allocate_fftnd_plan has no body")
    table = {}

    def cond_name(ifn):
        c = cfacts.strip(cfacts.kids(ifn)[0])
        if c.get("kind") == "DeclRefExpr":
            return c["referencedDecl"]["name"]
        return None

    def assigns(block, conds):
        for n in cfacts.kids(block):
            if n.get("kind") == "IfStmt":
                k = cfacts.kids(n)
                nm = cond_name(n)
                if nm in ("r2c", "fwd"):
                    assigns(k[1], dict(conds, **{nm: True}))
                    if len(k) > 2:
                        assigns(k[2], dict(conds, **{nm: False}))
                    continue
            if n.get("kind") == "BinaryOperator" and n.get("opcode") == "=":
                k = cfacts.kids(n)
                lhs = tu.text_of(k[0]).replace(" ", "")
                if lhs in ("plan->fft_in_size", "plan->fft_out_size"):
                    rhs = tu.text_of(cfacts.strip(k[1])).strip()
                    for fwd in ([conds["fwd"]] if "fwd" in conds else [True, False]):
                        key = (conds.get("r2c"), fwd)
                        ent = table.setdefault(key, {})
                        ent[lhs.split("->")[1]] = rhs
            if n.get("kind") in ("CompoundStmt",):
                assigns(n, conds)

    assigns(body, {})
    return table


def body_of(tu):
    b = tu.body("allocate_fftnd_plan")
    if b is None:
        raise core.AnalysisError("allocate_fftnd_plan has no body")
    return b


def rule_shape_table(chk, tree, mod):
    init = mod.func("FFTWrapper.__init__")
    pnames = [a.arg for a in init.args.args[1:]]
    for need in ("dims", "ntransform", "fwd", "r2c", "batch_first"):
        if need not in pnames:
            raise core.AnalysisError("FFTWrapper.__init__ lost its parameter %s" % need)
    got = {}
    for r2c, bf, fwd in itertools.product([True, False], repeat=3):
        sym = _Sym({"fwd": fwd, "r2c": r2c, "batch_first": bf, "inplace": False})
        sym.run(init.body)
        if "_inshape" not in sym.attrs or "_outshape" not in sym.attrs:
            raise core.AnalysisError("FFTWrapper.__init__ does not assign _inshape/_outshape")
        got[(r2c, bf, fwd)] = (sym.attrs["_inshape"], sym.attrs["_outshape"])
        want = expected_shapes(r2c, bf, fwd)
        inst = "FFTWrapper shapes for r2c=%s batch_first=%s fwd=%s" % (r2c, bf, fwd)
        if (list(got[(r2c, bf, fwd)][0]), list(got[(r2c, bf, fwd)][1])) == (want[0], want[1]):
            chk.ok("shape-table", inst)
        else:
            chk.violation("shape-table", FP, "FFTWrapper.__init__", "shapes r2c=%s batch_first=%s fwd=%s" % (r2c, bf, fwd),
                          init.lineno, "_inshape/_outshape = %s / %s, the decision table (real dims; last axis "
                          "dL//2+1 on the reciprocal side iff r2c; batch axis %s; in/out swapped iff not fwd) "
                          "gives %s / %s" % (got[(r2c, bf, fwd)][0], got[(r2c, bf, fwd)][1],
                                             "first" if bf else "last", want[0], want[1]), instance=inst)
    # C side: which of real/recip the plan calls input/output, and how the two sizes are defined
    tu = cfacts.TU(tree, CF)
    table = c_size_table(tu)
    want_c = {(True, True): ("real_dist", "recip_dist"), (True, False): ("recip_dist", "real_dist"),
              (False, True): ("dist", "dist"), (False, False): ("dist", "dist")}
    for key, (wi, wo) in sorted(want_c.items(), reverse=True):
        ent = table.get(key, {})
        inst = "allocate_fftnd_plan sizes for r2c=%s fwd=%s" % key
        if ent.get("fft_in_size") == wi and ent.get("fft_out_size") == wo:
            chk.ok("shape-table", inst)
        else:
            chk.violation("shape-table", CFULL, "allocate_fftnd_plan", "fft_in_size/fft_out_size r2c=%s fwd=%s" % key,
                          tu.line_of(tu.func("allocate_fftnd_plan")),
                          "the C plan uses in=%s out=%s where the Python shapes (and the frozen table) need in=%s "
                          "out=%s" % (ent.get("fft_in_size"), ent.get("fft_out_size"), wi, wo), instance=inst)
    fdecl = tu.func("allocate_fftnd_plan")
    fline = tu.line_of(fdecl)
    # size definitions, resolved through the AST (loop variable names / types do not matter)
    inits, loops = {}, {}
    for n in cfacts.walk(body_of(tu)):
        if n.get("kind") == "BinaryOperator" and n.get("opcode") == "=":
            k = cfacts.kids(n)
            lhs = re.sub(r"\s+", "", tu.text_of(k[0]))
            if lhs in ("recip_dist", "real_dist", "dist"):
                inits.setdefault(lhs, []).append(re.sub(r"\s+", "", tu.text_of(cfacts.strip(k[1]))))
        if n.get("kind") == "VarDecl" and n.get("name") in ("recip_dist", "real_dist", "dist") and cfacts.kids(n):
            inits.setdefault(n["name"], []).append(re.sub(r"\s+", "", tu.text_of(cfacts.strip(cfacts.kids(n)[0]))))
        if n.get("kind") == "ForStmt":
            k = [c for c in (n.get("inner") or []) if isinstance(c, dict)]
            var = None
            for x in cfacts.walk(n):
                if x.get("kind") == "VarDecl":
                    var = x.get("name")
                    break
            if var is None or len(k) < 5:
                continue
            cond = re.sub(r"\s+", "", tu.text_of(k[2])) if k[2].get("kind") else ""
            for x in cfacts.walk(k[-1]):
                if x.get("kind") == "CompoundAssignOperator" and x.get("opcode") == "*=":
                    kk = cfacts.kids(x)
                    acc = re.sub(r"\s+", "", tu.text_of(kk[0]))
                    rhs = re.sub(r"\s+", "", tu.text_of(cfacts.strip(kk[1])))
                    loops.setdefault(acc, []).append((re.sub(r"\b%s\b" % re.escape(var), "$", cond),
                                                      re.sub(r"\b%s\b" % re.escape(var), "$", rhs)))
    want_defs = [
        ("recip_dist", "init", "dims[ndim-1]/2+1", "reciprocal size starts from dims[ndim-1]/2+1 (only the last axis is halved)"),
        ("recip_dist", "loop", ("$<ndim-1", "dims[$]"), "reciprocal size multiplies the other ndim-1 axes unhalved"),
        ("real_dist", "loop", ("$<ndim", "dims[$]"), "out-of-place real size is the product of all dims"),
        ("dist", "loop", ("$<ndim", "dims[$]"), "complex size is the product of all dims"),
    ]
    for acc, kind, want, what in want_defs:
        inst = "allocate_fftnd_plan: " + what
        have = inits.get(acc, []) if kind == "init" else loops.get(acc, [])
        if not have:
            raise core.AnalysisError("allocate_fftnd_plan: no %s of `%s` found (the size computation was restructured)"
                                     % ("assignment" if kind == "init" else "product loop", acc))
        if want in have:
            chk.ok("shape-table", inst)
        else:
            chk.violation("shape-table", CFULL, "allocate_fftnd_plan", what, fline,
                          "`%s` is %s %s; the Python shape table needs %s: %s"
                          % (acc, "assigned" if kind == "init" else "accumulated by", have, want, what), instance=inst)
    # element types: python allocates float64 output iff (r2c and not fwd); C copies doubles on the same condition
    call = mod.func("FFTWrapper.call")
    dt = [n for n in pf.walk_no_nested(call) if isinstance(n, ast.Assign) and len(n.targets) == 1
          and isinstance(n.targets[0], ast.Name) and n.targets[0].id == "dtype"]
    inst = "output dtype float64 iff (r2c and not fwd), matching read_fft_output"
    ok_py = len(dt) == 1 and isinstance(dt[0].value, ast.IfExp) \
        and pf.src(dt[0].value.test).replace("(", "").replace(")", "") == "self._r2c and not self._fwd" \
        and pf.src(dt[0].value.body).endswith("float64") and pf.src(dt[0].value.orelse).endswith("complex128")
    rd = re.sub(r"\s+", "", tu.text_of(tu.func("read_fft_output")))
    wr = re.sub(r"\s+", "", tu.text_of(tu.func("write_fft_input")))
    ok_c = "if(plan->r2c&&(!plan->fwd)){double*src" in rd and "if(plan->r2c&&plan->fwd){double*src" in wr
    if ok_py and ok_c:
        chk.ok("shape-table", inst)
    else:
        chk.violation("shape-table", FP if not ok_py else CFULL, "FFTWrapper.call" if not ok_py else "read_fft_output",
                      "dtype of the output buffer", call.lineno,
                      "python side %s; C side %s: the output buffer must hold doubles exactly when read_fft_output "
                      "copies doubles (r2c backward), complex otherwise"
                      % ("ok" if ok_py else "changed: " + (pf.src(dt[0].value) if dt else "no dtype assignment"),
                         "ok" if ok_c else "condition of the real branch changed"), instance=inst)


def _norm(t):
    return re.sub(r"\s+", "", t)


def _var_inits(tu, fname, names):
    out = {}
    for n in cfacts.walk(tu.body(fname)):
        if n.get("kind") == "VarDecl" and n.get("name") in names and cfacts.kids(n):
            out.setdefault(n["name"], []).append(_norm(tu.text_of(cfacts.strip(cfacts.kids(n)[0]))))
    return out


def _assign_texts(tu, node):
    out = []
    for n in cfacts.walk(node):
        if n.get("kind") == "BinaryOperator" and n.get("opcode") == "=":
            k = cfacts.kids(n)
            out.append((_norm(tu.text_of(k[0])), _norm(tu.text_of(cfacts.strip(k[1])))))
    return out


def rule_layout(chk, tree):
    """frozen layout table of the C plan: batch stride/dist selection, and the padded in-place real rows that
    write_fft_input and read_fft_output must agree on (2 * reciprocal last-axis length doubles per row)"""
    tu = cfacts.TU(tree, CF)
    fline = tu.line_of(tu.func("allocate_fftnd_plan"))
    got = {}
    for n in cfacts.walk(body_of(tu)):
        if n.get("kind") == "IfStmt":
            k = cfacts.kids(n)
            c = cfacts.strip(k[0])
            if c.get("kind") == "DeclRefExpr" and c["referencedDecl"]["name"] == "batch_first" and len(k) > 2:
                got[True] = dict(_assign_texts(tu, k[1]))
                got[False] = dict(_assign_texts(tu, k[2]))
    if not got:
        raise core.AnalysisError("allocate_fftnd_plan: no `if (batch_first) ... else ...` selecting stride/idist/odist")
    want = {True: {"stride": "1", "idist": "plan->fft_in_size", "odist": "plan->fft_out_size"},
            False: {"stride": "ntransform", "idist": "1", "odist": "1"}}
    for bf in (True, False):
        for var, w in sorted(want[bf].items()):
            inst = "allocate_fftnd_plan: %s for batch_first=%s" % (var, bf)
            h = got[bf].get(var)
            if h == w:
                chk.ok("layout", inst)
            else:
                chk.violation("layout", CFULL, "allocate_fftnd_plan", "%s (batch_first=%s)" % (var, bf), fline,
                              "%s = %s; with the batch index %s, consecutive transforms are %s apart and elements "
                              "%s apart, i.e. %s = %s" % (var, h, "first" if bf else "last",
                                                         "fft_in_size/fft_out_size" if bf else "1",
                                                         "1" if bf else "ntransform", var, w), instance=inst)
    # padded rows
    names = ("nt", "dm1", "last_dim", "last_dim1", "blksize")
    wi, ri = _var_inits(tu, "write_fft_input", names), _var_inits(tu, "read_fft_output", names)
    recip = None
    for n in cfacts.walk(body_of(tu)):
        if n.get("kind") == "BinaryOperator" and n.get("opcode") == "=" and _norm(tu.text_of(cfacts.kids(n)[0])) == "recip_dist":
            recip = _norm(tu.text_of(cfacts.strip(cfacts.kids(n)[1])))
            break
    if recip is None or not all(nm in wi and nm in ri for nm in names):
        raise core.AnalysisError("write_fft_input/read_fft_output no longer declare %s (padded in-place layout was "
                                 "restructured)" % ", ".join(names))
    for nm in names:
        inst = "write_fft_input / read_fft_output agree on `%s`" % nm
        if wi[nm] == ri[nm]:
            chk.ok("layout", inst)
        else:
            chk.violation("layout", CFULL, "read_fft_output", "padded-row variable %s" % nm,
                          tu.line_of(tu.func("read_fft_output")),
                          "write_fft_input computes %s = %s but read_fft_output computes %s = %s: the two copies "
                          "address different rows of the same in-place buffer" % (nm, wi[nm], nm, ri[nm]), instance=inst)
    want_pad = "2*(%s)*nt" % recip.replace("dims[ndim-1]", "dm1")
    for fname, inits in (("write_fft_input", wi), ("read_fft_output", ri)):
        inst = "%s: padded row length is 2 x reciprocal last axis" % fname
        if inits["last_dim1"] == [want_pad] and inits["dm1"] == ["plan->dims[plan->ndim-1]"]:
            chk.ok("layout", inst)
        else:
            chk.violation("layout", CFULL, fname, "last_dim1", tu.line_of(tu.func(fname)),
                          "last_dim1 = %s with dm1 = %s; the in-place real buffer has 2*(%s) doubles per row "
                          "(allocate_fftnd_plan: real_dist = recip_dist * 2), i.e. %s"
                          % (inits["last_dim1"], inits["dm1"], recip, want_pad), instance=inst)
    # the copy statements mirror each other
    def copies(fname):
        return [(l, r) for l, r in _assign_texts(tu, tu.body(fname)) if l.startswith("dst[") and "last_dim" in l + r]
    wc, rc = copies("write_fft_input"), copies("read_fft_output")
    inst = "padded copies mirror each other (write: padded <- dense, read: dense <- padded)"
    if wc == [("dst[i*last_dim1+j]", "src[i*last_dim+j]")] and rc == [("dst[i*last_dim+j]", "src[i*last_dim1+j]")]:
        chk.ok("layout", inst)
    elif not wc or not rc:
        raise core.AnalysisError("padded copy statements not found in write_fft_input/read_fft_output")
    else:
        chk.violation("layout", CFULL, "write_fft_input", "padded copy statements", tu.line_of(tu.func("write_fft_input")),
                      "write copies %s, read copies %s; expected dst[i*last_dim1+j] = src[i*last_dim+j] and its mirror"
                      % (wc, rc), instance=inst)


# ----------------------------------------------------------------------------
def _analyse_own(chk):
    tree = chk.tree
    chk.rule("shape-guard", "the input-shape test dominates every libfft call of FFTWrapper.call; output uses _outshape")
    chk.rule("ffi", "libfft call sites conform to cider_fft.c prototypes; restype for pointer returns")
    chk.rule("shape-table", "shape construction equals the frozen decision table and the C size branches")
    mod = pf.Module(tree, FP)
    box = {}

    def _ffi(c):
        eng = ffi.Engine(tree, [FP], cside=ffi.CSide(tree, [CF]))
        box["eng"] = eng
        cnt = ffi.report(c, eng, "ffi", eng.sites)
        for k, v in cnt.items():
            c.count("ffi " + k, v)
        if cnt["unresolved"] or cnt["unknown_args"]:
            raise core.AnalysisError("libfft call sites with unresolved callee/arguments: %s" % cnt)
        # restype coverage: every pointer-returning function that fft_plan.py calls and uses
        used = {}
        for s in eng.sites:
            for name in s.callees:
                used.setdefault(name, []).append(s)
        n_ptr = 0
        for name, ss in sorted(used.items()):
            p = eng.c.lookup(name, "libfft_wrapper")
            if p is not None and eng.c.kind(p.ret) == "ptr" and any(s.result_used for s in ss):
                n_ptr += 1
        c.count("pointer-returning libfft functions whose result is used", n_ptr)
        if n_ptr < 2:
            raise core.AnalysisError("expected >= 2 pointer-returning libfft functions in use (allocate/malloc), found %d"
                                     % n_ptr)

    chk.guard(_ffi)
    if "eng" in box:
        chk.guard(rule_shape_guard, box["eng"], mod)
    chk.guard(rule_shape_table, tree, mod)
    chk.rule("layout", "frozen C layout table: batch stride/dist selection; write/read agree on the padded in-place rows")
    chk.guard(rule_layout, tree)
    chk.floor("layout", 14, "6 stride/dist rows + 5 shared variables + 2 pad lengths + copy mirror")
    chk.floor("ffi", 10, "10 libfft call sites in fft_plan.py")
    chk.floor("shape-guard", 5, "3 native calls + output allocation + parameter not re-bound")
    chk.floor("shape-table", 17, "8 flag combinations + 4 C branch rows + 4 size definitions + dtype")
    chk.assumptions += ["x86-64 System V calling convention", "dims has at least one axis; symbolic 3-axis dims stand "
                        "for any rank (the construction never indexes an axis other than the last)"]
    chk.not_decided += ["that the transform computed is the DFT",
                        "padded in-place real layout arithmetic beyond write/read agreement and the row length",
                        "input dtype / contiguity (call() does not test them)", "MPI plan (mpi_fft_plan.py)"]


def analyse(chk):
    _analyse_own(chk)
    chk.guard(lambda c_: core.include_findings(c_, 'C10', files=['ciderpress/lib/fft_wrapper/cider_fft.c'], rules=None,
                                               why='a data race in the plan execution / copy loops corrupts the transform'))


def mutants(tree):
    return [
        Mutant("remove the shape test", FP,
               '        if x.shape != self._inshape:\n            raise ValueError(f"Expected input of shape {self._inshape}, got {x.shape}")\n',
               "", expect="shape-guard"),
        Mutant("shape test compares with the output shape", FP, "if x.shape != self._inshape:", "if x.shape != self._outshape:",
               expect="shape-guard"),
        Mutant("shape test moved after write_fft_input", FP,
               '        if x.shape != self._inshape:\n            raise ValueError(f"Expected input of shape {self._inshape}, got {x.shape}")\n'
               "        dtype = np.float64 if (self._r2c and not self._fwd) else np.complex128\n"
               "        out = np.empty(self._outshape, dtype=dtype)\n"
               "        libfft.write_fft_input(self._ptr, x.ctypes.data_as(ctypes.c_void_p))\n",
               "        dtype = np.float64 if (self._r2c and not self._fwd) else np.complex128\n"
               "        out = np.empty(self._outshape, dtype=dtype)\n"
               "        libfft.write_fft_input(self._ptr, x.ctypes.data_as(ctypes.c_void_p))\n"
               '        if x.shape != self._inshape:\n            raise ValueError(f"Expected input of shape {self._inshape}, got {x.shape}")\n',
               expect="shape-guard"),
        Mutant("output allocated with the input shape", FP, "out = np.empty(self._outshape, dtype=dtype)",
               "out = np.empty(self._inshape, dtype=dtype)", expect="shape-guard"),
        Mutant("reorder allocate_fftnd_plan arguments (dims pointer <-> ndim)", FP,
               "                ctypes.c_int(len(dims)),\n                dims.ctypes.data_as(ctypes.c_void_p),",
               "                dims.ctypes.data_as(ctypes.c_void_p),\n                ctypes.c_int(len(dims)),", expect="ffi"),
        Mutant("drop an allocate_fftnd_plan argument", FP, "                ctypes.c_int(1 if batch_first else 0),\n", "",
               expect="ffi"),
        Mutant("delete restype of allocate_fftnd_plan", FP, "libfft.allocate_fftnd_plan.restype = ctypes.c_void_p\n", "",
               expect="ffi"),
        Mutant("restype of malloc_fft_plan_out_array becomes c_int", FP,
               "libfft.malloc_fft_plan_out_array.restype = ctypes.c_void_p", "libfft.malloc_fft_plan_out_array.restype = ctypes.c_int",
               expect="ffi"),
        Mutant("r2c halves the first axis", FP, "kshape = [d for d in dims[:-1]] + [dims[-1] // 2 + 1]",
               "kshape = [dims[0] // 2 + 1] + [d for d in dims[1:]]", expect="shape-table"),
        Mutant("r2c size without the +1", FP, "[dims[-1] // 2 + 1]", "[dims[-1] // 2]", expect="shape-table"),
        Mutant("batch axis appended although batch_first", FP, "            rshape.insert(0, self._ntransform)\n",
               "            rshape.append(self._ntransform)\n", expect="shape-table"),
        Mutant("backward plan does not swap in/out", FP,
               "            self._inshape = tuple(kshape)\n            self._outshape = tuple(rshape)",
               "            self._inshape = tuple(rshape)\n            self._outshape = tuple(kshape)", expect="shape-table"),
        Mutant("C: forward r2c plan swaps its sizes", CFULL,
               "            plan->fft_in_size = real_dist;\n            plan->fft_out_size = recip_dist;",
               "            plan->fft_in_size = recip_dist;\n            plan->fft_out_size = real_dist;", expect="shape-table"),
        Mutant("C: reciprocal size halves nothing", CFULL, "recip_dist = dims[ndim - 1] / 2 + 1;", "recip_dist = dims[ndim - 1];",
               expect="shape-table"),
        Mutant("output dtype real for every r2c plan", FP, "np.float64 if (self._r2c and not self._fwd) else",
               "np.float64 if self._r2c else", expect="shape-table"),
        Mutant("input reshaped before the shape test", FP, "    def call(self, x):\n",
               "    def call(self, x):\n        x = x.reshape(self._inshape)\n", expect="shape-guard"),
        Mutant("C: read_fft_output uses another padded row length", CFULL,
               "            const size_t last_dim1 = 2 * (dm1 / 2 + 1) * nt;", "            const size_t last_dim1 = (dm1 + 2) * nt;",
               count=2, expect="layout"),
        Mutant("C: both copies use dm1 + 2", CFULL, "const size_t last_dim1 = 2 * (dm1 / 2 + 1) * nt;",
               "const size_t last_dim1 = (dm1 + 2) * nt;", count=1, expect="layout"),
        Mutant("C: odist follows idist for in-place plans", CFULL, "        odist = plan->fft_out_size;",
               "        odist = inplace ? idist : plan->fft_out_size;", expect="layout"),
        Mutant("C: batch-last stride is 1", CFULL, "        stride = ntransform;", "        stride = 1;", expect="layout"),
        Mutant("C: prototype of write_fft_input gains a size argument", CFULL,
               "void write_fft_input(fft_plan_t *plan, void *input) {", "void write_fft_input(fft_plan_t *plan, size_t n, void *input) {",
               expect="ffi"),
    ]


if __name__ == "__main__":
    sys.exit(core.main(PROP, analyse, mutants, __doc__))
