import cider_build
import numpy as np, sys
from pyscf import gto, dft
from ciderpress.pyscf.gen_cider_grid import CiderGrids
from ciderpress.dft.settings import *
from toy import make_ni

vj_specs = ["se", "se_ar2", "se_a2r4", "se_erf_rinv"]
theta_params = [1.0, 0.0, 0.03125]
feat_params = [[2.0, 0.0, 0.04] for i in range(4)]
feat_params[-1].append(2.0)
vij = NLDFSettingsVIJ("MGGA", theta_params, "one", ["se_ap"], ["se_grad", "se_rvec"], [(0, 0), (1, -1)], vj_specs, feat_params)
vk = NLDFSettingsVK("MGGA", theta_params, "one", [[1.0, 0.0, 0.02], [2.0, 0.0, 0.04]], "exponential")
sd = SDMXG1Settings([0,1,2], 2, 2)
fl = FracLaplSettings([-1.0, -0.5, 0.5], 2, 2, [(0,1), (-1, 0), (1,1)], nd1=1, ld_dots=[(0,0),(-1,0)], ndd=1) if False else None
sl = SemilocalSettings("nst")

mol = gto.M(atom="O 0 0 0; H 0.15 0.85 0.45; F -0.75 -0.35 0.95", basis="def2-svp", verbose=0, spin=0)
molu = gto.M(atom="O 0 0 0; H 0.15 0.85 0.45; F -0.75 -0.35 0.95", basis="def2-svp", verbose=0, spin=2)
rng = np.random.default_rng(5)

def fdtest(ni, mol, grids, dm, label, uks=False):
    fn = ni.nr_uks if uks else ni.nr_rks
    n, e, v = fn(mol, grids, "", dm)
    P = rng.normal(size=dm.shape) * 1e-2; P = P + P.swapaxes(-1, -2)
    d = 1e-4
    ep = fn(mol, grids, "", dm + d * P)[1]
    em = fn(mol, grids, "", dm - d * P)[1]
    fd = (ep - em) / (2 * d)
    an = np.sum(v * P)
    print(label, "E=%.10f" % e, "fd=%.10e an=%.10e rel=%.2e" % (fd, an, abs(fd - an) / abs(fd)), flush=True)

for which in sys.argv[1:]:
    if which == "rks":
        grids = CiderGrids(mol, lmax=6); grids.level = 0; grids.build(with_non0tab=True)
        dm = dft.RKS(mol).get_init_guess(key="minao")
        for nm, nl in [("vij", vij), ("vk", vk)]:
            ni = make_ni(sl=sl, nldf=nl, sdmx=sd)
            fdtest(ni, mol, grids, dm, "RKS sl+%s+sdmx" % nm)
    if which == "uks":
        grids = CiderGrids(molu, lmax=6); grids.level = 0; grids.build(with_non0tab=True)
        dm = np.array(dft.UKS(molu).get_init_guess(key="minao"))
        dm[0] *= 1.1; dm[1] *= 0.9
        for nm, nl in [("vij", vij), ("vk", vk)]:
            ni = make_ni(sl=sl, nldf=nl, sdmx=sd)
            fdtest(ni, molu, grids, dm, "UKS sl+%s+sdmx" % nm, uks=True)
