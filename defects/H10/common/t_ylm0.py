import sys, os, ctypes
sys.path.insert(0, os.path.dirname(__file__))
import cider_env; lib = cider_env.install()
import numpy as np
n=5
r = np.ascontiguousarray(np.random.default_rng(0).normal(size=(n,3))); r/=np.linalg.norm(r,axis=1)[:,None]
big = np.full(n+6, 7.0); res = big[:n]
lib.recursive_sph_harm_vec(ctypes.c_int(1), ctypes.c_int(n), r.ctypes.data_as(ctypes.c_void_p), res.ctypes.data_as(ctypes.c_void_p))
print(big)
