"""
Demo: ConvolutionCollectionK.multiply_atc_integrals allocates its default output
with the number of orbitals of the *input* basis instead of the *output* basis:

        if output is None:
            output = np.zeros((atco_inp.nao, self.nalpha))     # <- atco_out.nao
        ...
        assert output.shape == (atco_out.nao, self.nalpha)

so the documented call  ccl.multiply_atc_integrals(x)  /  (..., fwd=False)
("output ... If None, output is initialized within the function and then
returned") raises AssertionError for version-k collections whenever the two
bases differ in size (they always do for the bases built by
PyscfNLDFGenerator.from_mol_and_settings); the version-i/j parent class handles
the same call correctly.  With an explicitly allocated output the forward /
backward pair is an exact adjoint pair, which is what the default call should
reproduce.

Run:  PYTHONPATH=/tmp/hunt/H5 /venv/bin/python demo.py
"""
import sys

import cider_build  # noqa: F401
import numpy as np

from ciderpress.dft.lcao_convolutions import (
    ATCBasis,
    ConvolutionCollection,
    ConvolutionCollectionK,
    get_convolution_expnts_from_expnts,
    get_etb_from_expnt_range,
    get_gamma_lists_from_etb_list,
)

lmax = 3
nalpha = 8
alphas = 0.01 * 1.8 ** np.arange(nalpha)
alpha_norms = (np.pi / (2 * alphas)) ** -0.75
etb = get_etb_from_expnt_range(
    lmax, 1.8, [0.2, 0.3, 0.4, 0.5], [40.0, 20.0, 10.0, 5.0], 4.0, 0.5
)
dat = get_gamma_lists_from_etb_list([etb, etb])
atco_inp = ATCBasis(*dat)
dat2 = get_convolution_expnts_from_expnts(alphas, dat[0], dat[1], dat[2], dat[4], gbuf=2.0)
atco_out = ATCBasis(*dat2)
print("nao(atco_inp) = %d, nao(atco_out) = %d" % (atco_inp.nao, atco_out.nao))

rng = np.random.default_rng(0)
failed = False
for name, ccl in [
    ("ConvolutionCollection (vi/vj)", ConvolutionCollection(atco_inp, atco_out, alphas, alpha_norms, has_vj=True)),
    ("ConvolutionCollectionK (vk)", ConvolutionCollectionK(atco_inp, atco_out, alphas, alpha_norms)),
]:
    ccl.compute_integrals_()
    ccl.solve_projection_coefficients()
    x = rng.normal(size=(atco_inp.nao, ccl.nalpha))
    y = rng.normal(size=(atco_out.nao, ccl.num_out))
    # explicit outputs: reference
    Ax = ccl.multiply_atc_integrals(x, output=np.zeros((atco_out.nao, ccl.num_out)), fwd=True)
    By = ccl.multiply_atc_integrals(y, output=np.zeros((atco_inp.nao, ccl.nalpha)), fwd=False)
    print(name)
    print("   explicit output : <Ax,y> = % .12e   <x,By> = % .12e" % (np.sum(Ax * y), np.sum(x * By)))
    try:
        Ax2 = ccl.multiply_atc_integrals(x, fwd=True)
        By2 = ccl.multiply_atc_integrals(y, fwd=False)
        ok = np.allclose(Ax2, Ax, rtol=0, atol=1e-13 * np.abs(Ax).max()) and np.allclose(
            By2, By, rtol=0, atol=1e-13 * np.abs(By).max()
        )
        print("   default output  : <Ax,y> = % .12e   <x,By> = % .12e  %s" % (np.sum(Ax2 * y), np.sum(x * By2), "" if ok else "--> differs"))
        failed = failed or not ok
    except AssertionError as e:
        print("   default output  : AssertionError raised (expected: same result as with explicit output)")
        failed = True

if failed:
    print("FAIL")
    sys.exit(1)
print("OK")
