"""One-level (bounded depth) AST inlining of private helper calls, so that rules that
read the body of an anchored function keep seeing the same statements after an
"extract method" refactoring.

    inline_helpers(fn, resolve, depth=2) -> FunctionDef (deep copy, `_parent` links set)

resolve(call) -> (callee FunctionDef, args list without the receiver) | None.

Inlined forms
  * statement call      helper(a, b)              -> callee body (trailing `return [None]` dropped)
  * assignment          t = helper(a, b)          -> callee body with every tail `return e` turned into `t = e`
  * `return helper(..)`                            -> callee body (tail returns kept)
  * call inside an expression, callee body == `return e`  -> e
A callee is left alone when it yields, has a non-tail return, has *args/**kwargs, or
receives arguments that cannot be bound.  Parameters are substituted by the argument
expression when that is safe (simple argument, parameter never re-bound in the
callee); otherwise a prologue assignment `_hK_param = arg` is emitted.  Locals of
the callee are renamed `_hK_name`.  Statements keep the line number of the call
site; nothing here evaluates code.
"""
import ast
from sa.pyfacts import clone as _ast_clone  # noqa: E402
import copy

_counter = [0]


def _simple(e):
    if isinstance(e, (ast.Name, ast.Constant)):
        return True
    if isinstance(e, ast.Attribute):
        return _simple(e.value)
    if isinstance(e, ast.Subscript):
        return _simple(e.value) and isinstance(e.slice, (ast.Name, ast.Constant, ast.Attribute))
    if isinstance(e, ast.UnaryOp) and isinstance(e.operand, ast.Constant):
        return True
    return False


def _stored_names(fn):
    out = set()
    for n in ast.walk(fn):
        if isinstance(n, ast.Name) and isinstance(n.ctx, (ast.Store, ast.Del)):
            out.add(n.id)
        elif isinstance(n, ast.arg):
            pass
    return out


def _has(fn, kinds):
    for st in fn.body:
        for n in ast.walk(st):
            if isinstance(n, kinds):
                return True
    return False


def _tail_ok(stmts, top=True):
    """every Return is in tail position of the statement list (recursively through if/else)"""
    for i, st in enumerate(stmts):
        last = i == len(stmts) - 1
        if isinstance(st, ast.Return):
            if not last:
                return False
        elif isinstance(st, ast.If) and last:
            if not _tail_ok(st.body, False) or not _tail_ok(st.orelse, False):
                return False
        else:
            for n in ast.walk(st):
                if isinstance(n, ast.Return):
                    return False
                if isinstance(n, (ast.FunctionDef, ast.Lambda, ast.AsyncFunctionDef)) and n is not st:
                    pass
    return True


def _always_returns(stmts):
    if not stmts:
        return False
    last = stmts[-1]
    if isinstance(last, (ast.Return, ast.Raise)):
        return True
    if isinstance(last, ast.If) and last.orelse:
        return _always_returns(last.body) and _always_returns(last.orelse)
    return False


class _Subst(ast.NodeTransformer):
    def __init__(self, names, exprs):
        self.names = names  # old -> new name
        self.exprs = exprs  # name -> expression (Load contexts only)

    def visit_Name(self, node):
        if node.id in self.exprs and isinstance(node.ctx, ast.Load):
            return _ast_clone(self.exprs[node.id])
        if node.id in self.names:
            return ast.copy_location(ast.Name(id=self.names[node.id], ctx=node.ctx), node)
        return node

    def visit_FunctionDef(self, node):
        return node

    def visit_Lambda(self, node):
        return node


def _bind(callee, args, keywords):
    """-> {param: arg expr}  (defaults filled in) or None"""
    a = callee.args
    if a.vararg or a.kwarg or a.kwonlyargs or getattr(a, "posonlyargs", []):
        return None
    params = [p.arg for p in a.args]
    if params and params[0] in ("self", "cls"):
        params = params[1:]
    if len(args) > len(params) or any(isinstance(x, ast.Starred) for x in args):
        return None
    out = {}
    for p, x in zip(params, args):
        out[p] = x
    for kw in keywords:
        if kw.arg is None or kw.arg not in params or kw.arg in out:
            return None
        out[kw.arg] = kw.value
    ndef = len(a.defaults)
    for i, p in enumerate(params):
        if p not in out:
            j = i - (len(params) - ndef)
            if j < 0:
                return None
            out[p] = a.defaults[j]
    return out


def _instantiate(callee, binding):
    """-> (prologue stmts, body stmts) with fresh names"""
    _counter[0] += 1
    tag = "_h%d_" % _counter[0]
    stored = _stored_names(callee)
    names, exprs, prologue = {}, {}, []
    for p, x in binding.items():
        if p not in stored and _simple(x):
            exprs[p] = x
        else:
            names[p] = tag + p
            prologue.append(ast.Assign(targets=[ast.Name(id=tag + p, ctx=ast.Store())], value=_ast_clone(x)))
    for n in stored:
        if n not in binding:
            names[n] = tag + n
    sub = _Subst(names, exprs)
    body = []
    for st in callee.body:
        if isinstance(st, ast.Expr) and isinstance(st.value, ast.Constant) and isinstance(st.value.value, str):
            continue  # docstring
        body.append(sub.visit(_ast_clone(st)))
    return prologue, body


def _returns_to(stmts, make):
    """replace tail `return e` by make(e) (a list of statements)"""
    out = []
    for st in stmts:
        if isinstance(st, ast.Return):
            out += make(st.value)
        elif isinstance(st, ast.If):
            st.body = _returns_to(st.body, make)
            st.orelse = _returns_to(st.orelse, make)
            out.append(st)
        else:
            out.append(st)
    return out


def _relocate(stmts, at):
    for st in stmts:
        for n in ast.walk(st):
            if hasattr(n, "lineno") or isinstance(n, (ast.stmt, ast.expr)):
                n.lineno = getattr(at, "lineno", 1)
                n.col_offset = getattr(at, "col_offset", 0)
                n.end_lineno = getattr(at, "end_lineno", n.lineno)
                n.end_col_offset = getattr(at, "end_col_offset", 0)
    return stmts


def _inlinable(callee):
    if _has(callee, (ast.Yield, ast.YieldFrom, ast.Global, ast.Nonlocal)):
        return False
    return _tail_ok(callee.body)


def _single_return_expr(callee):
    body = [st for st in callee.body
            if not (isinstance(st, ast.Expr) and isinstance(st.value, ast.Constant) and isinstance(st.value.value, str))]
    if len(body) == 1 and isinstance(body[0], ast.Return) and body[0].value is not None:
        return body[0].value
    return None


def _inline_block(stmts, resolve, depth, stack):
    out = []
    for st in stmts:
        # recurse into compound statements first
        for fld in ("body", "orelse", "finalbody"):
            blk = getattr(st, fld, None)
            if isinstance(blk, list) and blk and isinstance(blk[0], ast.stmt):
                setattr(st, fld, _inline_block(blk, resolve, depth, stack))
        for h in getattr(st, "handlers", []) or []:
            h.body = _inline_block(h.body, resolve, depth, stack)
        # multi-statement helpers called inside an expression of a simple statement are hoisted:
        #   y = f(self._h(x))   ->   _hoistK = self._h(x); y = f(_hoistK)     (then inlined as an assignment)
        if depth > 0 and isinstance(st, (ast.Assign, ast.AugAssign, ast.Expr, ast.Return, ast.AnnAssign)):
            top = st.value if isinstance(getattr(st, "value", None), ast.Call) and not isinstance(st, ast.AugAssign) else None
            hoisted = []

            class _Hoist(ast.NodeTransformer):
                def visit_Call(self, node):
                    self.generic_visit(node)
                    if node is top:
                        return node
                    r = resolve(node)
                    if r is None or any(r[0] is c for c in stack) or not _inlinable(r[0]) \
                            or _single_return_expr(r[0]) is not None or not _always_returns(r[0].body) \
                            or _bind(r[0], r[1], node.keywords) is None:
                        return node
                    _counter[0] += 1
                    nm = "_hoist%d" % _counter[0]
                    hoisted.append(ast.Assign(targets=[ast.Name(id=nm, ctx=ast.Store())], value=node))
                    return ast.copy_location(ast.Name(id=nm, ctx=ast.Load()), node)

                def visit_Lambda(self, node):
                    return node

            if isinstance(getattr(st, "value", None), ast.expr):
                st.value = _Hoist().visit(st.value)
            if hoisted:
                _relocate(hoisted, st)
                for h in hoisted:
                    ast.fix_missing_locations(h)
                out += _inline_block(hoisted, resolve, depth, stack)
        call, mode = None, None
        if isinstance(st, ast.Expr) and isinstance(st.value, ast.Call):
            call, mode = st.value, "stmt"
        elif isinstance(st, ast.Assign) and isinstance(st.value, ast.Call):
            call, mode = st.value, "assign"
        elif isinstance(st, ast.Return) and isinstance(st.value, ast.Call):
            call, mode = st.value, "return"
        done = False
        if call is not None and depth > 0:
            r = resolve(call)
            if r is not None:
                callee, args = r
                if not any(callee is c for c in stack) and _inlinable(callee):
                    binding = _bind(callee, args, call.keywords)
                    if binding is not None and (mode != "assign" or _always_returns(callee.body)):
                        pro, body = _instantiate(callee, binding)
                        if mode == "stmt":
                            body = _returns_to(body, lambda e: [] if e is None or (
                                isinstance(e, ast.Constant) and e.value is None) else [ast.Expr(value=e)])
                        elif mode == "assign":
                            tg = st.targets
                            body = _returns_to(body, lambda e: [ast.Assign(
                                targets=_ast_clone(tg), value=e if e is not None else ast.Constant(value=None))])
                        new = _relocate(pro + body, st)
                        for s2 in new:
                            ast.fix_missing_locations(s2)
                        out += _inline_block(new, resolve, depth - 1, stack + [callee])
                        done = True
        if not done:
            out.append(_inline_exprs(st, resolve, depth, stack))
    return out


class _ExprInliner(ast.NodeTransformer):
    def __init__(self, resolve, depth, stack):
        self.resolve, self.depth, self.stack = resolve, depth, stack

    def visit_Call(self, node):
        self.generic_visit(node)
        if self.depth <= 0:
            return node
        r = self.resolve(node)
        if r is None:
            return node
        callee, args = r
        if any(callee is c for c in self.stack):
            return node
        e = _single_return_expr(callee)
        if e is None or _has(callee, (ast.Yield, ast.YieldFrom)):
            return node
        binding = _bind(callee, args, node.keywords)
        if binding is None or not all(_simple(x) for x in binding.values()):
            return node
        new = _Subst({}, binding).visit(_ast_clone(e))
        _relocate([ast.Expr(value=new)], node)
        return _ExprInliner(self.resolve, self.depth - 1, self.stack + [callee]).visit(new)

    def visit_FunctionDef(self, node):
        return node

    def visit_Lambda(self, node):
        return node


def _inline_exprs(st, resolve, depth, stack):
    if isinstance(st, (ast.FunctionDef, ast.AsyncFunctionDef, ast.ClassDef)):
        return st
    tr = _ExprInliner(resolve, depth, stack)
    for fld, val in ast.iter_fields(st):
        if isinstance(val, ast.expr):
            setattr(st, fld, tr.visit(val))
        elif isinstance(val, list):
            setattr(st, fld, [tr.visit(v) if isinstance(v, ast.expr) else v for v in val])
    return st


def inline_helpers(fn, resolve, depth=2):
    _counter[0] = 0  # fresh names are deterministic per anchored function
    new = _ast_clone(fn)
    for n in ast.walk(new):
        n.__dict__.pop("_parent", None)
    new.body = _inline_block(new.body, resolve, depth, [fn])
    ast.fix_missing_locations(new)
    for node in ast.walk(new):
        for ch in ast.iter_child_nodes(node):
            ch._parent = node
    new._parent = getattr(fn, "_parent", None)
    new._inlined = True
    return new


def class_resolver(prog, mod, cls, private_only=True, exclude=()):
    """resolve self.m(..), Cls.m(self, ..) and same-module functions; private helpers only"""
    def ok(name):
        if name in exclude:
            return False
        if private_only:
            return name.startswith("_") and not name.startswith("__")
        return True

    def resolve(call):
        f = call.func
        if isinstance(f, ast.Attribute) and isinstance(f.value, ast.Name):
            if f.value.id in ("self", "cls") and cls is not None and ok(f.attr):
                r = prog.find_method(mod, cls, f.attr)
                if r is not None and not any(ast.unparse(d) in ("property", "abstractmethod") for d in r[2].decorator_list):
                    static = any(ast.unparse(d) == "staticmethod" for d in r[2].decorator_list)
                    return r[2], list(call.args) if not static else list(call.args)
            elif f.value.id in mod.classes and call.args and isinstance(call.args[0], ast.Name) \
                    and call.args[0].id == "self" and ok(f.attr):
                r = prog.find_method(mod, mod.classes[f.value.id], f.attr)
                if r is not None:
                    return r[2], list(call.args[1:])
        elif isinstance(f, ast.Name) and f.id in mod.functions and ok(f.id):
            return mod.functions[f.id], list(call.args)
        return None

    return resolve
