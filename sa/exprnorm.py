"""Polynomial normal form of small arithmetic expressions, for comparing the
*same* factor written twice (C11: get_k0_for_mapping vs _get_k0_dk0_eval).

    sum_k c_k * prod_a a ** e_(k,a)       c_k, e rational

Atoms: names given by the caller's symbol map, opaque function applications
f(<normal form>), and sums raised to a power that is not a small natural
number (content factored out for integer powers).  Products and small natural
powers of sums are expanded, so two expressions equal by the ring axioms get
the same normal form; the converse (different normal form => different
function) holds for the polynomial/Laurent fragment and for opaque atoms with
equal inner normal forms, which is what the compared routines are written in.
Anything else raises NotComparable and is reported as `not comparable`, never
as a violation.  Not a CAS: no differentiation, no simplification beyond the
ring axioms, nothing is evaluated.
"""
import ast
from fractions import Fraction

from sa import pyfacts as pf


class NotComparable(Exception):
    pass


MAX_EXPAND = 6


def _key(p):
    return tuple(sorted(p.items(), key=repr))


def const(c):
    c = Fraction(c)
    return {(): c} if c != 0 else {}


def sym(name):
    return {((name, Fraction(1)),): Fraction(1)}


def add(p, q, sign=1):
    out = dict(p)
    for m, c in q.items():
        v = out.get(m, 0) + sign * c
        if v == 0:
            out.pop(m, None)
        else:
            out[m] = v
    return out


def _mono_mul(m1, m2):
    d = {}
    for a, e in m1 + m2:
        d[a] = d.get(a, 0) + e
    return tuple(sorted(((a, e) for a, e in d.items() if e != 0), key=repr))


def mul(p, q):
    out = {}
    for m1, c1 in p.items():
        for m2, c2 in q.items():
            m = _mono_mul(m1, m2)
            v = out.get(m, 0) + c1 * c2
            if v == 0:
                out.pop(m, None)
            else:
                out[m] = v
    return out


def as_const(p):
    if not p:
        return Fraction(0)
    if len(p) == 1 and () in p:
        return p[()]
    return None


def _rat_pow(c, e):
    """c ** e for rational c, e when the result is rational, else None"""
    if e.denominator == 1:
        if c == 0 and e < 0:
            raise NotComparable("0 ** negative")
        return c ** int(e)
    if c == 1:
        return Fraction(1)
    return None


def _content(p):
    """p = content_monomial * primitive; primitive has leading coefficient 1 and
    no atom common to all its terms."""
    items = sorted(p.items(), key=repr)
    common = None
    for m, _ in items:
        d = dict(m)
        if common is None:
            common = dict(d)
        else:
            for a in list(common):
                if a not in d:
                    del common[a]
                else:
                    # same sign of exponent only; take the one closer to zero
                    if (common[a] > 0) != (d[a] > 0):
                        del common[a]
                    else:
                        common[a] = min(common[a], d[a], key=abs)
    lead = items[0][1]
    cm = tuple(sorted(common.items(), key=repr))
    inv = tuple((a, -e) for a, e in cm)
    prim = {}
    for m, c in items:
        prim[_mono_mul(m, inv)] = c / lead
    return lead, cm, prim


def power(p, e):
    """p ** e with e a normal form"""
    ec = as_const(e)
    if ec is not None:
        if ec == 0:
            return const(1)
        if ec.denominator == 1 and 0 < ec <= MAX_EXPAND:
            out = const(1)
            for _ in range(int(ec)):
                out = mul(out, p)
            return out
        if len(p) == 1:
            (m, c), = p.items()
            cp = _rat_pow(c, ec)
            if cp is not None:
                return {tuple(sorted(((a, x * ec) for a, x in m), key=repr)): cp}
        elif len(p) > 1 and ec.denominator == 1:
            lead, cm, prim = _content(p)
            atom = ("sum", _key(prim))
            out = {((atom, ec),): Fraction(1)}
            out = mul(out, {tuple(sorted(((a, x * ec) for a, x in cm), key=repr)): _rat_pow(lead, ec)})
            return out
        if not p:
            raise NotComparable("0 ** %s" % ec)
    atom = ("pow", _key(p), _key(e))
    return {((atom, Fraction(1)),): Fraction(1)}


def fn(name, p):
    return {((("fn", name, _key(p)), Fraction(1)),): Fraction(1)}


def absval(p, positive=(), sign=False):
    """abs(p) (or sign(p)) with the sound identities  abs(c*q) = |c|*abs(q),  abs(q*b) = abs(q)*b and
    abs(q/b) = abs(q)/b for symbols b assumed > 0,  abs(-q) = abs(q):  the numeric content and the
    positive symbols common to all terms are pulled out, the rest stays inside one opaque atom."""
    if not p:
        return {}
    lead, cm, prim = _content(p)
    pos = tuple((a, e) for a, e in cm if isinstance(a, str) and a in positive)
    rest = tuple((a, e) for a, e in cm if not (isinstance(a, str) and a in positive))
    inner = mul(prim, {tuple(sorted(rest, key=repr)): Fraction(1)}) if rest else prim
    c = as_const(inner)
    if sign:
        outer = const(1 if lead > 0 else -1)
        return outer if c is not None else mul(outer, fn("sign", inner))
    outer = {tuple(sorted(pos, key=repr)): abs(lead)}
    if c is not None:
        return mul(outer, const(abs(c)))
    return mul(outer, fn("abs", inner))


INJECTIVE_FUNCS = {"exp", "log"}


def opaque_functions(p):
    """names of the opaque function atoms occurring anywhere in a normal form"""
    out = set()

    def atom(a):
        if isinstance(a, tuple):
            if a[0] == "fn":
                out.add(a[1])
                poly(dict(a[2]))
            elif a[0] == "sum":
                poly(dict(a[1]))
            elif a[0] == "pow":
                poly(dict(a[1]))
                poly(dict(a[2]))

    def poly(q):
        for m, _ in q.items():
            for a, _e in m:
                atom(a)
    poly(p)
    return out


def definitely_different(p, q):
    """Two different normal forms denote different functions only when every opaque function in them is
    injective and compared on canonical arguments (exp, log); with abs/sign/sqrt/trigonometric atoms
    further identities exist that the normal form does not know, so the comparison is undecided."""
    return p != q and not ((opaque_functions(p) | opaque_functions(q)) - INJECTIVE_FUNCS)


def show(p):
    """Readable rendering of a normal form."""
    if not p:
        return "0"

    def atom_s(a):
        if isinstance(a, str):
            return a
        if a[0] == "fn":
            return "%s(%s)" % (a[1], show(dict(a[2])))
        if a[0] == "sum":
            return "(%s)" % show(dict(a[1]))
        if a[0] == "pow":
            return "(%s)**(%s)" % (show(dict(a[1])), show(dict(a[2])))
        return repr(a)

    parts = []
    for m, c in sorted(p.items(), key=repr):
        fs = []
        for a, e in m:
            fs.append(atom_s(a) if e == 1 else "%s^%s" % (atom_s(a), e))
        body = "*".join(fs)
        if not body:
            parts.append(str(c))
        elif c == 1:
            parts.append(body)
        elif c == -1:
            parts.append("-" + body)
        else:
            parts.append("%s*%s" % (c, body))
    return " + ".join(parts).replace("+ -", "- ")


# ----------------------------------------------------------------------------
# ast -> normal form
# ----------------------------------------------------------------------------
FUNCS = {"np.exp": "exp", "numpy.exp": "exp", "np.log": "log", "np.sqrt": "sqrt", "np.abs": "abs",
         "np.sin": "sin", "np.cos": "cos", "np.tanh": "tanh", "np.log1p": "log1p"}


def _is_broadcast_index(s):
    """[:, None], [np.newaxis, :, :], [...] -- indexes that only add axes"""
    elts = s.elts if isinstance(s, ast.Tuple) else [s]
    for e in elts:
        if isinstance(e, ast.Slice) and e.lower is None and e.upper is None and e.step is None:
            continue
        if isinstance(e, ast.Constant) and (e.value is None or e.value is Ellipsis):
            continue
        if pf.src(e) in ("np.newaxis", "numpy.newaxis"):
            continue
        return False
    return True


class Normaliser:
    """symbols: dict text -> symbol name for parameters / attributes
    (e.g. {'X': 'X', 'lscale': 'L', 'self.length_scale': 'L'})."""

    def __init__(self, symbols, positive=()):
        self.symbols = dict(symbols)
        self.positive = tuple(positive)  # symbol names assumed > 0 (length scales, alpha)
        self.env = {}

    def expr(self, e):
        if isinstance(e, ast.Constant):
            if isinstance(e.value, bool) or not isinstance(e.value, (int, float)):
                raise NotComparable("constant %r" % (e.value,))
            return const(Fraction(e.value))
        if isinstance(e, ast.Name):
            if e.id in self.env:
                v = self.env[e.id]
                if isinstance(v, Exception):
                    raise NotComparable("local %s: %s" % (e.id, v))
                return v
            if e.id in self.symbols:
                return sym(self.symbols[e.id])
            raise NotComparable("free name %s" % e.id)
        if isinstance(e, ast.Attribute):
            s = pf.src(e)
            if s in self.symbols:
                return sym(self.symbols[s])
            if s in ("np.pi", "numpy.pi", "math.pi"):
                return sym("pi")
            if isinstance(e.value, ast.Name) and e.value.id == "self":
                return sym(s)
            raise NotComparable("attribute %s" % s)
        if isinstance(e, ast.Subscript):
            if _is_broadcast_index(e.slice):
                return self.expr(e.value)
            raise NotComparable("indexing %s" % pf.src(e))
        if isinstance(e, ast.UnaryOp):
            if isinstance(e.op, ast.USub):
                return mul(const(-1), self.expr(e.operand))
            if isinstance(e.op, ast.UAdd):
                return self.expr(e.operand)
            raise NotComparable(pf.src(e))
        if isinstance(e, ast.BinOp):
            a, b = self.expr(e.left), self.expr(e.right)
            if isinstance(e.op, ast.Add):
                return add(a, b)
            if isinstance(e.op, ast.Sub):
                return add(a, b, -1)
            if isinstance(e.op, ast.Mult):
                return mul(a, b)
            if isinstance(e.op, ast.Div):
                if not b:
                    raise NotComparable("division by zero")
                return mul(a, power(b, const(-1)))
            if isinstance(e.op, ast.Pow):
                return power(a, b)
            raise NotComparable(pf.src(e))
        if isinstance(e, ast.Call):
            cn = pf.call_name(e)
            if cn in ("np.abs", "np.fabs", "np.absolute", "numpy.abs", "abs") and len(e.args) == 1 and not e.keywords:
                return absval(self.expr(e.args[0]), self.positive)
            if cn in ("np.sign", "numpy.sign") and len(e.args) == 1 and not e.keywords:
                return absval(self.expr(e.args[0]), self.positive, sign=True)
            if cn in FUNCS and len(e.args) == 1 and not e.keywords:
                return fn(FUNCS[cn], self.expr(e.args[0]))
            if cn in ("np.square", "numpy.square") and len(e.args) == 1:
                a = self.expr(e.args[0])
                return mul(a, a)
            if cn in ("np.power", "numpy.power") and len(e.args) == 2 and not e.keywords:
                return power(self.expr(e.args[0]), self.expr(e.args[1]))
            raise NotComparable("call %s" % pf.src(e)[:60])
        raise NotComparable(pf.src(e)[:60])

    # straight-line execution with if-merging
    def run(self, stmts):
        """Execute statements; returns the ast of the first `return` value met at this
        nesting level together with the environment at that point (the environment is left
        in self.env), or None."""
        for st in stmts:
            if isinstance(st, ast.Return):
                return st.value
            if isinstance(st, ast.Assign) and len(st.targets) == 1 and isinstance(st.targets[0], ast.Name):
                self._bind(st.targets[0].id, st.value)
            elif isinstance(st, ast.AugAssign) and isinstance(st.target, ast.Name):
                opmap = {ast.Add: ast.Add, ast.Sub: ast.Sub, ast.Mult: ast.Mult, ast.Div: ast.Div, ast.Pow: ast.Pow}
                if type(st.op) in opmap:
                    fake = ast.BinOp(left=ast.Name(id=st.target.id, ctx=ast.Load()), op=st.op, right=st.value)
                    self._bind(st.target.id, fake)
                else:
                    self.env[st.target.id] = NotComparable("augmented %s" % pf.src(st))
            elif isinstance(st, ast.If):
                a = Normaliser(self.symbols, self.positive)
                a.env = dict(self.env)
                b = Normaliser(self.symbols, self.positive)
                b.env = dict(self.env)
                ra = a.run(st.body)
                rb = b.run(st.orelse)
                if ra is not None or rb is not None:
                    # a return inside a branch: the caller wanted the unconditional one
                    raise NotComparable("conditional return")
                for k in set(a.env) | set(b.env):
                    va, vb = a.env.get(k), b.env.get(k)
                    if k in a.env and k in b.env and not isinstance(va, Exception) \
                            and not isinstance(vb, Exception) and va == vb:
                        self.env[k] = va
                    else:
                        self.env[k] = NotComparable("value of %s depends on a branch" % k)
            elif isinstance(st, (ast.Expr, ast.Pass, ast.Assert)):
                continue
            else:
                # any other statement may rebind anything it names as a target
                for n in ast.walk(st):
                    if isinstance(n, ast.Name) and isinstance(n.ctx, ast.Store):
                        self.env[n.id] = NotComparable("bound by %s" % type(st).__name__)
        return None

    def _bind(self, name, value):
        try:
            self.env[name] = self.expr(value)
        except NotComparable as ex:
            self.env[name] = ex
