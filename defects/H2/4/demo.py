"""
C02 / fast vs slow SDMX generators for SADMSettings("exact").

ciderpress.pyscf.sdmx_slow evaluates the 'exact' spherically-averaged-density-matrix
exchange with a plain Gaussian convolution (GTOcontract_conv0).  The fast module
ciderpress.pyscf.sdmx (the one used by the SCF interface, ciderpress/pyscf/dft.py and
numint.py) never looks at settings.mode: eval_conv_shells always dispatches on
settings.integral_type == 'gauss_diff' and applies the *smooth* difference-of-Gaussians
kernel, while SADMPlan built the fit matrix / norms for the exact kernel.  Its sibling
eval_conv_gto_fast (sdmx_slow.py) raises NotImplementedError for mode == 'exact';
eval_conv_shells silently returns a different number.

Expected: fast == slow (== angular quadrature of the definition), or an explicit refusal.
Observed: fast differs from slow by a factor ~2.7-3 at every grid point, without any error.
"""
import ctypes
import os
import sys

sys.path.insert(0, os.path.dirname(os.path.abspath(__file__)))
import shim  # noqa

import numpy as np
from pyscf import dft, gto
from pyscf.dft.gen_grid import libdft
from pyscf.gto.eval_gto import eval_gto

from ciderpress.dft.settings import SADMSettings
from ciderpress.pyscf import sdmx as sdmx_fast
from ciderpress.pyscf import sdmx_slow


def definition(mol, dm, coords):
    """-1/4 int d^3u |rho_sph(u; r)|^2 / u with rho_sph the spherical average of n1(r+u, r)"""
    n = 302
    grid = np.empty((n, 4))
    libdft.MakeAngularGrid(grid.ctypes.data_as(ctypes.c_void_p), ctypes.c_int(n))
    ang, wang = grid[:, :3], grid[:, 3]
    c = eval_gto(mol, "GTOval_sph", coords).dot(dm)
    t = np.linspace(np.log(1e-4), np.log(40), 800)
    u = np.exp(t)
    out = np.zeros(len(coords))
    for ig, r in enumerate(coords):
        pts = r[None, None, :] + u[:, None, None] * ang[None, :, :]
        ao = eval_gto(mol, "GTOval_sph", pts.reshape(-1, 3)).reshape(len(u), n, -1)
        sph = ao.dot(c[ig]).dot(wang)
        out[ig] = -np.pi * np.trapezoid(u * sph**2 * u, t)
    return out


def main():
    np.random.seed(1)
    mol = gto.M(atom="H 0 0 0; F 0 0 0.9", basis="def2-svp", verbose=0)
    ks = dft.RKS(mol)
    ks.xc = "PBE"
    ks.grids.level = 1
    ks.kernel()
    dm = ks.make_rdm1()
    coords = np.random.normal(size=(6, 3)) * 0.8 + np.array([0, 0, 0.85])
    ref = definition(mol, dm, coords)
    settings = SADMSettings("exact")
    slow = sdmx_slow.EXXSphGenerator.from_settings_and_mol(settings, 1, mol)
    f_slow = slow.get_features(dm, mol, coords)[0]
    np.set_printoptions(precision=5, linewidth=150)
    print("definition (quadrature):", ref)
    print("slow generator         :", f_slow)
    try:
        fast = sdmx_fast.EXXSphGenerator.from_settings_and_mol(settings, 1, mol)
        f_fast = fast.get_features(dm, mol, coords)[0]
    except NotImplementedError as e:
        print("fast generator         : refuses explicitly ->", e)
        print("OK (no silent disagreement)")
        return
    print("fast generator         :", f_fast)
    print("fast / slow            :", f_fast / f_slow)
    if not np.allclose(f_fast, f_slow, rtol=1e-3, atol=1e-8):
        print("FAIL: expected fast == slow for SADMSettings('exact'); "
              "observed max rel. difference %.3f" % np.max(np.abs(f_fast / f_slow - 1)))
        sys.exit(1)
    print("OK")


if __name__ == "__main__":
    main()
