"""
C12 demo: VZMap.fill_deriv_ is the chain-rule derivative of VZMap.fill_feat_ only for gamma = 1.
value:  y = -center + scale * gamma*u/(1+gamma*u),  u = x + x^2
        dy/dx = scale*gamma*(1+2x)/(1+gamma*u)^2
code :  fac*(1 + (gamma+1)*x + (gamma-1)*x*(3x+2x^2))   (== fac*(1+2x) only when gamma == 1)
"""
import sys
import numpy as np
from ciderpress.dft.transform_data import FeatureList, VZMap

rng = np.random.default_rng(0)
x = rng.uniform(0.05, 2.0, size=(3, 6))     # raw features (nraw, nsamp), admissible (>0)
dfdy = rng.normal(size=6)
fail = False
for gamma in [1.0, 0.5, 2.0, 0.1]:
    m = VZMap(1, gamma, scale=1.7, center=0.3)
    ana = np.zeros_like(x)
    m.fill_deriv_(ana, dfdy, x)
    h = 1e-6
    xp, xm = x.copy(), x.copy()
    xp[1] += h
    xm[1] -= h
    yp, ym = np.zeros(6), np.zeros(6)
    m.fill_feat_(yp, xp)
    m.fill_feat_(ym, xm)
    fd = dfdy * (yp - ym) / (2 * h)
    exact = dfdy * 1.7 * gamma * (1 + 2 * x[1]) / (1 + gamma * (x[1] + x[1] ** 2)) ** 2
    err = np.abs(fd - ana[1]).max() / np.abs(fd).max()
    print("gamma=%.2f  finite-diff %s" % (gamma, np.round(fd[:3], 6)))
    print("            closed form %s" % np.round(exact[:3], 6))
    print("            fill_deriv_ %s   rel.err %.2e %s"
          % (np.round(ana[1][:3], 6), err, "ok" if err < 1e-6 else "MISMATCH"))
    if err >= 1e-6:
        fail = True

# same thing through FeatureList.fill_derivs_ (the interface used by the models)
fl = FeatureList([VZMap(0, 0.5), VZMap(0, 2.0, scale=2.0, center=1.0)])
dy = rng.normal(size=(2, 6))
dfdx = np.zeros_like(x)
fl.fill_derivs_(dfdx, dy, x)
h = 1e-6
xp, xm = x.copy(), x.copy()
xp[0] += h
xm[0] -= h
fd = (dy * (fl(xp.T).T - fl(xm.T).T)).sum(0) / (2 * h)
err = np.abs(fd - dfdx[0]).max() / np.abs(fd).max()
print("FeatureList.fill_derivs_ rel.err %.2e %s" % (err, "ok" if err < 1e-6 else "MISMATCH"))
fail = fail or err >= 1e-6
if fail:
    print("FAIL: VZMap derivative does not match its value for gamma != 1")
    sys.exit(1)
print("PASS")
