"""C07 -- ciderpress/dft/plans.py : FracLaplPlan.get_feat / get_vxc (NLOF features)

Every feature plan stores, for spin channel s, the *unpolarised* feature of the
density nspin * n_s (SemilocalPlan: feat *= nspin / nspin**2, NLDF plan:
feat *= nspin and nspin**2 for the l=1 dot products, SDMX plans:
fac = -0.25 * nspin**2; the training descriptors in
ciderpress/pyscf/descriptors.py use FracLaplPlan(settings, 1) on 2*rdm1[s]).
FracLaplPlan stores `self.nspin` but never uses it as a factor: the l=0 and
F^dd features (linear in the density matrix) are a factor nspin too small and
the l=1 dot-product features (quadratic) a factor nspin**2 too small when
nspin = 2.  CiderNumIntMixin.eval_xc_cider copies the result straight into X0T.

Shown: (a) plan level, closed shell, nspin=2 vs nspin=1;
       (b) CiderNumInt.eval_xc_cider: XC energy density / potential of a
           closed-shell density differ between the two spin paths;
       (c) E[n_up,n_dn] != (E[2n_up] + E[2n_dn]) / 2 for a SEP (exchange) model;
       (d) (regression guard for the fix) get_vxc is the derivative of get_feat.
"""
import sys
from unittest import mock

import numpy as np

_orig_load = np.ctypeslib.load_library
np.ctypeslib.load_library = lambda name, path: (
    mock.MagicMock() if "ciderpress" in str(path) else _orig_load(name, path)
)

from ciderpress.dft import baselines as B  # noqa: E402
from ciderpress.dft.plans import FracLaplPlan  # noqa: E402
from ciderpress.dft.settings import (  # noqa: E402
    FeatureSettings,
    FracLaplSettings,
    SemilocalSettings,
)
from ciderpress.dft.transform_data import FeatureList, SignedUMap, SLNMap  # noqa: E402
from ciderpress.dft.xc_evaluator import FuncEvaluator, MappedDFTKernel, MappedXC  # noqa: E402
from ciderpress.pyscf.numint import CiderNumInt  # noqa: E402

fails = []
st = FracLaplSettings(
    [-0.5, 0.0, 0.5], 2, 2, [(-1, 0), (0, 1), (1, 1)], nd1=2, ld_dots=[(-1, 0), (0, 1)], ndd=1
)
rng = np.random.default_rng(1)
N = 5
nr = 5 + st.nrho


def random_rho():
    rho = rng.uniform(0.1, 1.0, (nr, N))
    rho[1:4] *= 0.2
    rho[4] = (rho[1:4] ** 2).sum(0) / (8 * rho[0]) + 0.4 * rho[0] ** (5.0 / 3)
    return rho


rho = random_rho()
f1 = FracLaplPlan(st, 1).get_feat(rho[None])
f2 = FracLaplPlan(st, 2).get_feat(np.stack([rho / 2, rho / 2]))
print("(a) NLOF features, grid point 0")
print("    nspin=1            :", f1[0, :, 0])
print("    nspin=2 (n/2, n/2) :", f2[0, :, 0])
print("    ratio              :", f1[0, :, 0] / f2[0, :, 0], "(expected all 1)")
if np.abs(f1[0] / f2[0] - 1).max() > 1e-10:
    fails.append("a")


class Quad(FuncEvaluator):
    def __call__(self, X1, res=None, dres=None):
        c = 0.1 + 0.03 * np.arange(1, X1.shape[-1] + 1)
        res[:] += 1.0 + (X1**2).dot(c) + X1.dot(c)
        dres[:] += 2 * X1 * c + c
        return res, dres


sl = SemilocalSettings("nst")
fs = FeatureSettings(sl_settings=sl, nlof_settings=st)
fl = FeatureList([SLNMap(0, 2.0)] + [SignedUMap(i, 1.0) for i in range(1, fs.nfeat)])
mlxc = MappedXC([MappedDFTKernel(Quad(), fl, "SEP", B.lda_x, B.zero_xc)], fs)
ni = CiderNumInt(mlxc, "", None, None)
ni.build()


def exc_n(rho_s):
    """energy density e = exc * n and vxc from eval_xc_cider"""
    rho_s = np.asarray(rho_s)
    nspin = 1 if rho_s.ndim == 2 else 2
    ni.initialize_feature_generators(None, None, nspin)
    exc, (vxc, _, _) = ni.eval_xc_cider("", rho_s, None, None)[:2]
    dens = rho_s[0] if nspin == 1 else rho_s[:, 0].sum(0)
    return exc * dens, vxc


e1, v1 = exc_n(rho)
e2, v2 = exc_n(np.stack([rho / 2, rho / 2]))
print("(b) eval_xc_cider, closed shell")
print("    e (RKS path) =", e1)
print("    e (UKS path) =", e2)
print("    vrho (RKS)   =", v1[0])
print("    vrho (UKS,up)=", v2[0, 0])
d = np.abs(e1 - e2).max()
dv = np.abs(v1 - v2[0]).max()
print("    max |e1-e2| = %.3e, max |v1 - v2_up| = %.3e (expected ~1e-15)" % (d, dv))
if d > 1e-10 or dv > 1e-10:
    fails.append("b")

ra, rb = random_rho(), random_rho()
eab = exc_n(np.stack([ra, rb]))[0]
ea = exc_n(2 * ra)[0]
eb = exc_n(2 * rb)[0]
d = np.abs(eab - 0.5 * (ea + eb)).max()
print("(c) SEP model: E[na,nb] =", eab)
print("    (E[2na]+E[2nb])/2   =", 0.5 * (ea + eb))
print("    max diff = %.3e (expected ~1e-15)" % d)
if d > 1e-10:
    fails.append("c")

# (d) derivative consistency of the plan for nspin = 2
plan = FracLaplPlan(st, 2)
r2 = np.stack([ra, rb])
c = rng.uniform(0.5, 1.5, (2, st.nfeat, N))
plan.get_feat(r2)
vxc = plan.get_vxc(c)
h = 1e-6
err = 0.0
for s in range(2):
    for i in [1, 2, 3] + list(range(5, nr)):
        rp, rm = r2.copy(), r2.copy()
        rp[s, i] += h
        rm[s, i] -= h
        fd = ((plan.get_feat(rp) - plan.get_feat(rm)) * c).sum((0, 1)) / (2 * h)
        err = max(err, np.abs(fd - vxc[s, i]).max())
print("(d) nspin=2: max |get_vxc - finite difference of get_feat| = %.3e (expected ~1e-9)" % err)
if err > 1e-6:
    fails.append("d")

if fails:
    print("FAIL:", fails)
    sys.exit(1)
print("OK")
