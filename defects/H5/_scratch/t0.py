import cider_build
import numpy as np
from ciderpress.dft.lcao_convolutions import ATCBasis
from ciderpress.pyscf.nldf_convolutions import PyscfNLDFGenerator
from ciderpress.pyscf.gen_cider_grid import CiderGrids
from ciderpress.dft.settings import NLDFSettingsVJ
print("ok")
