import cider_build
import numpy as np
from pyscf import gto
from ciderpress.pyscf.nldf_convolutions import PyscfNLDFGenerator
from ciderpress.pyscf.gen_cider_grid import CiderGrids
from ciderpress.dft.settings import NLDFSettingsVI
vi = NLDFSettingsVI("MGGA", [1.0, 0.0, 0.03125], "one", [], ["se_grad", "se_rvec"], [(0, 0), (0,1), (-1, 1)])
mol = gto.M(atom="H 0 0 0; F 0 0.1 0.9", basis="def2-svp", verbose=0)
grids = CiderGrids(mol, lmax=6); grids.level = 0; grids.build()
gen = PyscfNLDFGenerator.from_mol_and_settings(mol, grids.grids_indexer, 1, vi)
gen.interpolator.set_coords(grids.coords)
rng = np.random.default_rng(0)
x = rng.normal(size=(grids.grids_indexer.ngrids, gen.plan.nalpha))
Ax = gen._perform_fwd_convolution(x)
print(Ax.shape)
