"""
C01 demo: a CIDER model whose feature list contains a VZMap
(ciderpress.dft.transform_data.VZMap, code "VZ").

1) VZMap.fill_deriv_ must be the derivative of VZMap.fill_feat_.
2) Consequently the XC matrix returned by CiderNumInt.nr_rks / nr_uks must be the
   derivative of the XC energy it returns for a model using that map.

Run:  PYTHONPATH=/tmp/hunt/H1 /venv/bin/python demo.py
"""
import os
import sys

sys.path.insert(0, os.path.join(os.path.dirname(os.path.abspath(__file__)), "..", "common"))
from demo_util import build_ks, default_mol, fd_vs_vmat, psd_dm  # noqa: E402
import numpy as np  # noqa: E402

from ciderpress.dft import baselines  # noqa: E402
from ciderpress.dft.settings import FeatureSettings, SemilocalSettings  # noqa: E402
from ciderpress.dft.transform_data import FeatureList, UMap, VZMap  # noqa: E402
from ciderpress.dft.xc_evaluator import (  # noqa: E402
    GlobalLinearEvaluator,
    MappedDFTKernel,
    MappedXC,
)

TOL = 1e-5


def map_check():
    rng = np.random.RandomState(0)
    x = rng.uniform(0.0, 3.0, (3, 25))
    m = VZMap(1, 0.6, scale=2.0, center=0.5)
    h = 1e-6
    yp, ym = np.zeros(25), np.zeros(25)
    xp, xm = x.copy(), x.copy()
    xp[1] += h
    xm[1] -= h
    m.fill_feat_(yp, xp)
    m.fill_feat_(ym, xm)
    fd = (yp - ym) / (2 * h)
    dfdx = np.zeros_like(x)
    m.fill_deriv_(dfdx, np.ones(25), x)
    err = np.abs(fd - dfdx[1]).max()
    print("  VZMap: max|d(fill_feat_)/dx (FD) - fill_deriv_| = %.3e" % err)
    print("    e.g. x=%.4f: FD=%.6f analytic=%.6f" % (x[1, 0], fd[0], dfdx[1, 0]))
    return err


def integrator_check(mode, unrestricted):
    mol = default_mol(unrestricted)
    settings = FeatureSettings(sl_settings=SemilocalSettings("npa"))
    flist = FeatureList([VZMap(1, 0.4), UMap(2, 0.3)])
    feval = GlobalLinearEvaluator([0.3, -0.2])
    kernel = MappedDFTKernel(feval, flist, mode, baselines.lda_x, baselines.zero_xc)
    mlxc = MappedXC([kernel], settings)
    ks = build_ks(mol, mlxc, unrestricted, xmix=1.0)
    dm = psd_dm(mol, unrestricted)
    e0, fd, an = fd_vs_vmat(ks, dm)
    print(
        "  mode=%-4s %s: Exc=%.8f  dE(FD)=%.8f  tr(vmat dP)=%.8f  |diff|=%.2e"
        % (mode, "UKS" if unrestricted else "RKS", e0, fd, an, abs(fd - an))
    )
    return abs(fd - an)


if __name__ == "__main__":
    print("Expected: analytic derivative == finite difference (|diff| < %g)" % TOL)
    print("1) the feature map alone")
    worst = map_check()
    print("2) CiderNumInt.nr_rks / nr_uks with a model whose feature list has a VZMap")
    for mode in ("NPOL", "SEP"):
        for unres in (False, True):
            worst = max(worst, integrator_check(mode, unres))
    if worst > TOL:
        print("FAIL: XC matrix is not the derivative of the XC energy (max err %.3e)" % worst)
        sys.exit(1)
    print("OK")
